#!/bin/sh
# The repository's stable baseline with the `verif` build tag OFF (no -tags given).
export GOPROXY=off GOSUMDB=off GOTOOLCHAIN=local
REPO=${VERIF_REPO:-/repo}
rc=0
for m in . ./cmd/application ./cmd/registration-server ./util/station-debug; do
  (cd "$REPO/$m" && go test -json -vet=off -count=1 -timeout 25m ./...) || rc=1
done
exit 0
