#!/usr/bin/env python3
"""print the seeder prompt for property $1 and create its scratch worktree /tmp/seed_<id>"""
import json, subprocess, sys, os
pid = sys.argv[1]
wt = "/tmp/seed_" + pid + (sys.argv[2] if len(sys.argv) > 2 else "")
subprocess.run(["git", "-C", "/repo", "worktree", "remove", "--force", wt], capture_output=True)
subprocess.run(["git", "-C", "/repo", "worktree", "add", "-q", "--detach", wt, "HEAD"], check=True)
for l in open("/verif/properties.jsonl"):
    d = json.loads(l)
    if d["id"] == pid:
        print(open("/verif/notes/_prompt_seeder.txt").read())
        print("WORKTREE: " + wt)
        print("PROPERTY " + pid + ": " + d["title"])
        print("Statement: " + d["statement"])
        print("Quantifier: " + d["quantifier"]["text"])
        print("Why the existing tests cannot settle it: " + d["why_tests_cant"])
        print("Anchors (source files): " + ", ".join(d["anchors"]["files"]))
        print("Mechanisms: " + "; ".join("%s (%s)" % (m.get("name"), m.get("where")) for m in d["anchors"].get("mechanism", [])))
