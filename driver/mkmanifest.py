#!/usr/bin/env python3
"""Assemble MANIFEST.json from driver/manifest.d/*.json (one fragment per property)."""
import glob, json, os
V = os.path.dirname(os.path.dirname(os.path.abspath(__file__)))
checks, na = [], []
for p in sorted(glob.glob(os.path.join(V, "driver", "manifest.d", "C*.json"))):
    d = json.load(open(p))
    if "reason" in d:
        na.append(d)
        continue
    pid = d["property_id"]
    d.setdefault("quick_cmd", "python3 driver/check.py %s --tier quick" % pid)
    d.setdefault("thorough_cmd", "python3 driver/check.py %s --tier thorough" % pid)
    d.setdefault("evidence_file", "/verif/evidence/%s.json" % pid)
    d.setdefault("replay_cmd_template", "python3 driver/check.py %s --replay {path}" % pid)
    d.setdefault("engine", "coq-correspondence")
    checks.append(d)
claimed = {c["property_id"] for c in checks} | {n["property_id"] for n in na}
for l in open(os.path.join(V, "properties.jsonl")):
    pid = json.loads(l)["id"]
    if pid not in claimed:
        na.append({"property_id": pid, "reason": "no check registered yet: the Coq model and correspondence harness for this property are still being built (technique applies; see DESIGN.md section 5)"})
m = {
 "version": 1,
 "setup_cmd": "mkdir -p build && sh driver/setup.sh",
 "hooks": {"guard": "verif", "enable": "go test -tags verif -overlay <driver overlay> (in-package drivers under harness/inpkg are injected with -overlay; nothing is written into /repo)",
           "baseline_off_cmd": "sh /verif/baseline_off.sh", "source_commits": [], "add_only": True},
 "engines": [{"name": "coq-correspondence", "path": "driver/check.py",
              "serves_properties": [c["property_id"] for c in checks],
              "kind_free_text": "Coq 8.16.1 theorems over hand-written executable models (coq/Cxx), tied to /repo's working tree on every run by a differential correspondence check (Go in-package drivers via go test -overlay; model evaluated with vm_compute on the same cases) plus a direct property oracle on the implementation"}],
 "checks": checks,
 "not_applicable": na,
 "notes": "See DESIGN.md. Fixed and open findings: known_findings.json. VERIF_REPO=<dir> points the checks at another checkout (used for seeded-change runs on scratch worktrees).",
}
hooks = os.path.join(V, "driver", "manifest.d", "hooks.json")
if os.path.exists(hooks):
    m["hooks"].update(json.load(open(hooks)))
json.dump(m, open(os.path.join(V, "MANIFEST.json"), "w"), indent=1)
print("checks:", [c["property_id"] for c in checks], "n/a:", [n["property_id"] for n in na])
