#!/bin/sh
# "Check it as a stranger would": full clean .vo build of every directory, forbidden-construct grep,
# Print Assumptions summary, and coqchk -o over every Props module. Takes the tree lock for the build.
V="$(cd "$(dirname "$0")/.." && pwd)"
mkdir -p "$V/build"
echo "== forbidden constructs (comments included; expect only prose hits)"
grep -rnE 'Admitted|\badmit\b|Axiom|Parameter |Conjecture|Unset Guard|bypass_check|native_compute|type-in-type|Admit Obligations' --include=*.v "$V/coq" | grep -v "^$V/coq/gen/" || echo "none"
echo "== clean build"
python3 "$V/driver/lockall.py" sh -c 'cd "$0/coq" && find Common C[0-9][0-9] -name "*.vo" -o -name "*.vok" -o -name "*.vos" -o -name "*.glob" | xargs rm -f; sh mk_coqproject.sh && timeout 7200 make -j16 > "$0/build/stranger_make.log" 2>&1; echo "make rc=$?"' "$V"
echo "== Print Assumptions summary"
echo "closed: $(grep -c 'Closed under the global context' "$V/build/stranger_make.log")  axioms-blocks: $(grep -c '^Axioms:' "$V/build/stranger_make.log")"
grep -A3 '^Axioms:' "$V/build/stranger_make.log" | head -20
if [ "$1" = "--no-build" ]; then :; fi
echo "== coqchk"
cp=$(mktemp -d "$V/build/strangerchk.XXXX")
(cd "$V/coq" && find Common C[0-9][0-9] -name '*.vo' -exec cp --parents {} "$cp" \;)
mods=$(cd "$V/coq" && ls C[0-9][0-9]/Props*.v | sed 's/\.v$//; s#/#.#; s/^/CJ./')
(cd "$cp" && timeout 7200 coqchk -silent -o -R "$cp" CJ $mods > "$V/build/stranger_coqchk.log" 2>&1; echo "coqchk rc=$?")
tail -25 "$V/build/stranger_coqchk.log"
rm -rf "$cp"
