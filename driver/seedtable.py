#!/usr/bin/env python3
"""Print a markdown table of seeded changes (meta.json + result.json) for DESIGN.md section 12.1.
   usage: seedtable.py [suffix letters, default 'ef']   e.g. seedtable.py efgh"""
import glob, json, os, re, sys
V = os.path.dirname(os.path.dirname(os.path.abspath(__file__)))
letters = sys.argv[1] if len(sys.argv) > 1 else "ef"


def first_sentence(s, n=260):
    s = re.sub(r"\s+", " ", s or "").strip()
    if len(s) <= n:
        return s
    cut = s[:n]
    k = max(cut.rfind(". "), cut.rfind("; "), cut.rfind(": "))
    return (cut[:k + 1] if k > n // 2 else cut.rsplit(" ", 1)[0]) + " …"


def esc(s):
    return s.replace("|", "\\|")


rows, tot, fi_own, fi_any, quiet = [], 0, 0, 0, []
for d in sorted(glob.glob(os.path.join(V, "seeded", "C*"))):
    name = os.path.basename(d)
    if name[-1] not in letters:
        continue
    try:
        m = json.load(open(os.path.join(d, "meta.json")))
    except Exception:
        continue
    try:
        r = json.load(open(os.path.join(d, "result.json")))
    except Exception:
        r = {"checks": {}}
    own = m.get("property")
    res, key = [], ""
    anyfi = False
    for p, v in sorted(r.get("checks", {}).items(), key=lambda kv: (kv[0] != own, kv[0])):
        st = "fi" if v.get("with_failing_input") else ("corr" if v.get("caught") else "quiet")
        anyfi = anyfi or st == "fi"
        res.append(("%s" if p == own else "**%s**") % p + " " + st)
        if st != "quiet" and not key:
            k = (v.get("first") or {}).get("key") or ""
            key = ("" if p == own else p + ": ") + "`" + k[:110] + "`" if k else ""
    tot += 1
    ownv = r.get("checks", {}).get(own, {})
    if ownv.get("with_failing_input"):
        fi_own += 1
    if anyfi:
        fi_any += 1
    else:
        quiet.append(name)
    rows.append("| %s | %s | %s | %s | %s |" % (name, esc(first_sentence(m.get("summary"))), esc(first_sentence(m.get("needs"), 200)),
                                              "; ".join(res) or "not run", key or "—"))
print("| seed | what the change is | what it needs to manifest | result | first key reported |")
print("|---|---|---|---|---|")
print("\n".join(rows))
print()
print("Totals: %d seeds; %d caught with a failing input by the owning check; %d by at least one registered check; not caught with a failing input: %s"
      % (tot, fi_own, fi_any, ", ".join(quiet) or "none"))
