#!/bin/sh
# Build Coq targets of one property under the directory locks:  driver/coqmake.sh C08 C08/Props.vo [more targets]
# (extra source directories a property depends on:  COQ_DIRS="C03 C04" driver/coqmake.sh C03 ...)
# Same protocol as driver/lib.py: .coq.lock.<dir> taken in sorted order; the property's own directory exclusively,
# Common and dependency directories shared (they are only read; build a dependency through ITS OWN property id).
V="$(cd "$(dirname "$0")/.." && pwd)"
pid="$1"; shift
dirs="${COQ_DIRS:-$pid}"
locks=$(printf '%s\n' Common $dirs | sort -u)
cmd='cd "'"$V"'/coq" && sh mk_coqproject.sh '"$dirs"' && timeout 1500 make -f Makefile.'"$pid"' -j16 "$@"'
for l in $(printf '%s\n' $locks | sort -r); do
  if [ "$l" = "$pid" ]; then mode=-x; else mode=-s; fi
  cmd="flock $mode '$V/.coq.lock.$l' sh -c '$(printf '%s' "$cmd" | sed "s/'/'\\\\''/g")' sh \"\$@\""
done
exec sh -c "$cmd" sh "$@"
