#!/bin/sh
# Build Coq targets of one property under the tree-wide lock:  driver/coqmake.sh C08 C08/Props.vo [more targets]
# (extra source directories a property depends on:  COQ_DIRS="C08 C02" driver/coqmake.sh C08 ...)
V="$(cd "$(dirname "$0")/.." && pwd)"
pid="$1"; shift
exec flock "$V/.coq.lock" sh -c 'cd "$0/coq" && sh mk_coqproject.sh ${COQ_DIRS:-$1} && shift && timeout 1500 make -f Makefile.'"$pid"' -j16 "$@"' "$V" "$pid" "$@"
