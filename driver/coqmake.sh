#!/bin/sh
# Build Coq targets of one property under the directory locks:  driver/coqmake.sh C08 C08/Props.vo [more targets]
# (extra source directories a property depends on:  COQ_DIRS="C08 C02" driver/coqmake.sh C08 ...)
# Locks .coq.lock.<dir> for Common and every directory involved, in sorted order (same protocol as driver/lib.py).
V="$(cd "$(dirname "$0")/.." && pwd)"
pid="$1"; shift
dirs="${COQ_DIRS:-$pid}"
locks=$(printf '%s\n' Common $dirs | sort -u)
cmd='cd "'"$V"'/coq" && sh mk_coqproject.sh '"$dirs"' && timeout 1500 make -f Makefile.'"$pid"' -j16 "$@"'
for l in $(printf '%s\n' $locks | sort -r); do
  cmd="flock '$V/.coq.lock.$l' sh -c '$(printf '%s' "$cmd" | sed "s/'/'\\\\''/g")' sh \"\$@\""
done
exec sh -c "$cmd" sh "$@"
