"""Shared machinery for the conjure Coq-proof checks (see DESIGN.md section 2).

A property module (driver/props/cXX.py) defines run(ctx) and uses:
  ctx.coq_props()            build coq/Cxx/Props.vo, collect obligations / Print Assumptions
  ctx.go_inpkg(...)          run an in-package driver (go test -overlay) against REPO's working tree
  ctx.coq_mismatches(...)    evaluate the model on the recorded cases inside Coq (vm_compute)
  ctx.fail(...)              record a property failure exhibited on the implementation (oracle)
  ctx.broken(...)            record a broken proof obligation / correspondence (no failing input)
  ctx.finish()               write evidence, print VIOLATION / KNOWN-FINDING lines, exit
"""
import fcntl
import hashlib
import json
import os
import random
import re
import subprocess
import sys
import time
from concurrent.futures import ThreadPoolExecutor

VERIF = os.path.dirname(os.path.dirname(os.path.abspath(__file__)))
REPO = os.environ.get("VERIF_REPO", "/repo")
COQ = os.path.join(VERIF, "coq")
GEN = os.path.join(COQ, "gen")
BUILD = os.path.join(VERIF, "build")
INPKG = os.path.join(VERIF, "harness", "inpkg")
GOENV = {"GOFLAGS": "-mod=mod", "GOPROXY": "off", "GOSUMDB": "off", "GOTOOLCHAIN": "local",
         "GONOSUMDB": "*", "GONOSUMCHECK": "1"}

ALLOWED_AXIOMS = ()  # no axioms are expected anywhere; std-lib ones would be named here

FORBIDDEN = re.compile(r"\b(Admitted|admit|Axiom|Axioms|Parameter|Parameters|Conjecture|Conjectures|"
                       r"Unset\s+Guard|bypass_check|Admit\s+Obligations|native_compute|type-in-type)\b")


def sh(cmd, cwd=None, env=None, timeout=None, stdin=None):
    e = dict(os.environ)
    if env:
        e.update(env)
    try:
        p = subprocess.run(cmd, cwd=cwd, env=e, timeout=timeout, input=stdin,
                           stdout=subprocess.PIPE, stderr=subprocess.STDOUT, text=True,
                           shell=isinstance(cmd, str), errors="replace")
        return p.returncode, p.stdout
    except subprocess.TimeoutExpired as ex:
        out = ex.stdout if isinstance(ex.stdout, str) else (ex.stdout or b"").decode("utf8", "replace")
        return 124, out + "\n[timeout after %ss]" % timeout


# ---------------------------------------------------------------- Gallina emitters
def hexs(b):
    """bytes -> Gallina term of type `bytes` (list N)"""
    if len(b) == 0:
        return "(@nil N)"
    return '(unhex "%s")' % bytes(b).hex()


BIG = 1500


class GenBytes(bytes):
    """bytes produced by the LCG that Common/Base.v mirrors (lcg_bytes seed n)"""
    seed = 0


def lcg_bytes(seed, n):
    x = seed
    out = bytearray()
    for _ in range(n):
        x = (x * 1103515245 + 12345) % 2147483648
        out.append((x // 65536) % 256)
    g = GenBytes(out)
    g.seed = seed
    return g


def bhash(b):
    h = 7
    for x in b:
        h = (h * 1000003 + x + 1) & 0xFFFFFFFFFFFFFFFF
    return h


def bspec_in(b):
    """input byte string -> Gallina `bspec` (Lit or Gen); large inputs must come from lcg_bytes"""
    if isinstance(b, GenBytes) and len(b) > 64:
        return "(Gen %d%%N %d%%N)" % (b.seed, len(b))
    assert len(b) <= 4 * BIG, "large inputs must be GenBytes"
    return "(Lit %s)" % hexs(b)


def bspec_obs(b):
    """observed byte string -> Gallina `bspec` (Lit, or Dig for large ones)"""
    if len(b) > BIG:
        return "(Dig %d%%N %d%%N)" % (len(b), bhash(b))
    return "(Lit %s)" % hexs(b)


def gN(n):
    assert n >= 0
    return "%d%%N" % n


def gZ(n):
    return "(%d)%%Z" % n


def gnat(n):
    assert 0 <= n < 5000, "nat literal too large"
    return "%d%%nat" % n


def gbool(b):
    return "true" if b else "false"


def gopt(x, f=lambda v: v):
    return "None" if x is None else "(Some %s)" % f(x)


def glist(xs, f=lambda v: v):
    return "[" + "; ".join(f(x) for x in xs) + "]"


class Ctx:
    def __init__(self, pid, tier, seed, replay=None):
        self.pid = pid
        self.tier = tier
        self.seed = seed
        self.rng = random.Random("%s-%d" % (pid, seed))
        self.replay = replay
        self.t0 = time.time()
        self.failures = []      # exhibited on the implementation
        self.brokens = []       # obligations / correspondence that no longer check
        self.known_printed = []
        self.cov = {"evaluations": 0, "distinct_nontrivial": 0, "rule": "", "samples": [],
                    "obligations": 0, "discharged": 0, "checker_cmd": "", "trusted_base": [],
                    "theorems": [], "assumptions_printed": {}, "histogram": {}, "mismatches": 0,
                    "oracle_failures": 0}
        self.assumptions = []
        self.level = "proof"
        self._distinct = set()
        os.makedirs(GEN, exist_ok=True)
        os.makedirs(BUILD, exist_ok=True)
        os.makedirs(os.path.join(VERIF, "replays"), exist_ok=True)
        os.makedirs(os.path.join(VERIF, "evidence"), exist_ok=True)
        self.extra_dirs = []     # further coq/ directories this property's files Require
        self.known = self._load_known()

    # ------------------------------------------------------------ known findings
    def _load_known(self):
        p = os.path.join(VERIF, "known_findings.json")
        if not os.path.exists(p):
            return []
        with open(p) as f:
            d = json.load(f)
        return [e for e in d.get(self.pid, []) if e.get("status") == "open"]

    # ------------------------------------------------------------ counting
    def count(self, case_repr, nontrivial=True, kind=None):
        """count one evaluated case; distinct_nontrivial is measured by hashing the case"""
        self.cov["evaluations"] += 1
        if kind is not None:
            self.cov["histogram"][kind] = self.cov["histogram"].get(kind, 0) + 1
        if nontrivial:
            h = hashlib.sha1(repr(case_repr).encode()).digest()[:10]
            if h not in self._distinct:
                self._distinct.add(h)
                self.cov["distinct_nontrivial"] += 1

    def sample(self, obj, limit=6):
        if len(self.cov["samples"]) < limit:
            self.cov["samples"].append(obj)

    def require_kinds(self, kinds):
        """generator self-test: every case class must have been hit"""
        missing = [k for k in kinds if self.cov["histogram"].get(k, 0) == 0]
        if missing:
            self.broken("generator-selftest", "case classes never generated: %s" % missing)

    # ------------------------------------------------------------ Coq
    def _lock(self, shared_deps=True):
        """Lock the coq/ directories involved, in sorted order (no cyclic waits).  The property's own
        directory is locked exclusively; Common and the directories it depends on are locked SHARED when
        shared_deps (their compiled files are only read), so unrelated properties build concurrently and a
        long build of one property cannot stall the others.  shared_deps=False takes everything exclusively
        (used for the first phase of a build, which brings the dependencies up to date)."""
        dirs = sorted(set(["Common", self.pid] + list(self.extra_dirs)))
        pid = self.pid

        class _L:
            def __init__(s, names):
                s.fs = []
                for n in names:
                    f = open(os.path.join(VERIF, ".coq.lock." + n), "a")
                    fcntl.flock(f, fcntl.LOCK_SH if (shared_deps and n != pid) else fcntl.LOCK_EX)
                    s.fs.append(f)

            def close(s):
                for f in reversed(s.fs):
                    f.close()
        return _L(dirs)

    def _dep_targets(self):
        t = []
        for d in ["Common"] + [x for x in self.extra_dirs if x != self.pid]:
            for root, _, files in os.walk(os.path.join(COQ, d)):
                for fn in sorted(files):
                    if fn.endswith(".v"):
                        t.append(os.path.relpath(os.path.join(root, fn), COQ) + "o")
        return t

    def coq_make(self, targets, timeout=1500, remove=(), clean_dirs=()):
        """build targets with a per-property Makefile (Common + this property's directories).
        Phase 1 (all locks exclusive, normally a no-op of a second): bring Common and the dependency
        directories up to date.  Phase 2 (own directory exclusive, dependencies shared): delete `remove`
        files / `clean_dirs` compiled files and build the targets, so a concurrent check of the same
        property cannot rebuild them in between and other properties are not held up."""
        dirs = [self.pid] + [d for d in self.extra_dirs if d != self.pid]
        mk = ["make", "-f", "Makefile." + self.pid, "-j16"]
        lk = self._lock(shared_deps=False)
        try:
            rc, out = sh(["sh", os.path.join(COQ, "mk_coqproject.sh")] + dirs, cwd=COQ, timeout=120)
            if rc != 0:
                return rc, out
            deps = self._dep_targets()
            q = subprocess.run(mk + ["-q"] + deps, cwd=COQ, stdout=subprocess.DEVNULL, stderr=subprocess.DEVNULL)
            if q.returncode != 0:
                rc, out = sh(mk + deps, cwd=COQ, timeout=timeout)
                if rc != 0:
                    return rc, out
        finally:
            lk.close()
        lk = self._lock(shared_deps=True)
        try:
            for f in remove:
                if os.path.exists(f):
                    os.remove(f)
            for sd in clean_dirs:
                for root, _, files in os.walk(os.path.join(COQ, sd)):
                    for fn in files:
                        if fn.endswith((".vo", ".vok", ".vos", ".glob")):
                            os.remove(os.path.join(root, fn))
            return sh(mk + list(targets), cwd=COQ, timeout=timeout)
        finally:
            lk.close()

    def hygiene(self, subdirs):
        bad = []
        for sd in subdirs:
            d = os.path.join(COQ, sd)
            for root, _, files in os.walk(d):
                for fn in files:
                    if fn.endswith(".v"):
                        txt = open(os.path.join(root, fn)).read()
                        txt = re.sub(r"\(\*.*?\*\)", "", txt, flags=re.S)
                        for m in FORBIDDEN.finditer(txt):
                            bad.append("%s: %s" % (os.path.join(sd, fn), m.group(0)))
                        # Variable/Hypothesis outside a section
                        depth = 0
                        for line in txt.splitlines():
                            s = line.strip()
                            if re.match(r"Section\s+\w+", s):
                                depth += 1
                            elif re.match(r"End\s+\w+\s*\.", s) and depth > 0:
                                depth -= 1
                            elif depth == 0 and re.match(r"(Variable|Variables|Hypothesis|Hypotheses|Context)\b", s):
                                bad.append("%s: section-less %s" % (os.path.join(sd, fn), s[:40]))
        return bad

    def coq_props(self, extra_dirs=(), props_files=None):
        """(Re)build Cxx/Props.vo from scratch and read the kernel's verdict per theorem."""
        pid = self.pid
        for d in extra_dirs:
            if d not in self.extra_dirs:
                self.extra_dirs.append(d)
        props_files = props_files or ["%s/Props.v" % pid]
        theorems = []
        for pf in props_files:
            txt = open(os.path.join(COQ, pf)).read()
            theorems += re.findall(r"^(?:Theorem|Corollary)\s+(\w+)", txt, flags=re.M)
        vos = [os.path.join(COQ, pf + "o") for pf in props_files]
        rc, out = self.coq_make([pf + "o" for pf in props_files], remove=vos,
                                clean_dirs=[pid] if self.tier == "thorough" else ())
        closed = {}
        # Print Assumptions output follows each theorem in order
        toks = list(re.finditer(r"Closed under the global context|Axioms:", out))
        blocks = []
        for i, m in enumerate(toks):
            end = toks[i + 1].start() if i + 1 < len(toks) else len(out)
            blocks.append(out[m.start():end] if m.group(0) == "Axioms:" else m.group(0))
        for th, b in zip(theorems, blocks):
            closed[th] = b.strip()
        discharged = 0
        for th in theorems:
            b = closed.get(th)
            if b is None:
                continue
            if b.startswith("Closed"):
                discharged += 1
            else:
                names = re.findall(r"^(\S+)\s*:", b, flags=re.M)
                if names and all(n in ALLOWED_AXIOMS for n in names):
                    discharged += 1
        self.cov["obligations"] += len(theorems)
        self.cov["discharged"] += discharged
        self.cov["theorems"] += theorems
        self.cov["assumptions_printed"].update(closed)
        self.cov["checker_cmd"] = "make -C coq %s  (coqc 8.16.1, full .vo build; Print Assumptions after every theorem)" % " ".join(pf + "o" for pf in props_files)
        bad = self.hygiene([pid, "Common"] + list(extra_dirs))
        if bad:
            self.broken("hygiene", "forbidden constructs in the development: %s" % bad[:5])
        if rc != 0 or discharged != len(theorems):
            m = re.search(r'File "\./([^"]+)", line (\d+).*?\n(Error:.*?)(?:\n\n|\Z)', out, flags=re.S)
            where = "%s:%s %s" % (m.group(1), m.group(2), m.group(3)[:300]) if m else out[-600:]
            missing = [t for t in theorems if t not in closed or not closed[t].startswith("Closed")]
            self.broken("proof-obligation", "theorems not accepted by the kernel: %s ; first error: %s" % (missing, where))
        if self.tier == "thorough" and rc == 0 and os.environ.get("VERIF_NO_COQCHK") != "1":
            self.coqchk(["CJ.%s.Props" % pid] if props_files == ["%s/Props.v" % pid] else
                        ["CJ." + pf[:-2].replace("/", ".") for pf in props_files])
        return rc == 0 and discharged == len(theorems)

    def coqchk(self, mods):
        """independent re-check of the compiled files; runs on a private copy of the .vo files so that it
        neither holds the tree lock for minutes nor races with another check's rebuild"""
        import shutil
        cp = os.path.join(BUILD, "coqchk_%s_%d" % (self.pid, os.getpid()))
        lk = self._lock()
        try:
            if os.path.exists(cp):
                shutil.rmtree(cp)
            for sd in ["Common", self.pid] + [d for d in self.extra_dirs if d != self.pid]:
                for root, _, files in os.walk(os.path.join(COQ, sd)):
                    for fn in files:
                        if fn.endswith(".vo"):
                            dst = os.path.join(cp, os.path.relpath(root, COQ))
                            os.makedirs(dst, exist_ok=True)
                            shutil.copy(os.path.join(root, fn), dst)
        finally:
            lk.close()
        rc, out = sh(["coqchk", "-silent", "-o", "-R", cp, "CJ"] + mods, cwd=cp, timeout=3000)
        shutil.rmtree(cp, ignore_errors=True)
        ax = re.findall(r"^\s+(\S+)$", out.split("Axioms:")[-1], flags=re.M) if "Axioms:" in out else []
        mine = [a for a in ax if a.startswith("CJ.")]
        self.cov["coqchk"] = {"rc": rc, "axioms_listed": ax[:40], "tail": out[-400:]}
        if rc != 0 or mine:
            self.broken("coqchk", "coqchk rc=%d axioms=%s" % (rc, mine))

    def coq_eval(self, name, text, timeout=1500):
        path = os.path.join(GEN, name + ".v")
        with open(path, "w") as f:
            f.write(text)
        rc, out = sh("ulimit -s unlimited 2>/dev/null; exec coqc -R '%s' CJ -w -all '%s'" % (COQ, path), cwd=GEN, timeout=timeout)
        return rc, out

    def coq_mismatches(self, tag, header, case_terms, chk, shard=400, need_vo=None):
        """case_terms: list of Gallina terms (strings) of the case type; chk: Gallina fun case -> bool.
        Returns the sorted list of indices whose check is false, or None if Coq failed."""
        if need_vo:
            rc, out = self.coq_make(need_vo)
            if rc != 0:
                self.broken("model-build", "model does not compile: " + out[-500:])
                return None
        shards = [(i, case_terms[i:i + shard]) for i in range(0, len(case_terms), shard)]

        def one(sh_):
            base, terms = sh_
            txt = header + "\nDefinition cases := [\n" + ";\n".join(terms) + "\n].\n"
            txt += "Definition M := Eval vm_compute in mismatches (%s) cases.\nPrint M.\n" % chk
            name = "cases_%s_%s_%d_p%d" % (self.pid, tag, base, os.getpid())
            rc, out = self.coq_eval(name, txt)
            if rc == 0 and os.environ.get("VERIF_KEEP") != "1":
                for ext in (".v", ".vo", ".vok", ".vos", ".glob"):
                    try:
                        os.remove(os.path.join(GEN, name + ext))
                    except OSError:
                        pass
                try:
                    os.remove(os.path.join(GEN, "." + name + ".aux"))
                except OSError:
                    pass
            if rc != 0:
                return base, None, out
            flat = " ".join(out.split())
            m = re.search(r"M = (\[.*?\]|nil)\s*:", flat)
            if not m:
                return base, None, out
            body = m.group(1)
            idx = [int(x) for x in re.findall(r"\d+", body)] if body != "nil" else []
            return base, idx, out

        res = []
        with ThreadPoolExecutor(max_workers=min(16, max(1, len(shards)))) as ex:
            for base, idx, out in ex.map(one, shards):
                if idx is None:
                    self.broken("model-eval", "coqc failed on generated cases (%s shard %d): %s" % (tag, base, out[-600:]))
                    return None
                res += [base + i for i in idx]
        return sorted(res)

    def coq_show(self, tag, header, expr):
        rc, out = self.coq_eval("show_%s_%s_p%d" % (self.pid, tag, os.getpid()), header + "\nEval vm_compute in (%s).\n" % expr)
        return " ".join(out.split())[:2000]

    # ------------------------------------------------------------ Go
    def go_inpkg(self, moddir, pkg, files, run, cases=None, race=False, timeout=1200, env=None, tags="verif", extra_overlay=None):
        """Run `go test -overlay` in REPO/<moddir> on package <pkg> with files {name_in_pkg_dir: path under harness/inpkg}.
        cases (JSON-able) -> VERIF_CASES file; returns (rc, stdout, results|None)."""
        tagid = "%s_%s_%d" % (self.pid, re.sub(r"\W", "_", run), os.getpid())
        pkgdir = os.path.normpath(os.path.join(REPO, moddir, pkg))
        repl = {}
        for name, src in files.items():
            repl[os.path.join(pkgdir, name)] = os.path.join(INPKG, src)
        for dst, src in (extra_overlay or {}).items():
            repl[os.path.join(REPO, dst)] = os.path.join(INPKG, src)
        ov = os.path.join(BUILD, "ov_%s.json" % tagid)
        with open(ov, "w") as f:
            json.dump({"Replace": repl}, f)
        cpath = os.path.join(BUILD, "cases_%s.json" % tagid)
        opath = os.path.join(BUILD, "out_%s.json" % tagid)
        if os.path.exists(opath):
            os.remove(opath)
        with open(cpath, "w") as f:
            json.dump(cases, f)
        e = dict(GOENV)
        e.pop("GOFLAGS")
        e.update({"VERIF_CASES": cpath, "VERIF_OUT": opath, "VERIF_TIER": self.tier, "VERIF_SEED": str(self.seed)})
        if env:
            e.update(env)
        cmd = ["go", "test", "-count=1", "-vet=off", "-overlay", ov, "-run", run, "-timeout", "%ds" % timeout]
        if tags:
            cmd += ["-tags", tags]
        if race:
            cmd += ["-race"]
        cmd += [pkg if pkg.startswith("./") else "./" + pkg]
        rc, out = sh(cmd, cwd=os.path.join(REPO, moddir), env=e, timeout=timeout + 120)
        res = None
        if os.path.exists(opath):
            try:
                with open(opath) as f:
                    res = json.load(f)
            except Exception as ex:  # truncated output = crashed driver
                out += "\n[unreadable driver output: %s]" % ex
        for p in (ov, cpath, opath):
            if os.path.exists(p) and os.environ.get("VERIF_KEEP") != "1":
                os.remove(p)
        return rc, out, res

    # ------------------------------------------------------------ verdicts
    def fail(self, key, what, case):
        """the implementation itself breaks the property on `case` (direct oracle / replayed witness)"""
        self.cov["oracle_failures"] += 1
        for k in self.known:
            if k["key"] == key:
                if key not in self.known_printed:
                    self.known_printed.append(key)
                    print("KNOWN-FINDING: property=%s %s" % (self.pid, k["what"]))
                return
        for f in self.failures:
            if f["key"] == key:
                f["more"] = f.get("more", 0) + 1
                return
        if len(self.failures) < 20:
            self.failures.append({"key": key, "what": what, "case": case})

    def broken(self, kind, what, case=None):
        """a proof obligation or the model/code correspondence no longer checks"""
        if len(self.brokens) < 20:
            self.brokens.append({"kind": kind, "what": what, "case": case})

    def finish(self):
        wall = time.time() - self.t0
        viol = 0
        lines = []
        if self.failures:
            viol = len(self.failures)
            path = os.path.join(VERIF, "replays", "%s_%d.json" % (self.pid, int(self.t0)))
            with open(path, "w") as f:
                json.dump({"property": self.pid, "kind": "failing-input", "failures": self.failures,
                           "broken": self.brokens}, f, indent=1)
            lines.append("VIOLATION property=%s replay=%s" % (self.pid, path))
        elif self.brokens:
            viol = len(self.brokens)
            path = os.path.join(VERIF, "replays", "%s_%d.json" % (self.pid, int(self.t0)))
            with open(path, "w") as f:
                json.dump({"property": self.pid, "kind": "unchecked-theorem-or-correspondence",
                           "theorem_or_correspondence": self.brokens}, f, indent=1)
            lines.append("VIOLATION property=%s replay=%s no-failing-input-found" % (self.pid, path))
        cov = self.cov
        cov["known_findings_seen"] = self.known_printed
        cov["problems"] = [b["kind"] + ": " + b["what"][:300] for b in self.brokens] + \
                          ["FAIL " + f["key"] + ": " + f["what"][:300] for f in self.failures]
        ev = {"property_id": self.pid, "tier": self.tier, "seed": self.seed, "level": self.level,
              "coverage": cov, "assumptions": self.assumptions, "wall_s": round(wall, 1), "violations": viol}
        evdir = os.environ.get("VERIF_EVIDENCE_DIR") or os.path.join(VERIF, "evidence")
        os.makedirs(evdir, exist_ok=True)
        with open(os.path.join(evdir, "%s.json" % self.pid), "w") as f:
            json.dump(ev, f, indent=1, default=str)
        for l in lines:
            print(l)
        sys.stdout.flush()
        print("[%s %s] evaluations=%d distinct=%d obligations=%d/%d mismatches=%d oracle_failures=%d wall=%.0fs" % (
            self.pid, self.tier, cov["evaluations"], cov["distinct_nontrivial"], cov["discharged"],
            cov["obligations"], cov["mismatches"], cov["oracle_failures"], wall), file=sys.stderr)
        return 1 if viol else 0
