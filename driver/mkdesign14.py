#!/usr/bin/env python3
"""(Re)generate the generated parts of DESIGN.md section 14 from notes/_fourth_wave_*.md and the seed result files."""
import os, re, subprocess
V = os.path.dirname(os.path.dirname(os.path.abspath(__file__)))
p = os.path.join(V, "DESIGN.md")
s = open(p).read()


def put(tag, body):
    global s
    a, b = "<!-- %s -->" % tag, "<!-- /%s -->" % tag
    block = a + "\n" + body.rstrip() + "\n" + b
    if a in s:
        s = re.sub(re.escape(a) + r".*?" + re.escape(b), lambda m: block, s, flags=re.S)
    else:
        assert tag in s, tag
        s = s.replace(tag, block, 1)


def rd(n):
    return open(os.path.join(V, "notes", n)).read()


def table(letters):
    return subprocess.run(["python3", os.path.join(V, "driver", "seedtable.py"), letters], capture_output=True, text=True).stdout


put("FOURTH_WAVE_ENTRIES", rd("_fourth_wave_entries.md"))
put("FOURTH_WAVE_TABLES", "**Round 3 (`e`/`f`)** — \"fi\" = caught with a concrete failing input, \"corr\" = proof obligation / correspondence only, "
    "bold = another property's check (cross-catch).\n\n" + table("ef") + "\n**Round 4 (`g`/`h`)**\n\n" + table("gh") + "\n" + rd("_fourth_wave_tables_tail.md") + "\n**Round 5 (`i`/`j`) — a last measurement round on eight properties**\n\n" + table("ij") + "\n" + rd("_fourth_wave_round5.md"))
put("FOURTH_WAVE_ALARMS", rd("_fourth_wave_alarms.md") + "\n" + rd("_fourth_wave_tb.md") + "\n" + rd("_fourth_wave_numbers.md"))
open(p, "w").write(s)
print("DESIGN.md section 14 regenerated")
