#!/bin/sh
# Run every registered check (tier $1, default quick), $2 jobs in parallel (default 4); summary on stdout.
cd "$(dirname "$0")/.."
tier=${1:-quick}; jobs=${2:-4}
mkdir -p build/runall
python3 - "$tier" <<'PY' | xargs -P "$jobs" -I{} sh -c '{}'
import json,sys
m=json.load(open("MANIFEST.json"))
for c in m["checks"]:
    pid=c["property_id"]; cmd=c["quick_cmd"] if sys.argv[1]=="quick" else c.get("thorough_cmd",c["quick_cmd"])
    print("( %s ) > build/runall/%s.out 2>&1; echo %s rc=$?" % (cmd,pid,pid))
PY
grep -h "VIOLATION\|KNOWN-FINDING" build/runall/*.out
