#!/usr/bin/env python3
"""run a command while holding every per-directory Coq lock exclusively (sorted order, same protocol as lib.py)"""
import fcntl, os, subprocess, sys
V = os.path.dirname(os.path.dirname(os.path.abspath(__file__)))
names = sorted(["Common"] + [d for d in os.listdir(os.path.join(V, "coq")) if len(d) == 3 and d[0] == "C" and d[1:].isdigit()])
fs = []
for n in names:
    f = open(os.path.join(V, ".coq.lock." + n), "a")
    fcntl.flock(f, fcntl.LOCK_EX)
    fs.append(f)
sys.exit(subprocess.call(sys.argv[1:]))
