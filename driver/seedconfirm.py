#!/usr/bin/env python3
"""Confirm a seeded change independently and file it under /verif/seeded/<name>/.
   usage: seedconfirm.py <dir with patch.diff, meta.json, demo/> <name>
   In a fresh scratch worktree of /repo HEAD: (1) demo without the change must pass, (2) with the change the project
   builds and the touched packages' existing tests pass (TestConjureLibConfigResolveBlocklisted is the baseline's
   always-failing test), (3) the demo fails.  Writes seeded/<name>/{patch.diff,demo/,meta.json(+confirmed)}."""
import json, os, re, shutil, subprocess, sys, time
src, name = os.path.abspath(sys.argv[1]), sys.argv[2]
V = "/verif"
wt = "/tmp/seedconf_" + name
ENV = dict(os.environ, GOPROXY="off", GOSUMDB="off", GOTOOLCHAIN="local")
def sh(cmd, cwd=wt, timeout=1800):
    p = subprocess.run(["bash", "-c", cmd], cwd=cwd, env=ENV, capture_output=True, text=True, timeout=timeout, errors="replace")
    return p.returncode, p.stdout + p.stderr
meta = json.load(open(os.path.join(src, "meta.json")))
subprocess.run(["git", "-C", "/repo", "worktree", "remove", "--force", wt], capture_output=True)
subprocess.run(["git", "-C", "/repo", "worktree", "add", "-q", "--detach", wt, "HEAD"], check=True)
out = {"repo_head": subprocess.run(["git", "-C", "/repo", "rev-parse", "--short", "HEAD"], capture_output=True, text=True).stdout.strip()}
try:
    # place demo files: into the package directory the demo command tests
    def clean(c):
        c = re.split(r"\s{2,}[(#]", c)[0]
        c = re.sub(r"cd /tmp/seed_\w+\s*&&\s*", "", c)
        c = re.sub(r"cp SEED/\S+ \S+\s*&&\s*", "", c)
        return c.strip()
    demo_cmd, suite_cmd = clean(meta["commands"]["demo"]), clean(meta["commands"]["suite"])
    m = re.search(r"(?:cd\s+(\S+)\s*&&.*?)?go test\b.*?\s(\./\S*|\.)\s*\)?\s*$", demo_cmd)
    pkgdir = os.path.normpath(os.path.join(m.group(1) or ".", m.group(2))) if m else meta.get("demo_location", ".")
    mC = re.search(r"go test\s+-C\s+(\S+)", demo_cmd)
    if mC:
        pkgdir = os.path.normpath(os.path.join(mC.group(1), m.group(2) if m else "."))
    placed = []
    for fn in os.listdir(os.path.join(src, "demo")):
        if fn.endswith(".go"):
            os.makedirs(os.path.join(wt, pkgdir), exist_ok=True)
            shutil.copy(os.path.join(src, "demo", fn), os.path.join(wt, pkgdir, fn))
            placed.append(os.path.join(pkgdir, fn))
    out["demo_placed"] = placed
    rc0, o0 = sh(demo_cmd)
    out["demo_without_change"] = "pass" if rc0 == 0 else "fail"
    out["demo_without_tail"] = o0[-600:]
    ap = subprocess.run(["git", "-C", wt, "apply", "--whitespace=nowarn", os.path.join(src, "patch.diff")], capture_output=True, text=True)
    out["applied"] = ap.returncode == 0
    out["apply_err"] = ap.stderr[-300:]
    for pth in placed:      # the suite is the EXISTING tests: run it without the demo file
        os.remove(os.path.join(wt, pth))
    rcs, os_ = sh(suite_cmd)
    for fn in os.listdir(os.path.join(src, "demo")):
        if fn.endswith(".go"):
            shutil.copy(os.path.join(src, "demo", fn), os.path.join(wt, pkgdir, fn))
    # the existing tests bind fixed local ports: another go test running on this box at the same moment makes them
    # fail (EADDRINUSE) or hang until the 10-minute test timeout - that says nothing about the change; retry once, alone
    if re.search(r"address already in use|Expected nil, but got: 0x62|test timed out", os_):
        out["suite_retried"] = True
        time.sleep(20)
        rcs, os_ = sh(suite_cmd)
    fails = set(re.findall(r"--- FAIL: (\S+)", os_)) - {"TestConjureLibConfigResolveBlocklisted"}
    fails = {f for f in fails if "SeedDemo" not in f and "Seed" not in f}
    build_fail = "[build failed]" in os_ or "cannot" in os_ and "undefined" in os_
    out["suite_with_change"] = "pass" if not fails and not build_fail and "panic:" not in os_ else "fail"
    out["suite_failed_tests"] = sorted(fails)
    out["suite_tail"] = os_[-2500:]
    rc1, o1 = sh(demo_cmd)
    out["demo_with_change"] = "fail" if rc1 != 0 else "pass"
    out["demo_with_tail"] = o1[-900:]
finally:
    subprocess.run(["git", "-C", "/repo", "worktree", "remove", "--force", wt], capture_output=True)
    subprocess.run(["git", "-C", "/repo", "worktree", "prune"], capture_output=True)
ok = out.get("applied") and out["demo_without_change"] == "pass" and out["suite_with_change"] == "pass" and out["demo_with_change"] == "fail"
out["confirmed"] = bool(ok)
print(json.dumps(out, indent=1))
if ok:
    d = os.path.join(V, "seeded", name)
    if os.path.exists(d):
        shutil.rmtree(d)
    os.makedirs(d)
    shutil.copy(os.path.join(src, "patch.diff"), d)
    shutil.copytree(os.path.join(src, "demo"), os.path.join(d, "demo"))
    meta["confirmation"] = {k: out[k] for k in ("repo_head", "demo_placed", "demo_without_change", "suite_with_change", "demo_with_change", "confirmed")}
    meta["confirmation"]["ran"] = {"suite": suite_cmd, "demo": demo_cmd}
    json.dump(meta, open(os.path.join(d, "meta.json"), "w"), indent=1)
sys.exit(0 if ok else 1)
