#!/bin/sh
# setup_cmd: pre-build every Coq directory and warm the Go build cache. Purely a warm-up: each check
# rebuilds what it needs (and reports a proof that no longer compiles), so failures here are not fatal.
V="$(cd "$(dirname "$0")/.." && pwd)"
python3 "$V/driver/lockall.py" sh -c 'cd "$0/coq" && sh mk_coqproject.sh && timeout 3000 make -k -j16 >"$0/build/setup_coq.log" 2>&1' "$V" || echo "setup: some Coq files did not build (see build/setup_coq.log); the checks will report them"
sh "$V/driver/warm.sh"
exit 0
