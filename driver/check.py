#!/usr/bin/env python3
"""Entry point of every quick_cmd / thorough_cmd:  check.py Cxx --tier quick|thorough [--replay f]"""
import argparse
import importlib
import json
import os
import sys
import traceback

sys.path.insert(0, os.path.dirname(os.path.abspath(__file__)))
import lib  # noqa: E402


def main():
    ap = argparse.ArgumentParser()
    ap.add_argument("pid")
    ap.add_argument("--tier", default=os.environ.get("VERIF_TIER", "quick"), choices=["quick", "thorough"])
    ap.add_argument("--replay")
    a = ap.parse_args()
    seed = int(os.environ.get("VERIF_SEED", "0") or 0)
    replay = None
    if a.replay:
        with open(a.replay) as f:
            replay = json.load(f)
    ctx = lib.Ctx(a.pid, a.tier, seed, replay)
    mod = importlib.import_module("props." + a.pid.lower())
    try:
        mod.run(ctx)
    except Exception:
        ctx.broken("check-crashed", traceback.format_exc()[-1500:])
    sys.exit(ctx.finish())


if __name__ == "__main__":
    main()
