#!/usr/bin/env python3
"""Run every check whose property anchors a file touched by a behaviour-preserving refactoring, against a scratch
   worktree with the refactoring applied.  usage: harmrun.py harmless/<name> [--props C05,C17]
   Expectation: every check exits 0 (no alarm on code where the property holds)."""
import json, os, re, subprocess, sys, time
V = os.path.dirname(os.path.dirname(os.path.abspath(__file__)))
d = os.path.abspath(sys.argv[1]); name = os.path.basename(d)
props = None
for i, a in enumerate(sys.argv):
    if a == "--props": props = sys.argv[i + 1].split(",")
patch = open(os.path.join(d, "patch.diff")).read()
files = set(re.findall(r"^\+\+\+ b/(\S+)", patch, flags=re.M))
if props is None:
    props = []
    for l in open(os.path.join(V, "properties.jsonl")):
        p = json.loads(l)
        if files & set(p["anchors"]["files"]):
            props.append(p["id"])
wt = "/tmp/harmwt_%s_%d" % (name, os.getpid())
subprocess.run(["git", "-C", "/repo", "worktree", "remove", "--force", wt], capture_output=True)
subprocess.run(["git", "-C", "/repo", "worktree", "add", "-q", "--detach", wt, "HEAD"], check=True)
res = {"files": sorted(files), "props": props, "checks": {}, "repo_head": subprocess.run(["git", "-C", "/repo", "rev-parse", "--short", "HEAD"], capture_output=True, text=True).stdout.strip()}
try:
    ap = subprocess.run(["git", "-C", wt, "apply", "-3", "--whitespace=nowarn", os.path.join(d, "patch.diff")], capture_output=True, text=True)
    res["applied"] = ap.returncode == 0
    if ap.returncode == 0:
        for pid in props:
            t0 = time.time()
            env = dict(os.environ, VERIF_REPO=wt, VERIF_EVIDENCE_DIR=os.path.join(V, "build", "seed_evidence"))
            p = subprocess.run(["python3", os.path.join(V, "driver", "check.py"), pid, "--tier", "quick"], cwd=V, env=env, capture_output=True, text=True)
            lines = [l for l in p.stdout.splitlines() if l.startswith(("VIOLATION", "KNOWN-FINDING"))]
            first = None
            for l in lines:
                if l.startswith("VIOLATION") and "replay=" in l:
                    try:
                        r = json.load(open(l.split("replay=")[1].split()[0]))
                        first = (r.get("failures") or r.get("theorem_or_correspondence") or [{}])[0]
                        first = {k: str(v)[:500] for k, v in first.items()}
                    except Exception:
                        pass
            res["checks"][pid] = {"rc": p.returncode, "quiet": p.returncode == 0, "lines": lines, "first": first, "wall_s": round(time.time() - t0, 1)}
finally:
    subprocess.run(["git", "-C", "/repo", "worktree", "remove", "--force", wt], capture_output=True)
    subprocess.run(["git", "-C", "/repo", "worktree", "prune"], capture_output=True)
rp = os.path.join(d, "result.json")
if os.path.exists(rp):
    try:
        old = json.load(open(rp))
        for k, v in old.get("checks", {}).items():
            res["checks"].setdefault(k, v)
        res["props"] = sorted(set(res["props"]) | set(old.get("props", [])))
    except Exception:
        pass
json.dump(res, open(rp, "w"), indent=1)
print(name, {k: ("quiet" if v["quiet"] else "ALARM " + str((v["first"] or {}).get("kind") or (v["first"] or {}).get("key")) + ": " + str((v["first"] or {}).get("what"))[:160]) for k, v in res["checks"].items()})
