"""C14 — phantom selection is pure and stays inside the configured subnets."""
import ipaddress
import os

from concurrent.futures import ThreadPoolExecutor

from lib import gN, gbool, hexs, glist, gopt
from props import c14_ref as ref
from props import c14_life as life

HEADER = "From CJ Require Import Common.Base C14.Model C14.Run.\n"

BAD_CIDRS = ["", "1.2.3.4", "1.2.3.4/33", "300.1.1.1/8", "1::/129", "::1/-1", "zz/8", "1.2.3.4/ 8",
             "fe80::1%eth0/64", "01.2.3.4/8", "1.2.3/24"]


# ---------------------------------------------------------------- configurations
def net(fam, addr, ones, rng=None):
    """a network spec: the CIDR string handed to Go and (fam, addr, ones) for the model"""
    if fam == 4:
        s = "%s/%d" % (ipaddress.IPv4Address(addr), ones)
    else:
        a = ipaddress.IPv6Address(addr)
        if rng is not None and rng.random() < 0.5 and (addr >> 32) != 0xFFFF:
            s = "%s/%d" % (a.compressed, ones)
        else:
            s = "%s/%d" % (":".join("%x" % ((addr >> (112 - 16 * i)) & 0xFFFF) for i in range(8)), ones)
    return {"s": s, "p": (fam, addr, ones)}


def bad_net(rng):
    return {"s": rng.choice(BAD_CIDRS), "p": None}


def rand_net(rng, fam=None, small=False):
    fam = fam or rng.choice([4, 4, 6])
    bits = 32 if fam == 4 else 128
    r = rng.random()
    if small:
        ones = bits - rng.choice([0, 0, 1, 2, 3, 4])
    elif r < 0.15:
        ones = bits                                   # one address
    elif r < 0.25:
        ones = rng.choice([0, 1, 7, 8])               # huge
    elif r < 0.6:
        ones = bits - rng.randrange(0, 12)
    else:
        ones = rng.randrange(0, bits + 1)
    addr = rng.getrandbits(bits)
    r = rng.random()
    if r < 0.2:                                       # leading-zero networks (0.x.y.z, 64:ff9b::, ::/n)
        addr &= (1 << (bits - rng.choice([8, 8, 16, 24, 72]) % bits)) - 1
    elif r < 0.27:
        addr |= ((1 << 9) - 1) << (bits - 9)          # ff... at the top
    elif fam == 6 and r < 0.37:                       # v4-mapped
        addr = (0xFFFF << 32) | rng.getrandbits(32)
        ones = rng.choice([96, 104, 120, 124, 128, 128, 88, 93, 95, rng.randrange(80, 129)])
    return net(fam, addr, ones, rng)


def rand_group(rng, small=False, clean=False):
    n = rng.choice([1, 1, 2, 2, 3, 4])
    nets = [rand_net(rng, small=small) for _ in range(n)]
    if not clean:
        r = rng.random()
        if r < 0.05:
            nets = None                               # nil Subnets
        elif r < 0.09:
            nets = []                                 # empty, non-nil
        elif r < 0.15:
            nets.insert(rng.randrange(len(nets) + 1), bad_net(rng))
        elif r < 0.25:
            nets.append(dict(rng.choice(nets)))       # duplicate
        elif r < 0.35:                                # overlapping: a subnet of an existing one
            fam, addr, ones = rng.choice(nets)["p"]
            bits = 32 if fam == 4 else 128
            nets.append(net(fam, addr, min(bits, ones + rng.randrange(0, 4)), rng))
    w = rng.choice([0, 1, 1, 2, 3, 9, 10, 10, 100, 4294967295, rng.randrange(1, 1 << 32), None])
    if clean and not w:
        w = 1
    return {"w": w, "nets": nets, "rp": rng.choice([True, False, False, None])}


def rand_cfg(rng, small=False, clean=False):
    k = rng.choice([1, 1, 2, 2, 3, 3, 4, 5, 5, rng.randrange(1, 13)])
    groups = [rand_group(rng, small, clean) for _ in range(k)]
    r = rng.random()
    if not clean:
        if r < 0.08:
            for g in groups:
                g["w"] = rng.choice([0, None])        # zero total weight
        elif r < 0.25:
            w = rng.choice([1, 5, 10])
            for g in groups:
                g["w"] = w                            # ties
    return {"groups": groups}


def rand_seed(rng, lv):
    r = rng.random()
    if r < 0.70:
        return bytes(rng.getrandbits(8) for _ in range(16))
    if r < 0.74:
        return b""
    if r < 0.78:
        return bytes(16)
    if r < 0.82:
        return b"\xff" * 16
    if r < 0.86:                                       # no varint terminator within the buffer
        return bytes(0x80 | rng.getrandbits(7) for _ in range(rng.choice([1, 5, 9])))
    if r < 0.90:                                       # varint overflow (11th byte / 10th byte > 1)
        return bytes(0x80 | rng.getrandbits(7) for _ in range(9)) + bytes([rng.choice([2, 0x7F, 0x80, 0xFF])]) + \
            bytes(rng.getrandbits(8) for _ in range(6))
    if r < 0.95:                                       # small ids (V0: id = 0 / 1 / boundary)
        return bytes(15) + bytes([rng.choice([0, 1, 2, 3, 255])])
    return bytes(rng.getrandbits(8) for _ in range(rng.choice([1, 2, 8, 17, 32, 33])))


def cfg_json(cfg):
    if cfg is None:
        return None
    return {"groups": [{"w": g["w"], "nets": [n["s"] for n in (g["nets"] or [])], "nets_nil": g["nets"] is None,
                        "rp": g["rp"]} for g in cfg["groups"]]}


# ---------------------------------------------------------------- Gallina
FAMS = {4: "V4", 6: "V6"}


def g_net(n):
    if n["p"] is None:
        return "None"
    fam, addr, ones = n["p"]
    return "(Some (%s, %s, %s))" % (FAMS[fam], gN(addr), gN(ones))


def g_cfg(cfg):
    if cfg is None:
        return "None"
    gs = []
    for g in cfg["groups"]:
        nets = "None" if g["nets"] is None else "(Some %s)" % glist(g["nets"], g_net)
        gs.append("(mk_group %s %s %s)" % (gN(g["w"] or 0), nets, gbool(bool(g["rp"]))))
    return "(Some %s)" % glist(gs)


OUT = {"ok": 0, "err": 1, "panic": 2}


def g_case(c, r):
    op = 0 if c["op"] == "select" else 1
    fam = (6 if c["v6"] else 4) if op == 0 else {"none": 0, "v4": 4, "v6": 6}[c["filter"]]
    return ("{| v_op := %s; v_seed := %s; v_cfg := %s; v_lv := %s; v_fam := %s; v_weighted := %s; "
            "v_obs := (%s, %s, %s) |}" % (gN(op), hexs(c["seed"]), g_cfg(c["cfg"]), gN(c.get("lv", 4)), gN(fam),
                                          gbool(c.get("weighted", True)), gN(OUT[r["out"]]),
                                          hexs(bytes.fromhex(r["ip"] or "")), gbool(r["rp"])))


# ---------------------------------------------------------------- case generation
def gen_cases(ctx):
    rng = ctx.rng
    quick = ctx.tier == "quick"
    cases = []

    def sel(seed, cfg, lv, v6, tag="rand"):
        cases.append({"op": "select", "seed": seed, "cfg": cfg, "lv": lv, "v6": v6, "tag": tag})

    # replayed / corpus cases first
    import glob
    import json
    from lib import VERIF
    corpus = []
    for f in sorted(glob.glob(os.path.join(VERIF, "corpus", "C14", "*.json"))):
        corpus += replay_cases(json.load(open(f)))
    for d in corpus + replay_cases(ctx.replay):
        if d.get("op") in ("select", "selphantom"):
            cases.append(from_json(d))

    # 1. random configurations x seeds x all library versions x both families
    n_rand = 260 if quick else 4000
    for i in range(n_rand):
        cfg = rand_cfg(rng, clean=rng.random() < 0.45)
        lv = rng.choice([0, 1, 2, 3, 4, 2, 4, 5, 17])
        v6 = rng.random() < 0.4
        sel(rand_seed(rng, lv), cfg, lv, v6)
    # unknown generation
    for lv in list(range(5)) * 2:
        sel(bytes(rng.getrandbits(8) for _ in range(16)), None, lv, rng.random() < 0.5, "unknown-gen")
    # 2. the candidates of DESIGN section 7 (#11), as fixed regression inputs
    lz4 = {"groups": [{"w": 1, "nets": [net(4, 0x00010200, 24)], "rp": True}]}
    lz6 = {"groups": [{"w": 1, "nets": [net(6, 0x0064FF9B << 96, 96)], "rp": False}]}
    zero = {"groups": [{"w": 0, "nets": [net(4, 0x0A000000, 8)], "rp": False}]}
    allz = {"groups": [{"w": 1, "nets": [net(4, 0, 0), net(6, 0, 0)], "rp": False}]}
    empty = {"groups": []}
    for lv in range(5):
        s = bytes(rng.getrandbits(8) for _ in range(16))
        sel(s, lz4, lv, False, "leading-zero")
        sel(s, lz6, lv, True, "leading-zero")
        sel(s, zero, lv, False, "zero-weight")
        sel(s, empty, lv, False, "zero-weight")
        sel(s, allz, lv, False, "leading-zero")
        sel(s, allz, lv, True, "leading-zero")
    # 3. the client entry point SelectPhantom (weighted / unweighted, each transform)
    for i in range(60 if quick else 800):
        cfg = rand_cfg(rng, clean=rng.random() < 0.6)
        cases.append({"op": "selphantom", "seed": rand_seed(rng, 4), "cfg": cfg if rng.random() < 0.97 else None,
                      "filter": rng.choice(["none", "v4", "v6", "v4", "v6"]), "weighted": rng.random() < 0.6,
                      "tag": "rand"})
    for cfg in (zero, empty, lz4):
        for w in (True, False):
            cases.append({"op": "selphantom", "seed": b"\x01" * 16, "cfg": cfg, "filter": "none", "weighted": w,
                          "tag": "zero-weight" if cfg is not lz4 else "leading-zero"})
    # 4. every offset of small subnets, through crafted seeds (search by the Python mirror)
    want_bits = [0, 1, 2, 4] if quick else [0, 1, 2, 3, 4, 6, 8, 10]
    exh = []
    for hb in want_bits:
        for fam in (4, 6):
            bits = 32 if fam == 4 else 128
            base = rng.getrandbits(bits)
            other = net(fam, rng.getrandbits(bits), bits - rng.choice([0, 1, 2]))
            target = net(fam, base, bits - hb)
            cfg = {"groups": [{"w": 1, "nets": [other, target], "rp": True}]}
            lvs = [2, 4] if hb > 6 else ([1, 2] if quick else [0, 1, 2, 3])
            if hb == 0:      # the version-0 algorithm can never select a one-address network (its id range is empty)
                lvs = [lv for lv in lvs if lv != 0]
            for lv in lvs:
                need = set(range(1 << hb))
                tries = 0
                while need and tries < 400 * (1 << hb) + 2000:
                    tries += 1
                    s = bytes(rng.getrandbits(8) for _ in range(16))
                    r = ref.select(s, cfg, lv, fam == 6)
                    if r[0] == "ok" and r[4] == 1 and r[5] in need:
                        need.discard(r[5])
                        sel(s, cfg, lv, fam == 6, "exh")
                exh.append({"cfg": cfg, "lv": lv, "fam": fam, "hb": hb, "unreached_by_search": sorted(need)[:8],
                            "found": set(range(1 << hb)) - need, "target": target})
    # 5. serial vs concurrent: many selections at once on one selector
    conc = []
    for workers in ([2, 8, 32] if quick else [2, 3, 4, 8, 16, 32, 32]):
        cfg = rand_cfg(rng, small=False, clean=True)
        for g in cfg["groups"]:           # both families everywhere, so that most selections succeed
            g["nets"] = g["nets"] + [rand_net(rng, 4), rand_net(rng, 6)]
        items = []
        for k in range(24):
            lv = [0, 1, 2, 1, 0, 4][k % 6]
            items.append({"seed": bytes(rng.getrandbits(8) for _ in range(16)), "lv": lv, "v6": bool(k & 1)})
        conc.append({"op": "conc", "cfg": cfg, "items": items, "workers": workers,
                     "rounds": 120 if quick else 600, "tag": "conc"})
    # 6. histories on ONE shared selector: mixed selections (libver 0-4, both families, both entry points) against one
    #    configuration whose groups are NOT in ascending weight order and include a weighted group without subnets;
    #    each op is also run on a fresh selector and on the shared one again; the configuration is dumped after every op
    for d in corpus + replay_cases(ctx.replay):             # replayed histories
        if d.get("op") == "hist":
            cfg = from_json({"op": "select", "cfg": d.get("cfg"), "lv": 0, "v6": False})["cfg"]
            items = [{"op": it.get("op") or "select", "seed": bytes.fromhex(it["seed"]), "lv": it.get("lv", 4),
                      "v6": it.get("v6", False), "filter": it.get("filter") or "none", "weighted": it.get("weighted", True)}
                     for it in d["items"]]
            conc.append({"op": "hist", "cfg": cfg, "items": items, "tag": "hist"})
    for k in range(6 if quick else 60):
        cfg = rand_cfg(rng, clean=True)
        while len(cfg["groups"]) < 3:
            cfg["groups"].append(rand_group(rng, clean=True))
        ws = sorted({rng.randrange(1, 50) for _ in range(len(cfg["groups"]) + 3)}, reverse=True)
        for g, w in zip(cfg["groups"], ws):                  # strictly descending weights
            g["w"] = w
            g["nets"] = g["nets"] + [rand_net(rng, 4), rand_net(rng, 6)]
        hole = {"w": rng.randrange(1, 50), "nets": None, "rp": rng.choice([True, False])}
        cfg["groups"].insert(rng.randrange(0, len(cfg["groups"])), hole)     # weighted, no subnets, not last
        if k % 3 == 2:
            cfg["groups"].insert(1, {"w": 7, "nets": [], "rp": False})       # empty, non-nil: an error when chosen
        items = []
        for j in range(14):
            seed = bytes(rng.getrandbits(8) for _ in range(16))
            if j % 5 == 3:
                items.append({"op": "selphantom", "seed": seed, "lv": 4, "v6": False,
                              "filter": rng.choice(["none", "v4", "v6"]), "weighted": rng.random() < 0.5})
            else:
                items.append({"op": "select", "seed": seed, "lv": [2, 0, 4, 1, 3, 2, 1][j % 7], "v6": bool(j & 1),
                              "filter": "none", "weighted": True})
        # the first selections repeated at the end of the history
        items += [dict(items[0]), dict(items[1]), dict(items[3])]
        conc.append({"op": "hist", "cfg": cfg, "items": items, "tag": "hist"})
    # 7. the same CIDR STRING under groups with different port-randomisation flags: in two groups of one generation,
    #    in two generations of one selector, and in two selector objects created one after the other in the same
    #    process; the other-flag group / generation / selector is touched first (also through GetUnweightedSubnetList)
    def sel_step(sel, gen, lv, v6):
        return {"sel": sel, "gen": gen, "op": "select", "seed": bytes(rng.getrandbits(8) for _ in range(16)), "lv": lv,
                "v6": v6, "filter": "none", "weighted": True}

    for k in range(3 if quick else 20):
        n4 = net(4, rng.getrandbits(32) | (1 << 31), rng.choice([16, 20, 24]))
        n6 = net(6, rng.getrandbits(128) | (1 << 127), rng.choice([48, 64, 96]))
        first = bool(k & 1)

        def grp(rp, w=5):
            return {"w": w, "nets": [dict(n4), dict(n6)], "rp": rp}
        two = {"groups": [grp(first), grp(not first)]}                       # one generation, two groups, opposite flags
        gen_a, gen_b = {"groups": [grp(first, 1)]}, {"groups": [grp(not first, 1)]}
        steps = []
        if k % 3 == 2:
            steps.append({"sel": 0, "gen": 1, "op": "list", "seed": b"", "lv": 4, "v6": False, "filter": "none", "weighted": False})
        for j in range(8):                                                   # both groups of generation 1 get picked
            steps.append(sel_step(0, 1, [2, 4, 1, 3, 0, 2, 4, 1][j], bool(j & 1)))
        steps.append({"sel": 0, "gen": 1, "op": "list", "seed": b"", "lv": 4, "v6": False, "filter": "none", "weighted": False})
        for j in range(3):                                                   # generation 957 first, then 958 with the other flag
            steps.append(sel_step(0, 957, [4, 1, 2][j], bool(j & 1)))
        for j in range(4):
            steps.append(sel_step(0, 958, [4, 2, 1, 0][j], bool(j & 1)))
        steps.append({"sel": 0, "gen": 958, "op": "selphantom", "seed": bytes(rng.getrandbits(8) for _ in range(16)), "lv": 4,
                      "v6": False, "filter": "v4", "weighted": True})
        steps.append({"sel": 0, "gen": 958, "op": "list", "seed": b"", "lv": 4, "v6": False, "filter": "none", "weighted": False})
        for j in range(3):                                                   # a second selector object, created now
            steps.append(sel_step(1, 7, [4, 1, 3][j], bool(j & 1)))
        conc.append({"op": "multi", "selectors": [{"1": two, "957": gen_a, "958": gen_b}, {"7": gen_b if k % 2 else two}],
                     "steps": steps, "tag": "multi"})
    return cases, exh, conc


def to_json(c):
    if c["op"] == "conc":
        return {"op": "conc", "cfg": cfg_json(c["cfg"]), "workers": c["workers"], "rounds": c["rounds"],
                "items": [{"seed": it["seed"].hex(), "lv": it["lv"], "v6": it["v6"]} for it in c["items"]]}
    if c["op"] == "multi":
        return {"op": "multi", "selectors": [{g: cfg_json(cf) for g, cf in sl.items()} for sl in c["selectors"]],
                "steps": [dict(st, seed=st["seed"].hex()) for st in c["steps"]]}
    if c["op"] == "hist":
        return {"op": "hist", "cfg": cfg_json(c["cfg"]),
                "items": [{"op": it["op"], "seed": it["seed"].hex(), "lv": it["lv"], "v6": it["v6"], "filter": it["filter"],
                           "weighted": it["weighted"]} for it in c["items"]]}
    d = {"op": c["op"], "seed": c["seed"].hex(), "cfg": cfg_json(c["cfg"])}
    if c["op"] == "select":
        d.update(lv=c["lv"], v6=c["v6"])
    else:
        d.update(filter=c["filter"], weighted=c["weighted"])
    return d


def parse_net(s):
    """CIDR string of a replay file -> network spec"""
    if s in BAD_CIDRS:
        return {"s": s, "p": None}
    try:
        i = ipaddress.ip_interface(s)
    except ValueError:
        return {"s": s, "p": None}
    return {"s": s, "p": (i.version, int(i.ip), i.network.prefixlen)}


def from_json(d):
    cfg = None
    if d.get("cfg") is not None:
        cfg = {"groups": [{"w": g.get("w"), "rp": g.get("rp"),
                           "nets": None if g.get("nets_nil") else [parse_net(s) for s in g.get("nets") or []]}
                          for g in d["cfg"]["groups"]]}
    c = {"op": d["op"], "seed": bytes.fromhex(d.get("seed", "")), "cfg": cfg, "tag": "replay"}
    if d["op"] == "select":
        c.update(lv=d["lv"], v6=d["v6"])
    else:
        c.update(filter=d["filter"], weighted=d["weighted"])
    return c


def replay_cases(rp):
    out = []
    if not rp:
        return out
    out += rp.get("cases", [])
    for f in rp.get("failures", []) + rp.get("theorem_or_correspondence", []) + rp.get("broken", []):
        c = f.get("case") or {}
        out += c.get("cases", []) if "cases" in c else ([c] if "op" in c else [])
    return out


def brief(c):
    d = to_json(c)
    d["tag"] = c.get("tag")
    return d


# ---------------------------------------------------------------- direct oracle
def eff_is4(p):
    return ref.net_eff(p)["is4"]


def oracle(ctx, c, r, kp="", case=None, note=""):
    """the property's own statement, evaluated on what the Go code returned
    (kp: key prefix naming the lane / entry point, case: the replayable case to report, note: where in a history)"""
    cfg = c["cfg"]
    _fail = ctx.fail

    class _Ctx:                      # same verdicts, keys prefixed with the lane, the lane's own case attached
        @staticmethod
        def fail(key, what, cs):
            _fail(kp + key, what + note, case if case is not None else cs)
    if kp or case is not None or note:
        ctx = _Ctx
    lvc = "libver>=2" if c["op"] != "select" or c["lv"] >= 2 else "libver<2"
    if r["out"] == "panic":
        tot = sum((g["w"] or 0) for g in (cfg or {"groups": []})["groups"] if g["nets"] is not None)
        cls = "zero-total-weight" if tot == 0 else "other"
        ctx.fail("panic/%s/%s" % (cls, lvc), "selection panicked (%s) instead of returning an error: %s"
                 % (cls, r["err"][:120]), brief(c))
        return
    if cfg is None and r["out"] != "err":
        ctx.fail("unknown-generation-selected", "a selection for an unconfigured generation succeeded", brief(c))
        return
    if r["out"] != "ok":
        return
    ip = bytes.fromhex(r["ip"])
    if c["op"] == "select":
        want = [16] if c["v6"] else [4]
    else:
        want = {"none": [4, 16], "v4": [4], "v6": [16]}[c["filter"]]
    if len(ip) not in want:
        ctx.fail("wellformed/%s/len=%d" % (lvc, len(ip)),
                 "selected address has %d bytes (%s), expected %s for the requested family" % (len(ip), r["ip"], want),
                 brief(c))
        return
    if r.get("is4") != (len(ip) == 4):
        ctx.fail("wellformed/%s/v4-mapped" % lvc, "selected %d-byte address %s is an IPv4-mapped value (IP.To4() != nil): "
                 "net.IP treats it as an IPv4 address" % (len(ip), r["ip"]), brief(c))
        return
    ok = False
    flag = False
    for gi, ni in r["contain"] or []:
        g = cfg["groups"][gi]
        p = g["nets"][ni]["p"]
        if p is None:
            continue
        if (4 if eff_is4(p) else 16) != len(ip):
            continue
        ok = True
        if bool(g["rp"]) == r["rp"]:
            flag = True
    if not ok:
        ctx.fail("contained/%s" % lvc, "selected address %s lies in no configured subnet of the requested family" % r["ip"], brief(c))
    elif not flag:
        ctx.fail("flag/%s" % lvc, "port randomisation flag %s is not the flag of any subnet containing %s" % (r["rp"], r["ip"]), brief(c))


# ---------------------------------------------------------------- run
def run(ctx):
    ctx.assumptions += [
        "SHA-256/HMAC/HKDF, crypto/rand.Int, math/rand (rngSource, Intn, Read), binary.Varint, sort.Slice (<= 12 elements) "
        "and net.ParseCIDR are hand models of the Go library code, checked against FIPS/RFC vectors in Coq and against the "
        "real functions through every correspondence case",
        "the theorems are parametric in the PRF, the math/rand source and the sorter (any permutation); more than 12 weighted "
        "groups (Go switches to an unstable pdqsort) are outside the correspondence, not outside the theorems",
        "concurrency: the Go memory model is not modelled; the shared-state LTS covers the math/rand global generator, the only "
        "shared mutable state the selectors ever touched; -race runs in the thorough tier are the evidence for the rest",
    ]
    ctx.cov["trusted_base"] = [
        "Coq 8.16.1 kernel (coqc; coqchk in the thorough tier); vm_compute for model evaluation; no native_compute",
        "no axioms: every theorem prints 'Closed under the global context'",
        "hand-written model coq/C14/{Sha256,Hkdf,CryptoRand,IPNet,MathRand,Model}.v tied to the code by the correspondence run",
        "Go overlay driver harness/inpkg/c14, case generator and Gallina emitter driver/props/c14.py (c14_ref.py is a search tool only)",
    ]
    ctx.cov["rule"] = ("random subnet configurations (1-12 groups; /0../32, /0../128, one-address, leading-zero, v4-mapped, "
                       "overlapping, duplicate, unparsable, nil/empty subnet lists; zero/equal/huge weights) x seeds (random, "
                       "empty, all-zero, all-ff, varint edge patterns) x libver 0-4+ x both families; SelectPhantom with every "
                       "transform; every offset of small subnets through crafted seeds; serial vs 2-32 concurrent selectors. "
                       "A case is non-trivial if hash-distinct; the histogram lists op/libver/outcome classes")
    ctx.coq_props()
    rc, out = ctx.coq_make(["C14/Examples.vo"])
    if rc != 0:
        ctx.broken("examples", "non-vacuity examples (coq/C14/Examples.v) no longer check: " + out[-500:])
    cases, exh, conc = gen_cases(ctx)
    # lifecycle lanes: the selector as the station / the registrar hold it over loads and reloads (real
    # NewRegistrationManager / OnReload, NewRegProcessorNoAuth / ReloadSubnets), and histories over the selector's API
    import glob
    import json
    from lib import VERIF
    replayed = []
    for f in sorted(glob.glob(os.path.join(VERIF, "corpus", "C14", "*.json"))):
        replayed += replay_cases(json.load(open(f)))
    replayed += replay_cases(ctx.replay)
    lcases = life.gen_cases(ctx, replayed)
    acases = life.gen_api(ctx, replayed)
    js = [to_json(c) for c in cases + conc] + [life.api_to_json(c) for c in acases]
    race = ctx.tier == "thorough" and os.environ.get("VERIF_NO_RACE") != "1"
    with ThreadPoolExecutor(max_workers=2) as ex:
        fut_life = ex.submit(life.go_run, ctx, lcases)
        rc, out, res = ctx.go_inpkg(".", "pkg/phantoms", {"zz_verif_driver_test.go": "c14/phantoms_driver_test.go"},
                                    "^TestVerifC14Phantoms$", js, race=race, timeout=1500)
        life_st, life_rg = fut_life.result()
    ccases = life.gen_conc(ctx, replayed)
    conc_st, conc_rg = life.go_run_conc(ctx, ccases, race=race)
    if res is None or len(res) != len(js):
        ctx.broken("driver", "Go driver did not produce results (rc=%s): %s" % (rc, out[-1200:]))
        life.evaluate(ctx, lcases, life_st, life_rg)
        life.conc_evaluate(ctx, ccases, conc_st, conc_rg, race=race)
        return
    if race and "DATA RACE" in out:
        i = out.index("DATA RACE")
        ctx.fail("data-race", "the race detector reports a data race during concurrent selections: " + out[i:i + 900],
                 {"note": "go test -race on the concurrent-selector cases"})
    terms, tcases = [], []
    for c, r in zip(cases, res[:len(cases)]):
        lv = c.get("lv", 4)
        kind = "%s/lv%s/%s" % (c["op"], min(lv, 5) if c["op"] == "select" else "-", r["out"])
        ctx.count((to_json(c),), nontrivial=True, kind=kind)
        tk = "tag:%s/%s" % (c.get("tag"), r["out"])
        ctx.cov["histogram"][tk] = ctx.cov["histogram"].get(tk, 0) + 1
        oracle(ctx, c, r)
        terms.append(g_case(c, r))
        tcases.append((c, r))
    # exhaustive offsets: every address of the small target subnet must have been returned by the Go code
    seen = {}
    for c, r in tcases:
        if c.get("tag") == "exh" and r["out"] == "ok":
            seen.setdefault((id(c["cfg"]), c["lv"]), set()).add(r["ip"])
    for e in exh:
        got = seen.get((id(e["cfg"]), e["lv"]), set())
        fam, addr, ones = e["target"]["p"]
        n = ref.net_eff(e["target"]["p"])
        # every offset for which a crafted seed exists must come back from the Go code.  (The version-0 algorithm
        # cannot reach some networks at all -- id 0 and networks whose id range is empty -- the search then finds
        # no seed; that is the legacy selection bug the station reproduces on purpose, not a finding.)
        allips = {(n["ebase"] + o).to_bytes(n["alen"], "big").hex() for o in e["found"]}
        missing = allips - got
        full = len(e["found"]) == n["size"]
        ctx.count(("exh", e["lv"], fam, e["hb"], len(missing)), nontrivial=True,
                  kind="exhaustive-offsets/%s" % ("missing" if missing else ("all-hit" if full else
                                                  ("v0-unreachable-by-design" if e["lv"] == 0 else "search-incomplete"))))
        if missing:
            ctx.fail("offsets-unreachable/libver=%d" % e["lv"],
                     "%d of %d addresses of %s were never selected although crafted seeds exist for each"
                     % (len(missing), len(allips), e["target"]["s"]),
                     {"target": e["target"]["s"], "lv": e["lv"], "missing": sorted(missing)[:5]})
    # histories on one shared selector: repeating a selection never changes any result, nor the configuration
    def same(a, b):
        return (a["out"], a["ip"], a["rp"]) == (b["out"], b["ip"], b["rp"])

    for c, r in zip(conc, res[len(cases):]):
        if c["op"] != "hist":
            continue
        ctx.count(("hist", to_json(c)), nontrivial=True, kind="hist/%s" % ("config-unchanged" if not r.get("cfg_changed") else "config-changed"))
        if r.get("cfg_changed"):
            ctx.fail("purity/configuration-changed-by-a-selection", "a selection changed the generation's configured subnets "
                     "held by the shared selector: " + r["cfg_changed"][:700], brief(c))
        for i, it in enumerate(c["items"]):
            sc = dict(it, cfg=c["cfg"], tag="hist-fresh")
            oracle(ctx, sc, r["serial"][i])
            tk = "tag:hist-fresh/%s" % r["serial"][i]["out"]
            ctx.cov["histogram"][tk] = ctx.cov["histogram"].get(tk, 0) + 1
            terms.append(g_case(sc, r["serial"][i]))
            tcases.append((sc, r["serial"][i]))
            for which, lst in (("first run on the shared selector", r["first"]), ("repeat on the shared selector", r["again"])):
                if not same(lst[i], r["serial"][i]):
                    ctx.fail("purity/result-depends-on-history", "op %d of a history (%s, libver %d, seed %s): on a fresh selector "
                             "%s/%s/%s, %s %s/%s/%s" % (i, it["op"], it["lv"], it["seed"].hex(), r["serial"][i]["out"],
                                                        r["serial"][i]["ip"], r["serial"][i]["rp"], which, lst[i]["out"],
                                                        lst[i]["ip"], lst[i]["rp"]), brief(c))
                    break
    # one CIDR string under several flags / generations / selector objects: the flag granted must be the one of the
    # group the address was drawn from in THIS generation's configuration, i.e. what a fresh process computes
    for c, r in zip(conc, res[len(cases):]):
        if c["op"] != "multi":
            continue
        ctx.count(("multi", to_json(c)), nontrivial=True, kind="multi/steps=%d" % len(c["steps"]))
        for i, (st, ro) in enumerate(zip(c["steps"], r["first"])):
            cfg = c["selectors"][st["sel"]][str(st["gen"])]
            if st["op"] == "list":
                want = "".join(("T" if g["rp"] else "F") * len(g["nets"]) for g in cfg["groups"])
                k = "multi-list/%s" % ("ok" if ro.get("flags") == want else "wrong-flags")
                ctx.cov["histogram"][k] = ctx.cov["histogram"].get(k, 0) + 1
                if ro["out"] == "ok" and ro.get("flags") != want:
                    ctx.fail("purity/listing-flag-from-another-group", "GetUnweightedSubnetList (step %d, generation %d) reports "
                             "port-randomisation flags %s, the configuration says %s: a flag leaked from a group parsed earlier in the "
                             "process" % (i, st["gen"], ro.get("flags"), want), brief(c))
                continue
            sc = {"op": st["op"], "seed": st["seed"], "cfg": cfg, "lv": st["lv"], "v6": st["v6"], "filter": st["filter"],
                  "weighted": st["weighted"], "tag": "multi-step"}
            oracle(ctx, sc, ro)
            tk = "tag:multi-step/%s" % ro["out"]
            ctx.cov["histogram"][tk] = ctx.cov["histogram"].get(tk, 0) + 1
            terms.append(g_case(sc, ro))
            tcases.append((sc, ro))
            # what a fresh process derives from (seed, this generation's configuration, libver, family) alone
            fresh = ref.select(st["seed"], cfg, st["lv"] if st["op"] == "select" else 4,
                               st["v6"] if st["op"] == "select" else st["filter"] == "v6")
            if ro["out"] == "ok" and fresh[0] == "ok" and (bytes.fromhex(ro["ip"]), ro["rp"]) != (fresh[1], fresh[2]):
                what = "flag" if bytes.fromhex(ro["ip"]) == fresh[1] else "address"
                ctx.fail("purity/%s-depends-on-earlier-selections" % what, "step %d (%s, selector %d, generation %d, libver %d, seed %s): "
                         "the code returned %s flag=%s, a derivation from this generation's configuration alone gives %s flag=%s "
                         "(the same CIDR string is configured with the other flag in a group / generation / selector used earlier)"
                         % (i, st["op"], st["sel"], st["gen"], st["lv"], st["seed"].hex(), ro["ip"], ro["rp"], fresh[1].hex(), fresh[2]),
                         brief(c))
    # concurrency
    for c, r in zip(conc, res[len(cases):]):
        if c["op"] != "conc":
            continue
        ctx.count(("conc", c["workers"], r["runs"]), nontrivial=True, kind="conc/%d" % c["workers"])
        for it, sr in zip(c["items"], r["serial"]):
            sc = {"op": "select", "seed": it["seed"], "cfg": c["cfg"], "lv": it["lv"], "v6": it["v6"], "tag": "conc-serial"}
            oracle(ctx, sc, sr)
            terms.append(g_case(sc, sr))
            tcases.append((sc, sr))
        if r["diffs"]:
            legacy = "libver 0" in r["diff"] or "libver 1" in r["diff"]
            ctx.fail("concurrent-differs-from-serial/%s" % ("libver<2" if legacy else "libver>=2"),
                     "%d of %d concurrent/repeated selections differ from the serial result; first: %s"
                     % (r["diffs"], r["runs"], r["diff"]), brief(c))
    for c, r in tcases[:2] + tcases[-1:]:
        ctx.sample({"case": brief(c), "observed": {k: r[k] for k in ("out", "ip", "rp", "err")}})
    ctx.require_kinds(["select/lv0/ok", "select/lv1/ok", "select/lv2/ok", "select/lv3/ok", "select/lv4/ok",
                       "select/lv0/err", "select/lv1/err", "select/lv2/err", "selphantom/lv-/ok", "selphantom/lv-/err",
                       "tag:leading-zero/ok", "tag:zero-weight/err", "tag:unknown-gen/err", "tag:exh/ok",
                       "exhaustive-offsets/all-hit", "conc/2", "conc/32", "hist/config-unchanged", "tag:hist-fresh/ok", "tag:multi-step/ok", "multi-list/ok"])
    # the lifecycle lanes (after the selector lanes, so that a broken selector is reported under its own key first)
    ldefs, lterms, ltcases = life.evaluate(ctx, lcases, life_st, life_rg)
    adefs, aterms, atcases = life.api_evaluate(ctx, acases, res[len(cases) + len(conc):])
    life.conc_evaluate(ctx, ccases, conc_st, conc_rg, race=race)
    ctx.require_kinds(life.REQUIRED + life.API_REQUIRED + life.CONC_REQUIRED)
    life.correspond(ctx, ldefs, lterms, ltcases)
    life.api_correspond(ctx, adefs, aterms, atcases)
    mm = ctx.coq_mismatches("sel", HEADER, terms, "chk", shard=max(8, (len(terms) + 15) // 16), need_vo=["C14/Run.vo"])
    if mm:
        ctx.cov["mismatches"] += len(mm)
        c, r = tcases[mm[0]]
        shown = ctx.coq_show("mm", HEADER, "show %s" % g_case(c, r))
        ctx.broken("correspondence", "the model (C14.Model.select / select_phantom) and the implementation disagree on %d "
                   "case(s); first: %s ; model says %s" % (len(mm), {k: r[k] for k in ("out", "ip", "rp", "err")}, shown[-300:]),
                   {"cases": [brief(c)], "observed": r})
