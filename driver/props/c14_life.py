"""C14, lifecycle lanes: the selector as the station and the registrar HOLD it over loads / reloads, and histories over
the selector's exported API (AddGeneration / UpdateGeneration / RemoveGeneration).

"The configured subnets" of the property are those of the configuration IN FORCE: the file of the last successful
(re)load.  The lane drives the real NewRegistrationManager / OnReload (pkg/station/lib) and the real
NewRegProcessorNoAuth / ReloadSubnets / processBdReq (pkg/regserver/regprocessor) through sequences of temporary
subnet files and, after every step, selects for every generation ever configured."""
from concurrent.futures import ThreadPoolExecutor

from lib import gN, gZ, gbool, hexs, glist

HEADER = "From CJ Require Import Common.Base C14.Model C14.LifeModel C14.Run.\n"
NEVER = 4242            # a generation no file ever configures


def B():
    from props import c14
    return c14


# ---------------------------------------------------------------- subnet files
def toml_of(gens):
    out = ["# written by the C14 lifecycle lane", "[Networks]"]
    for g, cfg in gens.items():
        out.append("    [Networks.%d]" % g)
        out.append("        Generation = %d" % g)
        for grp in cfg["groups"]:
            out.append("        [[Networks.%d.WeightedSubnets]]" % g)
            if grp["w"] is not None:
                out.append("            Weight = %d" % grp["w"])
            if grp["rp"] is not None:
                out.append("            RandomizeDstPort = %s" % ("true" if grp["rp"] else "false"))
            if grp["nets"] is not None:
                out.append("            Subnets = [%s]" % ", ".join('"%s"' % n["s"] for n in grp["nets"]))
        out.append("")
    return "\n".join(out) + "\n"


def good_file(gens):
    return {"kind": "text", "text": toml_of(gens), "cfgs": dict(gens), "expect": True, "what": "generations %s" % sorted(gens)}


def bad_file(rng, gens, which=None):
    which = which or rng.choice(["missing", "syntax", "key", "type"])
    if which == "missing":
        return {"kind": "missing", "text": "", "cfgs": None, "expect": False, "what": "missing file"}
    if which == "syntax":
        txt = toml_of(gens).replace("[Networks]", "[Networks", 1)
        return {"kind": "text", "text": txt, "cfgs": None, "expect": False, "what": "TOML syntax error"}
    if which == "key":
        txt = toml_of(gens) + "    [Networks.next]\n        Generation = 9\n"
        return {"kind": "text", "text": txt, "cfgs": None, "expect": False, "what": "generation key that is not a number"}
    txt = toml_of(gens) + '    [Networks.8]\n        Generation = 8\n        [[Networks.8.WeightedSubnets]]\n            Weight = "heavy"\n'
    return {"kind": "text", "text": txt, "cfgs": None, "expect": False, "what": "weight of the wrong type"}


def life_cfg(rng, messy=False):
    """a generation's configuration: 1-3 groups, each with IPv4 and IPv6 networks"""
    b = B()
    if messy:
        return b.rand_cfg(rng, clean=False)            # `Subnets = []` loads as an empty non-nil slice, an absent key as nil
    groups = []
    for _ in range(rng.choice([1, 1, 2, 3])):
        nets = [b.rand_net(rng, 4), b.rand_net(rng, 6)]
        if rng.random() < 0.3:
            nets.append(b.rand_net(rng))
        rng.shuffle(nets)
        groups.append({"w": rng.choice([1, 2, 5, 10, rng.randrange(1, 1000)]), "nets": nets, "rp": rng.choice([True, False, None])})
    if not any(g["rp"] for g in groups) and rng.random() < 0.6:
        rng.choice(groups)["rp"] = True
    return {"groups": groups}


def sels_for(rng, gens):
    out = []
    for g in gens:
        for lv in range(5):
            for v6 in (False, True):
                out.append({"seed": bytes(rng.getrandbits(8) for _ in range(16)), "gen": g, "lv": lv, "v6": v6})
    for lv, v6 in ((rng.choice([0, 1]), False), (rng.choice([2, 3, 4]), True)):
        out.append({"seed": bytes(rng.getrandbits(8) for _ in range(16)), "gen": NEVER, "lv": lv, "v6": v6})
    return out


def det_history(rng):
    """{1,2} -> {1} (2 retired, 1 moved) -> {1,3} (3 added, 1 untouched) -> a file that does not load -> {2} (1 and 3 retired,
    2 back on other subnets) -> {2} (same generations, other subnets, port flag withdrawn) -> the file is gone"""
    a1, b2, c1, d3, e2, f2 = (life_cfg(rng) for _ in range(6))
    for cfg in (b2, e2):                               # generation 2 grants the randomised port ...
        for g in cfg["groups"]:
            g["rp"] = True
    for g in f2["groups"]:                             # ... until the last file withdraws it
        g["rp"] = False
    files = [good_file({1: a1, 2: b2}), good_file({1: c1}), good_file({1: c1, 3: d3}),
             bad_file(rng, {1: a1, 2: b2, 3: d3}, "syntax"), good_file({2: e2}), good_file({2: f2}),
             bad_file(rng, {}, "missing")]
    return {"op": "life", "files": files, "sels": [sels_for(rng, [1, 2, 3]) for _ in files], "tag": "life-det"}


def rand_history(rng):
    universe = rng.sample([1, 2, 3, 5, 957], rng.choice([2, 3, 3]))
    n = rng.choice([4, 5, 6])
    cur = {g: life_cfg(rng, messy=rng.random() < 0.15) for g in universe if rng.random() < 0.75}
    if not cur:
        cur = {universe[0]: life_cfg(rng)}
    files = [good_file(cur)]
    retire_at = rng.randrange(1, n)
    for i in range(1, n):
        if i != retire_at and rng.random() < 0.25:
            nxt = dict(cur)
            nxt[rng.choice(universe)] = life_cfg(rng)          # what the broken file WOULD have configured
            files.append(bad_file(rng, nxt))
            continue
        nxt = {}
        for g in universe:
            r = rng.random()
            if g in cur and r < 0.45:
                nxt[g] = cur[g]                                 # unchanged
            elif r < 0.75:
                nxt[g] = life_cfg(rng, messy=rng.random() < 0.1)
        if i == retire_at and cur:                              # at least one generation is retired here
            nxt.pop(rng.choice(sorted(cur)), None)
        if rng.random() < 0.08:
            nxt[rng.choice(universe)] = {"groups": []}          # a generation without any group
        files.append(good_file(nxt))
        cur = nxt
    return {"op": "life", "files": files, "sels": [sels_for(rng, universe) for _ in files], "tag": "life-rand"}


def gen_cases(ctx, replayed):
    rng = ctx.rng
    out = [from_json(d) for d in replayed if d.get("op") == "life"]
    out.append(det_history(rng))
    for _ in range(1 if ctx.tier == "quick" else 10):
        out.append(rand_history(rng))
    return out


def file_json(f):
    b = B()
    d = {"kind": f["kind"], "text": f["text"], "expect": f["expect"], "what": f["what"], "gens": None}
    if f["cfgs"] is not None:
        d["gens"] = {str(g): b.cfg_json(c)["groups"] for g, c in f["cfgs"].items()}
    return d


def to_json(c):
    d = {"op": c.get("op", "life"), "files": [file_json(f) for f in c["files"]],
         "sels": [[dict(s, seed=s["seed"].hex()) for s in ss] for ss in c["sels"]]}
    for k in ("workers", "rounds", "reloads"):
        if k in c:
            d[k] = c[k]
    return d


def from_json(d):
    b = B()
    files = []
    for f in d["files"]:
        cfgs = None
        if f.get("gens") is not None:
            cfgs = {int(g): b.from_json({"op": "select", "cfg": {"groups": gs}, "lv": 0, "v6": False})["cfg"]
                    for g, gs in f["gens"].items()}
        files.append({"kind": f["kind"], "text": f.get("text", ""), "cfgs": cfgs, "expect": f.get("expect"), "what": f.get("what", "")})
    c = {"op": d.get("op", "life"), "files": files, "tag": "life-replay",
         "sels": [[dict(s, seed=bytes.fromhex(s["seed"])) for s in ss] for ss in d["sels"]]}
    for k in ("workers", "rounds", "reloads"):
        if k in d:
            c[k] = d[k]
    return c


def brief(c, step=None, sel=None):
    """the history up to (and including) the step, with the one selection that failed"""
    d = to_json(c)
    if step is not None:
        d["files"] = d["files"][:step + 1]
        d["sels"] = [[] for _ in range(step)] + [[d["sels"][step][sel]] if sel is not None else d["sels"][step]]
    d["tag"] = c.get("tag")
    return d


# ---------------------------------------------------------------- Gallina
def g_file(cfgs):
    b = B()
    return glist(sorted(cfgs.items()), lambda kc: "(%s, %s)" % (gZ(kc[0]), glist(
        ["(mk_group %s %s %s)" % (gN(g["w"] or 0), "None" if g["nets"] is None else "(Some %s)" % glist(g["nets"], b.g_net),
                                  gbool(bool(g["rp"]))) for g in kc[1]["groups"]])))


def g_obs(r):
    b = B()
    return "(%s, %s, %s)" % (gN(b.OUT[r["out"]]), hexs(bytes.fromhex(r["ip"] or "")), gbool(r["rp"]))


# ---------------------------------------------------------------- run
def go_run(ctx, cases):
    js = [to_json(c) for c in cases]

    def station():
        return ctx.go_inpkg(".", "pkg/station/lib", {"zz_verif_c14_driver_test.go": "c14/lifecycle_driver_test.go"},
                            "^TestVerifC14Lifecycle$", js, timeout=900)

    def registrar():
        return ctx.go_inpkg(".", "pkg/regserver/regprocessor", {"zz_verif_c14_driver_test.go": "c14/registrar_driver_test.go"},
                            "^TestVerifC14Registrar$", js, timeout=900)
    with ThreadPoolExecutor(max_workers=2) as ex:
        fs, fr = ex.submit(station), ex.submit(registrar)
        return fs.result(), fr.result()


def status_of(files, loaded, i, gen):
    """how generation gen stands after step i; loaded = indices of the files that loaded, in order"""
    upto = [j for j in loaded if j <= i]
    if not upto:
        return "never"
    cur = files[upto[-1]]["cfgs"]
    prev = files[upto[-2]]["cfgs"] if len(upto) > 1 else None
    if gen not in cur:
        return "retired" if any(gen in files[j]["cfgs"] for j in upto[:-1]) else "never"
    if upto[-1] != i:
        return "kept-after-failed-load"
    if prev is None:
        return "initial"
    if gen not in prev:
        return "added"
    return "same" if prev[gen] is cur[gen] or prev[gen] == cur[gen] else "changed"


def same(a, b):
    return (a["out"], a["ip"], a["rp"]) == (b["out"], b["ip"], b["rp"])


def hist(ctx, k):
    ctx.cov["histogram"][k] = ctx.cov["histogram"].get(k, 0) + 1


def evaluate(ctx, cases, sres, rres):
    """oracle on both implementations' observables; returns (header definitions, terms, term cases)"""
    b = B()
    defs, terms, tcases = [], [], []
    for (rc, out, res), name in ((sres, "station"), (rres, "registrar")):
        if res is None or len(res) != len(cases):
            ctx.broken("driver-" + name, "the %s lifecycle driver did not produce results (rc=%s): %s" % (name, rc, out[-1500:]))
            return defs, terms, tcases
    for h, (c, so, ro) in enumerate(zip(cases, sres[2], rres[2])):
        files = c["files"]
        ctx.count(("life", to_json(c)), nontrivial=True, kind="life/history")
        if len(so["steps"]) != len(files) or len(ro["steps"]) != len(files):
            bad = so["steps"][-1] if len(so["steps"]) != len(files) else ro["steps"][-1]
            ctx.broken("driver-lifecycle", "the station or the registrar could not be taken through the history: it stopped at "
                       "step %d: stage %s %s" % (min(len(so["steps"]), len(ro["steps"])) - 1, bad.get("stage"), bad.get("reload", "")),
                       brief(c))
            continue
        loaded, describable = [], True
        for i, f in enumerate(files):
            ok = so["steps"][i]["load_ok"]
            if f["expect"] is not None and ok != f["expect"]:
                ctx.broken("lifecycle-load", "step %d (%s): the loader %s the file, the generator expected the opposite"
                           % (i, f["what"], "accepted" if ok else "rejected"), brief(c, i))
            if ok and f["cfgs"] is None:
                describable = False          # a file the generator cannot describe: leave the history alone
                break
            if ok:
                loaded.append(i)
                defs.append("Definition lf_%d_%d : file := mk_file %s." % (h, i, g_file(f["cfgs"])))
        if not describable or 0 not in loaded:
            continue
        for i, f in enumerate(files):
            ss, rs = so["steps"][i], ro["steps"][i]
            inforce = max(j for j in loaded if j <= i)
            F = files[inforce]["cfgs"]
            where = "after step %d (%s); configuration in force: the file of step %d, generations %s" \
                    % (i, f["what"], inforce, sorted(F))
            # the generations each side answers for are exactly those of the configuration in force
            for name, st in (("station", ss), ("registrar", rs)):
                if st["inforce"] != inforce:
                    ctx.broken("lifecycle-load", "%s driver: file in force %s, expected %s" % (name, st["inforce"], inforce), brief(c, i))
            loads = glist(["(Some lf_%d_%d)" % (h, j) if j in loaded else "None" for j in range(1, i + 1)])
            for k, s in enumerate(c["sels"][i]):
                cfg = F.get(s["gen"])
                status = status_of(files, loaded, i, s["gen"])
                sc = {"op": "select", "seed": s["seed"], "cfg": cfg, "lv": s["lv"], "v6": s["v6"], "tag": "life"}
                o_s, o_r = ss["sel"][k], rs["sel"][k]
                bc = None
                for name, held, fresh in (("station", o_s["held"], o_s["fresh"]), ("registrar", o_r["held"], o_r["fresh"])):
                    hist(ctx, "life/%s/%s/%s" % (name, status, held["out"]))
                    if bc is None:
                        bc = brief(c, i, k)
                    if cfg is None and held["out"] == "ok" and status == "retired":
                        ctx.fail("reload/%s/retired-generation-still-served" % name,
                                 "%s: generation %d is not part of the configuration in force (a reload retired it) but a selection "
                                 "for it (libver %d, v6 %s, seed %s) succeeds with %s, randomised port allowed: %s -- an address from "
                                 "subnets that are not configured for that generation any more, instead of 'generation number not "
                                 "recognized'; %s" % (name, s["gen"], s["lv"], s["v6"], s["seed"].hex(), held["ip"], held["rp"], where), bc)
                        continue
                    b.oracle(ctx, sc, held, kp="reload/%s/" % name, case=bc,
                             note=" [%s, generation %d (%s) through the %s's held selector; %s]" % (name, s["gen"], status, name, where))
                    if not same(held, fresh):
                        ctx.fail("reload/%s/differs-from-fresh-selector" % name,
                                 "%s, generation %d (%s), libver %d, v6 %s, seed %s: the held selector answers %s/%s/%s, a selector "
                                 "loaded freshly from the configuration in force answers %s/%s/%s; %s"
                                 % (name, s["gen"], status, s["lv"], s["v6"], s["seed"].hex(), held["out"], held["ip"], held["rp"],
                                    fresh["out"], fresh["ip"], fresh["rp"], where), bc)
                # the station's ingest path: NewRegistration (address and destination port)
                reg, freg = o_s["reg"], o_s["freshreg"]
                hist(ctx, "life/station-ingest/%s/%s" % (status, reg["out"]))
                if reg["out"] == "ok" and reg["port"] != 443:
                    hist(ctx, "life/station-ingest/port-randomised")
                grant_oracle(ctx, b, sc, reg, "station-ingest", bc, where, status)
                if (reg["out"], reg["ip"], reg["port"]) != (freg["out"], freg["ip"], freg["port"]):
                    ctx.fail("reload/station-ingest/differs-from-fresh-manager",
                             "NewRegistration, generation %d (%s), libver %d, v6 %s, seed %s: the running manager gives %s/%s port %s, a "
                             "manager started on the configuration in force gives %s/%s port %s; %s"
                             % (s["gen"], status, s["lv"], s["v6"], s["seed"].hex(), reg["out"], reg["ip"], reg["port"],
                                freg["out"], freg["ip"], freg["port"], where), bc)
                # the registrar's request path: processBdReq (seed derived from the shared secret)
                bd, bdf = o_r["bd"], o_r["bdfresh"]
                hist(ctx, "life/registrar-bdreq/%s/%s" % (status, bd["out"]))
                if bd["out"] == "ok" and bd["port"] != 443:
                    hist(ctx, "life/registrar-bdreq/port-randomised")
                dsc = dict(sc, seed=bytes.fromhex(bd.get("seed") or ""))
                grant_oracle(ctx, b, dsc, bd, "registrar-bdreq", bc, where, status)
                if bd.get("seed") and ((bd["out"], bd["ip"]) != (bdf["out"], bdf["ip"]) or
                                       (bd["out"] == "ok" and bd["port"] != 443 and not bdf["rp"])):
                    ctx.fail("reload/registrar-bdreq/differs-from-fresh-selector",
                             "processBdReq, generation %d (%s), libver %d, v6 %s: the response carries %s/%s port %s, a selector loaded "
                             "freshly from the configuration in force gives %s/%s flag %s; %s"
                             % (s["gen"], status, s["lv"], s["v6"], bd["out"], bd["ip"], bd["port"], bdf["out"], bdf["ip"], bdf["rp"], where), bc)
                ctx.count(("life-sel", h, i, k), nontrivial=True, kind="life-select/lv%d/%s" % (s["lv"], o_s["held"]["out"]))
                # correspondence: the model's station after the same loads
                fam = 6 if s["v6"] else 4
                terms.append("{| l_f0 := lf_%d_0; l_loads := %s; l_seed := %s; l_gen := %s; l_lv := %s; l_fam := %s; l_obs := %s |}"
                             % (h, loads, hexs(s["seed"]), gN(s["gen"]), gN(s["lv"]), gN(fam),
                                glist([g_obs(x) for x in (o_s["held"], o_s["fresh"], o_r["held"], o_r["fresh"])])))
                tcases.append((c, i, k, {kk: "station %s | fresh manager %s | registrar %s | fresh selector %s" % tuple(
                    str(x[kk]) for x in (o_s["held"], o_s["fresh"], o_r["held"], o_r["fresh"])) for kk in ("out", "ip", "rp", "err")}))
                if bd.get("seed") and bdf["out"] in b.OUT and s["lv"] == 4:
                    terms.append("{| l_f0 := lf_%d_0; l_loads := %s; l_seed := %s; l_gen := %s; l_lv := %s; l_fam := %s; l_obs := %s |}"
                                 % (h, loads, hexs(bytes.fromhex(bd["seed"])), gN(s["gen"]), gN(s["lv"]), gN(fam), glist([g_obs(bdf)])))
                    tcases.append((c, i, k, bdf))
    return defs, terms, tcases


def grant_oracle(ctx, b, sc, r, name, bc, where, status):
    """address + destination port of a registration: the address obeys the property; a randomised port (anything but
    443) is granted only if a subnet containing the address allows it in the configuration in force"""
    if r["out"] != "ok":
        if r["out"] == "panic":
            b.oracle(ctx, sc, dict(r, rp=False), kp="reload/%s/" % name, case=bc, note=" [%s]" % where)
        return
    granted = r["port"] != 443
    r2 = dict(r, rp=granted)
    if not granted:          # no grant: nothing to justify; give the flag check the flag of a containing group
        for gi, ni in r["contain"] or []:
            r2["rp"] = bool(sc["cfg"]["groups"][gi]["rp"]) if sc["cfg"] else False
            break
    b.oracle(ctx, sc, r2, kp="reload/%s/" % name, case=bc, note=" [%s (%s), destination port %s; %s]" % (name, status, r["port"], where))


REQUIRED = ["life/history",
            "life/station/retired/err", "life/station/added/ok", "life/station/changed/ok", "life/station/kept-after-failed-load/ok",
            "life/station/never/err", "life/station/initial/ok",
            "life/registrar/retired/err", "life/registrar/added/ok", "life/registrar/changed/ok",
            "life/registrar/kept-after-failed-load/ok", "life/registrar/never/err",
            "life/station-ingest/retired/err", "life/station-ingest/added/ok", "life/station-ingest/port-randomised",
            "life/registrar-bdreq/retired/err", "life/registrar-bdreq/added/ok", "life/registrar-bdreq/port-randomised"]


def correspond(ctx, defs, terms, tcases):
    if not terms:
        return
    header = HEADER + "\n".join(defs) + "\n"
    mm = ctx.coq_mismatches("life", header, terms, "chk_life", shard=max(8, (len(terms) + 11) // 12), need_vo=["C14/Run.vo"])
    if mm:
        ctx.cov["mismatches"] += len(mm)
        c, i, k, obs = tcases[mm[0]]
        shown = ctx.coq_show("mmlife", header, "show_life %s" % terms[mm[0]])
        ctx.broken("correspondence-lifecycle", "the lifecycle model (C14.LifeModel.station_run) and the implementation disagree on %d "
                   "selection(s); first: step %d, selection %s: observed %s ; model says %s"
                   % (len(mm), i, {kk: (v.hex() if isinstance(v, bytes) else v) for kk, v in c["sels"][i][k].items()},
                      {kk: obs[kk] for kk in ("out", "ip", "rp", "err")}, shown[-300:]), brief(c, i, k))


# ================================================================ histories over the selector's exported API
def g_groups(cfg):
    b = B()
    return glist(["(mk_group %s %s %s)" % (gN(g["w"] or 0), "None" if g["nets"] is None else "(Some %s)" % glist(g["nets"], b.g_net),
                                           gbool(bool(g["rp"]))) for g in cfg["groups"]])


def api_history(rng):
    cfgs = []

    def cfg(messy=False):
        cfgs.append(life_cfg(rng, messy))
        return len(cfgs) - 1

    def sel(g, lv=None, v6=None):
        return {"k": "select", "gen": g, "seed": bytes(rng.getrandbits(8) for _ in range(16)),
                "lv": rng.choice([0, 1, 2, 3, 4]) if lv is None else lv, "v6": rng.random() < 0.5 if v6 is None else v6}
    init = {7: cfg(), 9: cfg()}
    ops = [sel(7, 2, False), sel(9, 1, True), sel(11),
           {"k": "update", "gen": 7, "cfg": cfg()}, sel(7, 4, False), sel(7, 0, True), sel(9, 2, False),   # changed / untouched
           {"k": "remove", "gen": 9}, sel(9, 3, False), sel(9, 1, True), sel(7, 1, False),                  # removed -> error
           {"k": "add", "igen": 9, "cfg": cfg()}, sel(9, 2, True), sel(10, 2, False), sel(10, 0, True),     # 9 is still taken -> next free
           {"k": "add", "igen": -1, "cfg": cfg()}, sel(11, 4, True), sel(11, 1, False),
           {"k": "add", "igen": 20, "cfg": cfg()}, sel(20, 3, False),
           {"k": "update", "gen": 9, "cfg": cfg()}, sel(9, 4, False), sel(9, 0, True),                      # a removed one comes back
           {"k": "update", "gen": 20, "cfg": None}, sel(20, 2, False)]                                      # nil *SubnetConfig
    known = [7, 9, 10, 11, 20, 21]
    for _ in range(rng.choice([6, 10])):
        r = rng.random()
        g = rng.choice(known)
        if r < 0.2:
            ops.append({"k": "update", "gen": g, "cfg": cfg(messy=rng.random() < 0.2)})
        elif r < 0.35:
            ops.append({"k": "remove", "gen": g})
        elif r < 0.5:
            ops.append({"k": "add", "igen": rng.choice([-1, g, 33, 0]), "cfg": cfg()})
        ops.append(sel(g))
        ops.append(sel(rng.choice(known)))
    return {"op": "api", "init": init, "aops": ops, "cfgs": cfgs, "tag": "api"}


def api_to_json(c):
    b = B()

    def cj(i):
        return None if i is None else b.cfg_json(c["cfgs"][i])
    ops = []
    for o in c["aops"]:
        d = {"k": o["k"], "gen": o.get("gen", 0), "igen": o.get("igen", 0)}
        if o["k"] in ("add", "update"):
            d["cfg"] = cj(o["cfg"])
            d["nil"] = o["cfg"] is None
        if o["k"] == "select":
            d.update(seed=o["seed"].hex(), lv=o["lv"], v6=o["v6"])
        ops.append(d)
    return {"op": "api", "init": {str(g): cj(i) for g, i in c["init"].items()}, "aops": ops}


def api_from_json(d):
    b = B()
    cfgs = []

    def cfg(j):
        if j is None:
            return None
        cfgs.append(b.from_json({"op": "select", "cfg": j, "lv": 0, "v6": False})["cfg"])
        return len(cfgs) - 1
    init = {int(g): cfg(j) for g, j in d["init"].items()}
    ops = []
    for o in d["aops"]:
        n = {"k": o["k"], "gen": o.get("gen", 0), "igen": o.get("igen", 0)}
        if o["k"] in ("add", "update"):
            n["cfg"] = None if o.get("nil") else cfg(o.get("cfg"))
        if o["k"] == "select":
            n.update(seed=bytes.fromhex(o["seed"]), lv=o["lv"], v6=o["v6"])
        ops.append(n)
    return {"op": "api", "init": init, "aops": ops, "cfgs": cfgs, "tag": "api-replay"}


def gen_api(ctx, replayed):
    out = [api_from_json(d) for d in replayed if d.get("op") == "api"]
    for _ in range(2 if ctx.tier == "quick" else 25):
        out.append(api_history(ctx.rng))
    return out


def api_evaluate(ctx, cases, results, h0=0):
    """oracle for the API histories; returns (defs, terms, tcases)"""
    b = B()
    defs, terms, tcases = [], [], []
    for h, (c, r) in enumerate(zip(cases, results)):
        h += h0
        ctx.count(("api", api_to_json(c)), nontrivial=True, kind="api/history")
        for n, cf in enumerate(c["cfgs"]):
            defs.append("Definition ac_%d_%d : list group := %s." % (h, n, g_groups(cf)))
        view = dict(c["init"])              # generation -> index of the configuration last written (None: nil / removed)
        gops, idxs = [], []
        bc = dict(api_to_json(c), tag=c.get("tag"))

        def gent(i):
            return "None" if i is None else "(Some ac_%d_%d)" % (h, i)
        for j, (o, ro) in enumerate(zip(c["aops"], r["first"])):
            if ro["out"] == "panic":
                ctx.fail("api/panic/%s" % o["k"], "op %d (%s) of an API history panicked: %s" % (j, o["k"], ro["err"][:200]), bc)
                break
            if o["k"] == "add":
                u = ro["idx"]
                hist(ctx, "api/add/%s" % ("as-asked" if u == o["igen"] else "next-free"))
                if view.get(u) is not None:
                    ctx.fail("api/add-overwrote-configured-generation", "op %d: AddGeneration(%d) used index %d, which is configured: "
                             "the subnets configured for that generation were overwritten" % (j, o["igen"], u), bc)
                view[u] = o["cfg"]
                idxs.append(u)
                gops.append("AAdd %s %s" % (gZ(o["igen"]), gent(o["cfg"])))
            elif o["k"] == "update":
                view[o["gen"]] = o["cfg"]
                gops.append("AUpdate %s %s" % (gN(o["gen"]), gent(o["cfg"])))
            elif o["k"] == "remove":
                view[o["gen"]] = None
                gops.append("ARemove %s" % gN(o["gen"]))
            else:
                i = view.get(o["gen"])
                cfg = None if i is None else c["cfgs"][i]
                status = "unknown" if o["gen"] not in view else ("removed" if i is None else "configured")
                hist(ctx, "api/select/%s/%s" % (status, ro["out"]))
                sc = {"op": "select", "seed": o["seed"], "cfg": cfg, "lv": o["lv"], "v6": o["v6"], "tag": "api"}
                b.oracle(ctx, sc, ro, kp="api/", case=bc,
                         note=" [op %d of an API history on one selector: generation %d is %s at that point]" % (j, o["gen"], status))
                fr = ro.get("fresh") or {"out": "?", "ip": "", "rp": False}
                if not same(ro, fr):
                    ctx.fail("api/differs-from-fresh-selector", "op %d: Select(generation %d, libver %d, v6 %s, seed %s) answers %s/%s/%s on "
                             "the selector with the history, %s/%s/%s on a selector holding only what was last written for that generation"
                             % (j, o["gen"], o["lv"], o["v6"], o["seed"].hex(), ro["out"], ro["ip"], ro["rp"], fr["out"], fr["ip"], fr["rp"]), bc)
                ctx.count(("api-sel", h, j), nontrivial=True, kind="api-select/lv%d/%s" % (o["lv"], ro["out"]))
                terms.append("{| a_init := %s; a_ops := %s; a_idx := %s; a_seed := %s; a_gen := %s; a_lv := %s; a_fam := %s; a_obs := %s |}"
                             % (glist(sorted(c["init"].items()), lambda kv: "(%s, ac_%d_%d)" % (gN(kv[0]), h, kv[1])),
                                glist(gops), glist(idxs, gN), hexs(o["seed"]), gN(o["gen"]), gN(o["lv"]), gN(6 if o["v6"] else 4),
                                glist([g_obs(x) for x in (ro, fr) if x["out"] in b.OUT])))
                tcases.append((c, j, ro))
    return defs, terms, tcases


API_REQUIRED = ["api/history", "api/add/as-asked", "api/add/next-free", "api/select/configured/ok", "api/select/removed/err",
                "api/select/unknown/err"]


def api_correspond(ctx, defs, terms, tcases):
    if not terms:
        return
    header = HEADER + "\n".join(defs) + "\n"
    mm = ctx.coq_mismatches("api", header, terms, "chk_api", shard=max(8, (len(terms) + 5) // 6), need_vo=["C14/Run.vo"])
    if mm:
        ctx.cov["mismatches"] += len(mm)
        c, j, obs = tcases[mm[0]]
        shown = ctx.coq_show("mmapi", header, "show_api %s" % terms[mm[0]])
        ctx.broken("correspondence-api", "the selector model (C14.LifeModel.arun) and PhantomIPSelector disagree on %d selection(s) of "
                   "API histories; first: op %d: observed %s ; model says %s"
                   % (len(mm), j, {kk: obs[kk] for kk in ("out", "ip", "rp", "err")}, shown[-300:]), dict(api_to_json(c), tag=c.get("tag")))


# ================================================================ reloads while selections are in flight
def conc_case(rng):
    """a monotone sequence of files: every generation's configuration differs from step to step; 2 is retired by the first
    reload and comes back later on other subnets, 3 appears, 1 is retired at the end"""
    c = [life_cfg(rng) for _ in range(9)]
    files = [good_file({1: c[0], 2: c[1]}), good_file({1: c[2]}), good_file({1: c[3], 3: c[4]}),
             good_file({1: c[5], 2: c[6], 3: c[4]}), good_file({2: c[7], 3: c[8]})]
    return {"op": "lifeconc", "files": files, "sels": [sels_for(rng, [1, 2, 3])], "workers": 4, "rounds": 2, "tag": "lifeconc"}


def gen_conc(ctx, replayed=()):
    out = [from_json(d) for d in replayed if d.get("op") == "lifeconc" and len(d.get("files", [])) >= 2]
    return out + [conc_case(ctx.rng) for _ in range(1 if ctx.tier == "quick" else 6)]


def go_run_conc(ctx, cases, race=False):
    """own processes: a reload that writes into the live map makes the Go runtime abort the whole test binary"""
    js = [to_json(c) for c in cases]

    def station():
        return ctx.go_inpkg(".", "pkg/station/lib", {"zz_verif_c14_driver_test.go": "c14/lifecycle_driver_test.go"},
                            "^TestVerifC14Lifecycle$", js, timeout=900, race=race)

    def registrar():
        return ctx.go_inpkg(".", "pkg/regserver/regprocessor", {"zz_verif_c14_driver_test.go": "c14/registrar_driver_test.go"},
                            "^TestVerifC14Registrar$", js, timeout=900, race=race)
    # the two runs differ in their -run pattern, which names their scratch files: they can run side by side
    with ThreadPoolExecutor(max_workers=2) as ex:
        fs, fr = ex.submit(station), ex.submit(registrar)
        return fs.result(), fr.result()


def conc_evaluate(ctx, cases, sres, rres, race=False):
    for (rc, out, res), name, entry in ((sres, "station", "GetPhantomSelector().Select during OnReload"),
                                        (rres, "registrar", "processBdReq (both families) during ReloadSubnets")):
        bc = [dict(to_json(c), tag=c.get("tag")) for c in cases]
        if race and "DATA RACE" in out:
            i = out.index("DATA RACE")
            ctx.fail("reload/%s/data-race" % name, "the race detector reports a data race between a reload and selections in flight "
                     "(%s): %s" % (entry, out[i:i + 900]), {"cases": bc})
        if res is None or len(res) != len(cases):
            if "concurrent map" in out:
                i = out.index("concurrent map")
                ctx.fail("reload/%s/crash-under-concurrent-reload" % name, "the %s process aborts when a reload runs while selections are "
                         "in flight (%s): %s" % (name, entry, out[max(0, i - 60):i + 300]), {"cases": bc})
            else:
                ctx.broken("driver-lifeconc-" + name, "the %s concurrent-reload driver did not produce results (rc=%s): %s"
                           % (name, rc, out[-1500:]))
            continue
        for c, r, b1 in zip(cases, res, bc):
            if r.get("stage") != "ok":
                ctx.broken("driver-lifeconc-" + name, "%s concurrent-reload run: stage %s" % (name, r.get("stage")), b1)
                continue
            n = len(c["files"])
            ctx.count(("lifeconc", name, to_json(c), r["ops"]), nontrivial=True, kind="lifeconc/%s/run" % name)
            for w, segs in enumerate(r["workers"]):
                lb, steps = 0, 0
                for sg in segs:
                    s = c["sels"][0][sg["sel"]]
                    ks = [k for k in range(n) if sg["mask"] >> k & 1]
                    who = "%s, worker %d, generation %d, libver %d%s, seed %s" % (
                        entry, w, s["gen"], s["lv"], "" if name == "registrar" else ", v6 %s" % s["v6"], s["seed"].hex())
                    fresh = [r["fresh"][k][sg["sel"]] for k in range(n)]
                    if not ks:
                        ctx.fail("reload/%s/concurrent-selection-from-no-configuration" % name,
                                 "%s, while reloads take the files 0..%d in order: answered %s, which is the answer under none of them "
                                 "(%s) -- not the pure function of any configuration that was in force" % (who, n - 1, sg["ans"], fresh), b1)
                        break
                    cand = [k for k in ks if k >= lb]
                    if not cand:
                        ctx.fail("reload/%s/selection-from-a-replaced-configuration" % name,
                                 "%s: answered %s, the answer under file(s) %s only, after this same worker had already been answered "
                                 "from file %d, which replaced them (answers per file: %s) -- the configuration in force is the file of "
                                 "the last successful load" % (who, sg["ans"], ks, lb, fresh), b1)
                        break
                    if min(cand) > lb:
                        steps += 1
                    lb = min(cand)
                hist(ctx, "lifeconc/%s/%s" % (name, "reload-observed-mid-run" if steps else "no-reload-observed"))


CONC_REQUIRED = ["lifeconc/station/run", "lifeconc/registrar/run", "lifeconc/station/reload-observed-mid-run",
                 "lifeconc/registrar/reload-observed-mid-run"]
