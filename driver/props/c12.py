"""C12 — what the registrar tells the client is what it tells the stations, unforgeably."""
import ipaddress
import math
from fractions import Fraction

from lib import gN, gbool, glist, gopt, hexs

HEADER = "From CJ Require Import Common.Base C12.Model C12.Run.\n"
PKG = "pkg/regserver/regprocessor"
FILES = {"zz_verif_driver_test.go": "c12/c12_driver_test.go", "zz_verif_c12_core.go": "c12/c12_core.go"}
EXTRA = {"pkg/station/lib/zz_verif_export_c12.go": "c12/lib_export.go"}
EXTRA_FE = dict(EXTRA, **{"pkg/regserver/regprocessor/zz_verif_c12_core.go": "c12/c12_core.go"})

V4POOL = ["9.8.7.6", "192.0.2.55", "10.1.0.9", "10.2.3.4", "203.0.113.200", "255.255.255.7", "1.0.0.1"]
V6POOL = ["fd00::1", "2001:db8::77", "2001:48a8:687f:1::5"]
CIDRS = ["0.0.0.0/0", "10.1.0.0/24", "10.2.0.0/16", "10.2.3.0/28", "172.16.5.4/32", "172.16.5.6/31", "100.64.0.0/10", "11.0.0.0/8",
         "255.255.255.0/24", "198.51.100.128/25"]
EXCL = ["192.0.2.0/24", "10.1.0.0/28", "9.8.0.0/16", "203.0.113.0/24", "2001:db8::/32"]
ERR = {"": 0, "noc2s": 1, "procfailed": 2, "secret": 3, "other": 4}


def threshold(p):
    """validateOverridePercentages as an integer threshold on the draw 0..9999 (used for steering only)"""
    if p > 100.0 or p < 0.0:
        return 5000
    return int(math.floor(p * 100 + 0.5))


def gen_params(rng, transport):
    r = rng.random()
    if r < 0.08:
        return {"kind": "none"}
    if r < 0.13:
        return {"kind": "raw", "url": rng.choice(["", "type.googleapis.com/proto.Bogus", "type.googleapis.com/proto.GenericTransportParams"]),
                "val": bytes(rng.getrandbits(8) for _ in range(rng.randrange(0, 6))).hex()}
    want_prefix = transport == 4
    if rng.random() < 0.04:
        want_prefix = not want_prefix
    if want_prefix:
        return {"kind": "prefix", "randomize": rng.choice([True, False, None]), "prefix_id": rng.choice([0, 1, 2, 3, 5, 8, 9, 9, 0, 1, 2, 3, 5, 8, 42, -1])}
    return {"kind": "generic", "randomize": rng.choice([True, False, None])}


def gen_resp(rng):
    return {"v4": rng.choice([None, 0x01020304, 0, 0x0a010005]),
            "v6": rng.choice([None, "fd0000000000000000000000000000ee", "fd0000000000000000000000000000ee", "0102", "00000000000000000000ffff01020304"]),
            "port": rng.choice([None, 22, 443, 70000]), "params": rng.choice([None, {"kind": "generic", "randomize": True},
                                                                             {"kind": "prefix", "prefix_id": 2}])}


def gen_subnets(rng, n, transports):
    out = []
    for _ in range(n):
        cidr = rng.choice(CIDRS) if rng.random() < 0.93 else "2001:db8:5::/48"
        out.append({"cidr": cidr, "weight": rng.choice([1, 1, 2, 0.5, 3.25, 0, 10, 0.1]), "port": rng.choice([443, 80, 1111, 65535] * 14 + [65536, 70000]),
                    "transport": rng.choice(transports), "prefix_id": rng.choice([0, 1, 2, 5, 9, 9, 42])})
    return out


def addr_variants(rng):
    return rng.choice([None, "c0000207", "00000000000000000000ffffc0000207", "20010db8000000000000000000000009", "", "0a"])


def gen_case(rng, steer=True):
    transport = rng.choice([1, 1, 1, 1, 1, 4, 4, 4, 4, 4, 2, 0])
    tnames = ["Min_Transport", "Prefix_Transport"]
    focus = "Min_Transport" if transport == 1 else "Prefix_Transport"
    cfg = {
        "auth": rng.random() < 0.6,
        "overrides": rng.choice(["none", "rand", "rand", "rand", "fixed:2", "fixed:9", "fixed:77"]),
        "transports": rng.choice([[1, 4]] * 8 + [[1], [4]]),
        "enforce": rng.random() < 0.75,
        "subnets": gen_subnets(rng, rng.choice([0, 1, 2, 3, 4]), [focus, focus, focus] + tnames + ["Obfs4_Transport"]),
        "exclusions": rng.sample(EXCL, rng.choice([0, 0, 1, 2])),
        "pmin": rng.choice([100, 100, 50, 0, 33.33, 99.99, 0.01, 150, -3]),
        "pprefix": rng.choice([100, 100, 50, 0, 33.33, 99.99, 0.01, 150, -3]),
        "send_ok": rng.random() < 0.97,
    }
    sel = {"v4": rng.choice(V4POOL) if rng.random() < 0.97 else "0.0.0.0", "rand4": rng.random() < 0.7, "err4": rng.random() < 0.02,
           "v6": rng.choice(V6POOL), "rand6": rng.random() < 0.7, "err6": rng.random() < 0.02}
    secret = bytes(rng.getrandbits(8) for _ in range(rng.choice([32] * 14 + [16, 8, 7, 4, 0])))
    req = {
        "secret": secret.hex(), "payload": rng.random() < 0.95,
        "v4": rng.random() < 0.8, "v6": rng.random() < 0.6, "transport": transport, "params": gen_params(rng, transport),
        "disable_ov": rng.choice([None, False, False, True]), "libver": rng.choice([4] * 8 + [3, 3, 2, 0, 7]), "gen": rng.choice([0, 1, 2, 3, 3, 99]),
        "forged_resp": gen_resp(rng) if rng.random() < 0.4 else None,
        "forged_bytes": rng.choice([None, None, "0a04deadbeef", ""]), "forged_sig": rng.choice([None, None, "00" * 64, "ff"]),
        "source": rng.choice([None, None, 0, 4, 2, 6, 1]), "addr": addr_variants(rng),
    }
    kind = "uni" if rng.random() < 0.15 else "bd"
    c = {"kind": kind, "cfg": cfg, "sel": sel, "req": req,
         "client_addr": rng.choice([None, "00000000000000000000ffffc6336401", "00000000000000000000ffffc6336401", "c6336401", "20010db8000000000000000000000001"]),
         "method": rng.choice([4, 4, 6, 2, 5]), "seed": rng.randrange(1, 1 << 31), "pre": "",
         "station": {"v4": rng.random() < 0.9, "v6": rng.random() < 0.9, "transports": rng.choice([[1, 4], [1, 4], [1, 4], [1]])}}
    if steer and kind == "bd" and rng.random() < 0.5:
        # steer the percentage gate to its boundaries: the first draw after the override's own draw
        r = threshold(cfg["pmin"] if transport == 1 else cfg["pprefix"])
        gate = max(0, min(9999, rng.choice([r - 1, r, 0, 9999, r - 1, r])))
        pre = b""
        if cfg["overrides"] == "rand" and transport == 4 and req["payload"] and not req["disable_ov"]:
            pre += b"\x00"
        c["pre"] = (pre + gate.to_bytes(2, "big")).hex()
    return c


def make_valid(rng, c):
    """remove the usual reasons for a rejection (the subnet / override / family variety stays)"""
    q = c["req"]
    q["secret"] = bytes(rng.getrandbits(8) for _ in range(32)).hex()
    q["payload"] = True
    q["transport"] = rng.choice([1, 4])
    q["params"] = {"kind": "prefix", "randomize": rng.choice([True, False]), "prefix_id": rng.choice([0, 1, 2, 5])} if q["transport"] == 4 \
        else rng.choice([{"kind": "generic", "randomize": True}, {"kind": "generic", "randomize": False}, {"kind": "none"}])
    q["libver"] = 4
    c["cfg"]["transports"] = [1, 4]
    c["cfg"]["send_ok"] = True
    if c["cfg"]["overrides"] == "fixed:77":
        c["cfg"]["overrides"] = "rand"
    c["sel"]["err4"] = c["sel"]["err6"] = False
    return c


def port_cases(rng):
    """override subnets whose configured port does not fit in 16 bits"""
    out = []
    for port in (65536, 70000, 65535 + 443 + 1):
        for transport, tname in ((4, "Prefix_Transport"), (1, "Min_Transport")):
            c = make_valid(rng, gen_case(rng, steer=False))
            c["kind"], c["fe"] = "bd", ""
            c["cfg"].update({"enforce": True, "exclusions": [], "pmin": 100, "pprefix": 100, "overrides": "none",
                             "subnets": [{"cidr": "10.1.0.0/24", "weight": 1, "port": port, "transport": tname, "prefix_id": 1}]})
            q = c["req"]
            q.update({"transport": transport, "v4": True, "disable_ov": None, "gen": 1, "addr": None,
                      "params": {"kind": "prefix", "prefix_id": 1} if transport == 4 else {"kind": "generic"}})
            c["client_addr"], c["station"] = "c6336401", {"v4": True, "v6": True, "transports": [1, 4]}
            out.append(c)
    return out


def fe_case(rng, fe):
    c = gen_case(rng)
    if rng.random() < 0.6:
        make_valid(rng, c)
    c["fe"] = fe
    q = c["req"]
    if fe == "api":
        c["server_gen"] = rng.choice([None, 0, 2, 2, 5, 1000])
        c["client_addr"] = rng.choice(["00000000000000000000ffffc6336401", "c6336401", "20010db8000000000000000000000001", "c6336401", None])
        c["method"] = 4 if c["kind"] == "bd" else 2
        if rng.random() < 0.08:
            q["secret"] = ""          # short body (less than 33 bytes) when there is no payload either
            q["payload"] = rng.random() < 0.5
    else:
        c["server_gen"] = rng.choice([0, 2, 2, 5, 1000])
        c["client_addr"] = None
        q["source"] = rng.choice([6, 6, 6, 6, 5, None, 4])
        c["kind"] = "bd" if q["source"] == 6 else "uni"
        c["method"] = 6 if c["kind"] == "bd" else 5
    return c


WEIGHTS = [("10.1.0.0/24", 1), ("11.0.0.0/8", 2.5), ("172.16.5.6/31", 1), ("198.51.100.128/25", 1)]


def weight_cases(rng, n, pcts=(100, 30, 50, 80), keep=40):
    """many requests against one configuration with several positively weighted subnets, for override percentages
    below 100 as well: the reachability search, and the deterministic check that the weighted choice follows the draw
    math/rand.Float64 (pinned by the seed, reported by the driver) independently of the draw that decides WHETHER to
    override.  Only the first `keep` cases of a group are also compared with the Coq model (the others are search only)."""
    out = []
    for pct in pcts:
        for transport, tname in ((1, "Min_Transport"), (4, "Prefix_Transport")):
            subs = [{"cidr": c, "weight": w, "port": 443 + i, "transport": tname, "prefix_id": i + 1} for i, (c, w) in enumerate(WEIGHTS)]
            for j in range(n if pct == 100 else int(n * 100 / pct)):
                out.append({"kind": "bd", "group": "weights/t%d/p%d" % (transport, pct), "noterm": j >= keep,
                            "cfg": {"auth": False, "overrides": "none", "transports": [1, 4], "enforce": True, "subnets": subs, "exclusions": [],
                                    "pmin": pct, "pprefix": pct, "send_ok": True},
                            "sel": {"v4": "9.8.7.6", "rand4": True, "err4": False, "v6": "fd00::1", "rand6": True, "err6": False},
                            "req": {"secret": bytes(rng.getrandbits(8) for _ in range(32)).hex(), "payload": True, "v4": True, "v6": j % 2 == 0,
                                    "transport": transport, "params": {"kind": "prefix", "prefix_id": 1} if transport == 4 else {"kind": "generic"},
                                    "disable_ov": None, "libver": 4, "gen": 1, "forged_resp": None, "forged_bytes": None, "forged_sig": None,
                                    "source": None, "addr": None},
                            "client_addr": "00000000000000000000ffffc6336401", "method": 4, "seed": rng.randrange(1, 1 << 31), "pre": "",
                            "station": {"v4": True, "v6": True, "transports": [1, 4]}})
    return out


HOSTBITS = ["192.0.2.200/24", "10.2.3.77/28", "198.51.100.129/25", "172.16.5.7/31", "100.127.255.255/10", "11.255.255.254/8"]
HOSTBITS_EXCL = ["9.8.7.6/16", "2001:db8::1/32"]


def has_host_bits(cidr):
    i = ipaddress.ip_interface(cidr)
    return i.ip != i.network.network_address


def hostbits_cases(rng, per=6):
    """the registrar's configuration WRITTEN AS TOML and decoded by the real path (BurntSushi toml -> Subnet /
    Ipnet.UnmarshalText -> NewRegProcessorNoAuth), with CIDRs whose host bits are set in override_subnet and in
    excluded_subnet_from_overrides: such a text denotes the network obtained by masking the written address.  One subnet
    per configuration (so every override uses it), override percentage 100; the selected phantom alternates between an
    address outside the exclusions (must be substituted, inside the denoted network) and one inside the host-bit
    exclusion 9.8.7.6/16 (must be kept)."""
    out = []
    written = list(HOSTBITS)
    while len(written) < len(HOSTBITS) + 2:      # random variation: any address / length with a host bit set
        plen = rng.randrange(4, 31)
        a = rng.randrange(1 << 24, 224 << 24) | (1 << rng.randrange(0, 32 - plen))
        written.append("%s/%d" % (ipaddress.IPv4Address(a), plen))
    for transport, tname in ((1, "Min_Transport"), (4, "Prefix_Transport")):
        for w in written:
            subs = [{"cidr": w, "weight": rng.choice([1, 2, 0.5]), "port": 443, "transport": tname, "prefix_id": 1}]
            cfg = {"auth": False, "overrides": "none", "transports": [1, 4], "enforce": True, "subnets": subs,
                   "exclusions": HOSTBITS_EXCL[:rng.choice([1, 2])], "pmin": 100, "pprefix": 100, "send_ok": True, "toml": True}
            for j in range(per):
                out.append({"kind": "bd", "group": None, "cfg": cfg,
                            "sel": {"v4": "9.8.200.1" if j % 3 == 2 else "1.0.0.1", "rand4": True, "err4": False, "v6": "fd00::1", "rand6": True, "err6": False},
                            "req": {"secret": bytes(rng.getrandbits(8) for _ in range(32)).hex(), "payload": True, "v4": True, "v6": j % 2 == 0,
                                    "transport": transport, "params": {"kind": "prefix", "prefix_id": 1} if transport == 4 else {"kind": "generic"},
                                    "disable_ov": None, "libver": 4, "gen": 1, "forged_resp": None, "forged_bytes": None, "forged_sig": None,
                                    "source": None, "addr": None},
                            "client_addr": "00000000000000000000ffffc6336401", "method": 4, "seed": rng.randrange(1, 1 << 31), "pre": "",
                            "station": {"v4": True, "v6": True, "transports": [1, 4]}})
    return out


def seq_cases(rng, nseq, length, base_id):
    """sequences of bidirectional registrations on ONE processor (built once by the real constructor): the configured
    subnets the oracle uses are the generated ones, never read back from the processor"""
    out = []
    for k in range(nseq):
        transport = (1, 4)[k % 2] if k < 2 else rng.choice([1, 4])   # both transports in every run, whatever the seed (generator self-test)
        tname = "Min_Transport" if transport == 1 else "Prefix_Transport"
        cidrs = rng.sample(["10.1.0.0/24", "10.2.3.0/28", "172.16.5.6/31", "198.51.100.128/25", "100.64.0.0/10", "255.255.255.0/24"], rng.choice([1, 2, 3]))
        subs = [{"cidr": c, "weight": rng.choice([1, 2, 0.5]), "port": rng.choice([443, 80, 1111]), "transport": tname, "prefix_id": rng.choice([1, 2, 5])}
                for c in cidrs]
        cfg = {"auth": rng.random() < 0.5, "overrides": rng.choice(["none", "rand"]), "transports": [1, 4], "enforce": True, "subnets": subs,
               "exclusions": rng.sample(EXCL, rng.choice([0, 1])), "pmin": rng.choice([100, 100, 80]), "pprefix": rng.choice([100, 100, 80]), "send_ok": True}
        for j in range(length):
            c = make_valid(rng, gen_case(rng, steer=False))
            c["kind"], c["fe"], c["seq_id"], c["group"] = "bd", "", base_id + k, None
            c["cfg"] = cfg
            q = c["req"]
            q.update({"transport": transport, "v4": True, "disable_ov": None, "gen": 1, "addr": None,
                      "params": {"kind": "prefix", "prefix_id": 1} if transport == 4 else {"kind": "generic"}})
            c["sel"]["v4"] = rng.choice(["9.8.7.6", "1.0.0.1", "203.0.113.200"])
            c["client_addr"], c["station"] = "c6336401", {"v4": True, "v6": True, "transports": [1, 4]}
            out.append(c)
    return out


def expected_subnet(subs, f_num):
    """index of the subnet the weighted choice must pick for the draw f = f_num / 2^53 (exact rationals);
    None when f is within 1e-9 of an interval boundary (float rounding of the table) or no subnet matches"""
    f = Fraction(f_num, 1 << 53)
    tot = sum(Fraction(x["weight"]) for x in subs)
    if tot <= 0:
        return None
    acc = Fraction(0)
    for i, x in enumerate(subs):
        acc += Fraction(x["weight"])
        if abs(f - acc / tot) < Fraction(1, 10 ** 9):
            return None
        if f < acc / tot:
            return i
    return None


# ------------------------------------------------------------------ Gallina emitters
def gb(h):
    """hex string / None -> option bytes"""
    return gopt(h, lambda x: hexs(bytes.fromhex(x)))


_CANON = {}


def gcanon(s):
    """canonical parameter strings are opaque to the model (only equality matters): within one case each distinct
    string is replaced by a short identifier"""
    if s is None:
        return "None"
    if s not in _CANON:
        _CANON[s] = len(_CANON) + 1
    return "(Some [%d])" % _CANON[s]


def gview(v):
    if v is None:
        return "None"
    return "(Some (mkResp %s %s %s %s))" % (gopt(v["v4"], gN), gb(v["v6"]), gopt(v["port"], gN), gcanon(v["params"]))


def params_canon_guess(p):
    return None  # the canonical form of client-made messages is taken from the driver's observation


def gsubnet(s, scale):
    net = ipaddress.ip_network(s["cidr"], strict=False)
    w = Fraction(s["weight"]) * scale
    assert w.denominator == 1
    if net.version == 4:
        # the model's parsing step (cidr_of_text) gets the address AS WRITTEN
        return "(sub_of_text %s %s %s %s)" % (gN(int(ipaddress.ip_interface(s["cidr"]).ip)), gN(net.prefixlen), gN(int(w)), gN(s["port"]))
    return "(mkSub false 0 %s %s %s)" % (gN(net.prefixlen), gN(int(w)), gN(s["port"]))


def gsubnets(subs):
    if not subs:
        return "[]"
    scale = 1
    for s in subs:
        scale = scale * Fraction(s["weight"]).denominator // math.gcd(scale, Fraction(s["weight"]).denominator)
    return glist(subs, lambda s: gsubnet(s, scale))


def ip4(s):
    return int(ipaddress.IPv4Address(s))


def gcase(c, r):
    _CANON.clear()
    cfg, q, o = c["cfg"], c["req"], r["or"]
    mins = [s for s in cfg["subnets"] if s["transport"] == "Min_Transport"]
    prefs = [s for s in cfg["subnets"] if s["transport"] == "Prefix_Transport"]
    others = [s_ for s_ in cfg["subnets"] if s_["transport"] not in ("Min_Transport", "Prefix_Transport")]
    gcfg = "(mkCfg %s %s %s %s %s %s %s %s %s %s %s)" % (
        gbool(cfg["auth"]), gbool(cfg["overrides"] != "none"), glist(cfg["transports"], gN), gbool(cfg["enforce"]),
        gsubnets(mins), gsubnets(prefs),
        glist([{"cidr": e, "weight": 0, "port": 0} for e in cfg["exclusions"]], lambda s: gsubnet(s, 1)),
        gN(o["rmin"]), gN(o["rprefix"]), gbool(cfg["send_ok"]), gsubnets(others))
    fwdo = r["fwd"]
    req_params = o["req_params"] if fwdo and fwdo["has_payload"] else o["orig_params"]
    if q["payload"]:
        payload = "(Some (mkC2S %s %s %s %s %s %s %s))" % (gbool(q["v4"]), gbool(q["v6"]), gN(q["transport"]), gcanon(req_params),
                                                        gbool(bool(q["disable_ov"])), gN(q["libver"]), gN(q["gen"]))
    else:
        payload = "None"
    fr = q["forged_resp"]
    if c["kind"] == "st":
        gforged = gview(fwdo["resp"]) if fwdo else "None"     # the response the station is handed, parameters included
    else:
        gforged = "None" if fr is None else "(Some (mkResp %s %s %s None))" % (gopt(fr["v4"], gN), gb(fr["v6"]), gopt(fr["port"], gN))
    greq = "(mkReq %s %s %s %s %s %s %s)" % (hexs(bytes.fromhex(q["secret"])), payload, gforged, gb(q["forged_bytes"]), gb(q["forged_sig"]),
                                           gN(q["source"] or 0), gb(q["addr"]))
    sel = c["sel"]
    e4 = "None" if sel["err4"] else "(Some (%s, %s))" % (gN(ip4(sel["v4"])), gbool(sel["rand4"]))
    e6 = "None" if sel["err6"] else "(Some (%s, %s))" % (hexs(ipaddress.IPv6Address(sel["v6"]).packed), gbool(sel["rand6"]))
    ov = "(Some None)"
    if o["ov_called"]:
        ov = "None" if o["ov_err"] else "(Some %s)" % gcanon(o["ov_params"])
    genv = "(mkEnv %s %s %s %s %s %s %s %s %s)" % (
        e4, e6, gbool(o["parse_ok"]), gopt(o["dstport"], gN), ov, glist(o["chunks"] or [], lambda h: hexs(bytes.fromhex(h))),
        gN(o["f_num"]), gN(1 << 53), glist(o["subnet_params"] or [], gcanon))
    # station: NewRegistration observed by running the station on the forwarded message with the response stripped
    # (client's parameters) and reduced to its parameters (response's parameters)
    st = c["station"]
    addr = bytes.fromhex(fwdo["addr"]) if fwdo and fwdo["addr"] is not None else bytes(16)
    is4 = len(addr) == 4 or (len(addr) == 16 and addr[:12] == bytes(10) + b"\xff\xff")
    fam4 = bool(q["payload"] and q["v4"] and st["v4"] and is4)
    fam6 = bool(q["payload"] and q["v6"] and st["v6"])

    def own_pair(run):
        if not run or run["err"]:
            return "(None, None)"
        regs = list(run["regs"] or [])
        out = []
        for fam in (fam4, fam6):
            if fam and regs:
                g = regs.pop(0)
                out.append("(Some (%s, %s, %s))" % (hexs(bytes.fromhex(g["phantom"])), gN(g["port"]), gcanon(g["params"])))
            else:
                out.append("None")
        return "(%s, %s)" % tuple(out)
    resp_params = fwdo["resp"]["params"] if fwdo and fwdo["resp"] else None
    gst = "(mkSt %s %s (mk_new_reg %s %s %s %s))" % (
        gbool(st["v4"]), gbool(st["v6"]), gcanon(req_params), own_pair(r["station_own"]), gcanon(resp_params), own_pair(r["station_own2"]))
    # observation
    if r["ctor_err"]:
        code = 6
    elif r["panic"]:
        code = 5
    else:
        code = ERR.get(r["err"], 4)
    if fwdo is None:
        gfwd = "None"
    else:
        gfwd = "(Some (mkFO %s %s %s %s %s %s %s %s %s %s %s %s %s %s))" % (
            hexs(bytes.fromhex(fwdo["secret"])), gbool(fwdo["has_payload"]), gbool(fwdo["payload_eq"]), gview(fwdo["resp"]), gview(fwdo["signed"]),
            gbool(fwdo["has_bytes"]), gbool(fwdo["has_sig"]), gbool(fwdo["sig_ok"]), gbool(fwdo["bytes_ok"]), gopt(fwdo["source"], gN),
            gb(fwdo["addr"]), gb(fwdo["decoy_addr"]), gbool(fwdo["unknown"]), gopt(r.get("fwd_gen"), gN))
    if r["station"] is None:
        gstat = "None"
    elif r["station"]["err"]:
        gstat = "(Some None)"
    else:
        gstat = "(Some (Some %s))" % glist(r["station"]["regs"] or [], lambda g: "(%s, %s, %s)" % (
            hexs(bytes.fromhex(g["phantom"])), gN(g["port"]), gcanon(g["params"])))
    fe = c.get("fe") or ""
    status, cc = 0, None
    caddr = c["client_addr"]
    if fe == "api":
        status, cc = r["status"], r["cc_gen"]
        caddr = api_remote(caddr)
    elif fe == "dns":
        if r["status"] != 0 and code == 0:
            code = 4                                  # processRequest itself failed: never expected
        status, cc = (1 if r["success"] else 0), (None if r["outdated"] is None else (1 if r["outdated"] else 0))
        caddr = None
    gobs = "(mkObs %s %s %s %s %s %s %s %s)" % (gN(code), gview(r["resp"]), gbool(r["sent"] > 0), gfwd, gstat,
                                                 gN(status), gopt(cc, gN), gbool(r["resp_extra"]))
    return "(mkCase %s %s %s %s %s %s %s %s %s %s %s)" % (
        gN({"bd": 0, "uni": 1, "st": 2}[c["kind"]]), gN({"": 0, "api": 1, "dns": 2}[fe]), gopt(c.get("server_gen"), gN), gN(r["body_len"]),
        gcfg, greq, gb(caddr), gN(c["method"]), genv, gst, gobs)


def api_remote(h):
    """the API handler's view of the client address: RemoteAddr parsed and widened to 16 bytes; None = no address"""
    if h is None:
        return None
    b = bytes.fromhex(h)
    if len(b) == 4:
        return (bytes(10) + b"\xff\xff" + b).hex()
    if len(b) == 16:
        return h
    return None


# ------------------------------------------------------------------ direct oracle
def in_net(cidr, a):
    net = ipaddress.ip_network(cidr, strict=False)
    return net.version == 4 and ipaddress.IPv4Address(a) in net


def view_eq(a, b):
    return a is not None and b is not None and all(a[k] == b[k] for k in ("v4", "v6", "port", "params"))


def short(c):
    q = c["req"]
    return "kind=%s transport=%s v4=%s v6=%s disable=%s overrides=%s enforce=%s seed=%d" % (
        c["kind"], q["transport"], q["v4"], q["v6"], q["disable_ov"], c["cfg"]["overrides"], c["cfg"]["enforce"], c["seed"])


def oracle(ctx, c, r):
    q, cfg, fw = c["req"], c["cfg"], r["fwd"]
    if r["ctor_err"]:
        return "ctor-rejected"
    if r["panic"]:
        # panics at these entry points belong to C11; here they only make the case useless
        return "panic"
    if c["kind"] == "st":
        st = r["station"]
        if st is not None and not st["err"] and q["disable_ov"]:
            for g in st["regs"] or []:
                if r["or"]["st_parse_req"]["ok"] and g["params"] != r["or"]["st_parse_req"]["params"]:
                    ctx.fail("station-override-when-disabled", "the station replaced the client's transport parameters although the client "
                             "disabled registrar overrides: %s" % short(c), c)
        return "st/" + ("err" if st is None or st["err"] else "regs%d" % len(st["regs"] or []))
    fe = c.get("fe") or ""
    if fe:
        ok = (r["status"] in (200, 204)) if fe == "api" else bool(r["success"])
        if r["resp_extra"]:
            ctx.fail("frontend-altered-response", "the %s front end returned a registration response with fields the processor did not set: %s"
                     % (fe, short(c)), c)
        if fe == "api" and c["kind"] == "bd" and ok:
            gen = q["gen"] if q["payload"] else 0
            want = c["server_gen"] if (c["server_gen"] is not None and gen < c["server_gen"]) else None
            if r["cc_gen"] != want:
                ctx.fail("frontend-clientconf", "API front end attached ClientConf generation %s, expected %s: %s" % (r["cc_gen"], want, short(c)), c)
        if not ok:
            if r["sent"]:
                ctx.fail("sent-on-error", "the %s front end reported failure to the client but the registration was published: %s" % (fe, short(c)), c)
            return "%s/%s/rejected" % (fe, c["kind"])
        if c["kind"] == "bd" and r["resp"] is None:
            ctx.fail("frontend-no-response", "the %s front end reported success without a registration response: %s" % (fe, short(c)), c)
            return "%s/bd/ok" % fe
    if c["kind"] == "uni":
        if fw is not None and (fw["resp"] is not None or fw["has_bytes"] or fw["has_sig"]):
            ctx.fail("forged-copied/uni", "a unidirectional registration was forwarded with a registration response / signature "
                     "(client-supplied fields copied through): %s" % short(c), c)
        return (fe + "/" if fe else "") + "uni/" + ("sent" if r["sent"] else "rejected")
    if r["err"]:
        if r["sent"]:
            ctx.fail("sent-on-error", "the registrar returned an error to the client but published the registration: %s" % short(c), c)
        return "bd/err-" + r["err"]
    rv = r["resp"]
    if fw is None or not view_eq(rv, fw["resp"]):
        ctx.fail("views-differ", "the response returned to the client %s differs from the one forwarded to the stations %s: %s"
                 % (rv, fw and fw["resp"], short(c)), c)
        return "bd/ok"
    if fw["has_bytes"] != cfg["auth"] or fw["has_sig"] != cfg["auth"] or (fw["has_bytes"] and not (fw["sig_ok"] and fw["bytes_ok"] and view_eq(rv, fw["signed"]))):
        ctx.fail("forged-copied/bd", "signature fields of the forwarded message are not the registrar's own over the returned response "
                 "(auth=%s has_bytes=%s sig_ok=%s bytes_ok=%s): %s" % (cfg["auth"], fw["has_bytes"], fw["sig_ok"], fw["bytes_ok"], short(c)), c)
    disabled = bool(q["disable_ov"])
    if disabled and rv["params"] is not None:
        ctx.fail("override-when-disabled", "the client disabled registrar overrides but the response carries transport parameters: %s" % short(c), c)
    # substituted phantom
    sel4 = ip4(c["sel"]["v4"])
    tname = {1: "Min_Transport", 4: "Prefix_Transport"}.get(q["transport"])
    substituted = rv["v4"] is not None and (not q["v4"] or rv["v4"] != sel4)
    if q["v4"] and any(in_net(e, sel4) for e in cfg["exclusions"]) and rv["v4"] != sel4:
        ctx.fail("excluded-replaced", "the selected phantom %s lies in an excluded subnet but was replaced by %s: %s"
                 % (c["sel"]["v4"], rv["v4"], short(c)), c)
    if substituted:
        ok = cfg["enforce"] and any(s["transport"] == tname and s["weight"] > 0 and in_net(s["cidr"], rv["v4"]) for s in cfg["subnets"])
        if not ok:
            hb = any(s["transport"] == tname and has_host_bits(s["cidr"]) for s in cfg["subnets"])
            ctx.fail("override-outside-subnet" + ("/host-bits" if hb else ""), "the substituted phantom %s is not inside an override subnet (weight > 0) configured for %s: %s"
                     % (ipaddress.IPv4Address(rv["v4"]), tname, short(c)), c)
        if q["transport"] == 4 and disabled:
            ctx.fail("override-when-disabled", "Prefix phantom/port/parameters substituted although the client disabled overrides: %s" % short(c), c)
    # the station's view of exactly those bytes
    st = r["station"]
    if st is not None and not st["err"]:
        eff = r["or"]["st_parse_resp"] if (rv["params"] is not None and not disabled) else r["or"]["st_parse_req"]
        for g in st["regs"] or []:
            ph = bytes.fromhex(g["phantom"]) if not g["phantom"].startswith("panic") else b""
            is_v4reg = len(ph) == 4
            want = None
            if is_v4reg and rv["v4"]:
                want = rv["v4"].to_bytes(4, "big")
            elif not is_v4reg and rv["v6"] is not None:
                want = bytes.fromhex(rv["v6"])
            bad = []
            if want is not None and ph != want:
                bad.append("phantom %s != %s" % (ph.hex(), want.hex()))
            if rv["port"] is not None and g["port"] != rv["port"]:
                bad.append("port %s != %s" % (g["port"], rv["port"]))
            if eff["ok"] and g["params"] != eff["params"]:
                bad.append("params %s != %s" % (g["params"], eff["params"]))
            if bad:
                key = "station-view-differs"
                if len(bad) == 1 and bad[0].startswith("port") and rv["port"] >= 65536:
                    key += "/port>=65536"
                ctx.fail(key, "a station ingesting the forwarded message ends up with %s: %s" % ("; ".join(bad), short(c)), c)
    if fe:
        return "%s/bd/ok" % fe
    return ("toml-hostbits/" if cfg.get("toml") else "") + "bd/ok/" + ("subst" if substituted else "plain") + ("/t%d" % q["transport"])


def run(ctx):
    ctx.assumptions += [
        "phantom selection, the transports' ParseParams/GetDstPort, the configured RegOverride, crypto/rand.Reader and math/rand.Float64 are "
        "explicit arguments of the model (their values are recorded by the driver on every case); the theorems hold for all their values",
        "transport parameters are opaque byte strings; protobuf encoding/decoding of the wrapper is represented by records of optional fields",
        "override weights are exact rationals (the float64 rounding of weight/total and of the cumulative sums is not modelled)",
        "ed25519 signing is represented by 'the signed copy decodes to this response and verifies' (checked by the driver with the real key)",
        "GenSharedKeys does not fail; GeoIP lookups at the station succeed; the station's own phantom derivation succeeds",
        "the Go in-package driver (which builds the processor with the real NewRegProcessorNoAuth and drives the real API and DNS front ends), the case generator and the emitter are trusted",
    ]
    ctx.cov["trusted_base"] = [
        "Coq 8.16.1 kernel (coqc; coqchk in the thorough tier); vm_compute for evaluating the model on cases; no native_compute",
        "no axioms: every theorem prints 'Closed under the global context'",
        "hand-written model coq/C12/Model.v tied to the code by the correspondence run: real RegisterBidirectional/RegisterUnidirectional -> "
        "recorded bytes -> real station parseRegMessage/NewRegistrationC2SWrapper, compared field by field with the model",
    ]
    ctx.cov["rule"] = ("random requests x registrar configs x subnet configs (half of them with the percentage gate steered to its boundary), "
                       "plus batches against fixed multi-subnet configs for the reachability search; a case is non-trivial if hash-distinct; "
                       "kinds = outcome classes")
    ctx.coq_props()
    rng = ctx.rng
    quick = ctx.tier == "quick"
    cases = []
    for f in (ctx.replay or {}).get("failures", []) + (ctx.replay or {}).get("theorem_or_correspondence", []):
        c = f.get("case")
        if isinstance(c, dict) and c.get("kind") in ("bd", "uni", "st") and "cfg" in c:
            cases.append(c)
    cases += [gen_case(rng) for _ in range(700 if quick else 6000)]
    for _ in range(200 if quick else 2000):       # hand-made (possibly hostile) wrappers straight into the station
        c = gen_case(rng, steer=False)
        c["kind"] = "st"
        q = c["req"]
        if rng.random() < 0.85:
            q["forged_resp"] = gen_resp(rng)
        q["payload"] = rng.random() < 0.97
        if rng.random() < 0.8:     # mostly well-formed apart from the response
            q["v4"], q["v6"] = rng.choice([(True, True), (True, True), (True, False), (False, True)])
            q["transport"] = rng.choice([1, 4])
            q["params"] = {"kind": "prefix", "randomize": rng.choice([True, False]), "prefix_id": rng.choice([0, 1, 2, 5])} if q["transport"] == 4 \
                else rng.choice([{"kind": "generic", "randomize": True}, {"kind": "none"}])
            q["libver"], q["gen"] = 4, rng.choice([0, 1, 2, 3])
            q["addr"] = rng.choice(["c0000207", "00000000000000000000ffffc0000207", "c0000207", "20010db8000000000000000000000009"])
            c["station"] = {"v4": True, "v6": True, "transports": [1, 4]}
            if q["forged_resp"] and rng.random() < 0.7:
                q["forged_resp"]["v6"] = rng.choice([None, "fd0000000000000000000000000000ee"])
        cases.append(c)
    cases += weight_cases(rng, 240 if quick else 1200)
    cases += port_cases(rng)
    cases += hostbits_cases(rng)
    cases += seq_cases(rng, 8 if quick else 60, 25, 1000)
    nfe = 150 if quick else 1500
    cases += [fe_case(rng, "api") for _ in range(nfe)] + [fe_case(rng, "dns") for _ in range(nfe)]
    res = [None] * len(cases)
    for fe, pkg, files, test, extra in (
            ("", PKG, FILES, "^TestVerifC12$", EXTRA),
            ("api", "pkg/regserver/apiregserver", {"zz_verif_driver_test.go": "c12/c12_api_driver_test.go"}, "^TestVerifC12API$", EXTRA_FE),
            ("dns", "pkg/regserver/dnsregserver", {"zz_verif_driver_test.go": "c12/c12_dns_driver_test.go"}, "^TestVerifC12DNS$", EXTRA_FE)):
        idx = [i for i, c in enumerate(cases) if (c.get("fe") or "") == fe]
        rc, out, part = ctx.go_inpkg(".", pkg, files, test, [cases[i] for i in idx], extra_overlay=extra, timeout=900)
        if part is None or len(part) != len(idx):
            ctx.broken("driver", "Go driver (%s) did not produce results: %s" % (fe or "processor", out[-1500:]))
            return
        for i, r in zip(idx, part):
            res[i] = r
    terms, tidx = [], []
    hits = {}
    dump0 = {}
    for ci, (c, r) in enumerate(zip(cases, res)):
        kind = oracle(ctx, c, r)
        # purity of the configuration: a registration never changes the processor's override configuration
        if not r["ctor_err"] and r.get("cfg_dump"):
            sid = c.get("seq_id") or ("single", ci)
            if r.get("cfg_dump0"):
                dump0[sid] = r["cfg_dump0"]
                want = sorted(str(ipaddress.ip_network(x["cidr"], strict=False)) for x in c["cfg"]["subnets"]
                              if x["transport"] in ("Min_Transport", "Prefix_Transport"))
                got = sorted(tok.split()[1] for tok in r["cfg_dump0"].split("; ") if tok.startswith(("min ", "prefix ")))
                if want != got:
                    ctx.fail("config-not-as-configured", "the constructed processor holds override subnets %s, configured were %s" % (got, want), c)
            if sid in dump0 and r["cfg_dump"] != dump0[sid]:
                ctx.fail("config-mutated", "a registration changed the processor's override configuration: before %r, after %r (%s)"
                         % (dump0[sid][:400], r["cfg_dump"][:400], short(c)), c)
                dump0[sid] = r["cfg_dump"]
            if c.get("seq_id"):
                kind = "seq/" + kind
        ctx.count((c["kind"], repr(c)), nontrivial=True, kind=kind)
        if not c.get("noterm"):
            terms.append(gcase(c, r))
            tidx.append(ci)
        g = c.get("group")
        if g and r["resp"] and r["resp"]["v4"] is not None:
            h = hits.setdefault(g, {"n": 0, "over": 0, "subs": c["cfg"]["subnets"], "count": {}, "pct": c["cfg"]["pmin"]})
            h["n"] += 1
            if r["resp"]["v4"] == ip4(c["sel"]["v4"]):
                continue                       # the percentage gate did not let this one be overridden
            h["over"] += 1
            got = None
            for i, s in enumerate(c["cfg"]["subnets"]):
                if in_net(s["cidr"], r["resp"]["v4"]):
                    h["count"][i] = h["count"].get(i, 0) + 1
                    got = i
            # deterministic: the subnet must be the one the pinned draw f selects, whatever the gate draw was
            want = expected_subnet(c["cfg"]["subnets"], r["or"]["f_num"])
            if want is not None and got is not None and got != want:
                ctx.fail("weighted-choice-ignores-draw", "override percentage %s, draw f = %.6f selects subnet #%d %s (weights %s) but the "
                         "registrar substituted an address of subnet #%d %s — the weighted choice does not follow its own draw, so "
                         "subnets are used with the wrong frequency (or never): %s"
                         % (c["cfg"]["pmin"], r["or"]["f_num"] / float(1 << 53), want, c["cfg"]["subnets"][want]["cidr"],
                            [x["weight"] for x in c["cfg"]["subnets"]], got, c["cfg"]["subnets"][got]["cidr"], short(c)), c)
    # every override subnet with a positive weight is used (search: statistical; expected count >= 40 => P(false alarm) < e^-40)
    for g, h in hits.items():
        tot = sum(s["weight"] for s in h["subs"])
        for i, s in enumerate(h["subs"]):
            expect = h["over"] * s["weight"] / tot
            if s["weight"] > 0 and expect >= 40 and h["count"].get(i, 0) == 0:
                ctx.fail("weight-unreachable", "override percentage %s: override subnet %s (weight %s of %s) was never chosen in %d overridden "
                         "registrations (of %d) of %s (chosen: %s)"
                         % (h["pct"], s["cidr"], s["weight"], tot, h["over"], h["n"], g, {h["subs"][k]["cidr"]: v for k, v in h["count"].items()}),
                         {"group": g, "override_percentage": h["pct"], "subnets": h["subs"], "counts": h["count"], "overridden": h["over"], "n": h["n"]})
        ctx.cov.setdefault("weights", {})[g] = {"overridden": h["over"], "of": h["n"],
                                                "chosen": {h["subs"][k]["cidr"]: v for k, v in sorted(h["count"].items())}}
    ctx.sample({"case": cases[0], "observed": res[0]})
    ctx.sample({"case": cases[1], "observed": res[1]})
    ctx.require_kinds(["bd/ok/plain/t1", "bd/ok/plain/t4", "bd/ok/subst/t1", "bd/ok/subst/t4", "bd/err-other", "bd/err-noc2s", "bd/err-secret",
                       "bd/err-procfailed", "uni/sent", "uni/rejected", "st/err", "st/regs1", "st/regs2",
                       "ctor-rejected", "toml-hostbits/bd/ok/subst/t1", "toml-hostbits/bd/ok/subst/t4", "toml-hostbits/bd/ok/plain/t1", "toml-hostbits/bd/ok/plain/t4",
                       "seq/bd/ok/subst/t1", "seq/bd/ok/subst/t4", "api/bd/ok", "api/bd/rejected", "api/uni/sent", "api/uni/rejected", "dns/bd/ok", "dns/bd/rejected", "dns/uni/sent", "dns/uni/rejected"])
    mm = ctx.coq_mismatches("reg", HEADER, terms, "chk", shard=150, need_vo=["C12/Run.vo", "C12/Examples.vo"])
    if mm:
        ctx.cov["mismatches"] += len(mm)
        i = tidx[mm[0]]
        ctx.broken("correspondence", "the model (coq/C12: register_bd / register_uni / station) and the implementation disagree on %d case(s); "
                   "first: %s; observed err=%r resp=%s" % (len(mm), short(cases[i]), res[i]["err"], res[i]["resp"]),
                   {**cases[i], "observed": res[i]})
