"""C07 — a registration becomes usable only when every admission condition holds."""
import ipaddress
import itertools
import sys

from lib import gN, gbool, glist, gopt, hexs
from props import c07_live
from props import c07_life

HEADER = "From CJ Require Import Common.Base C06.Model C07.Model C07.Run.\n"
PKG = "pkg/station/lib"
DRV = {"zz_verif_driver_test.go": "c07/c07_driver_test.go"}

V4NET = "192.122.190.0/24"
V6NET = "2001:48a8:687f:1::/64"
COVERT_POLICY = {"block": ["127.0.0.0/8", "10.0.0.0/8", "::1/128"], "allow": [], "domains": ["^blocked\\."]}
ENABLED_TRANSPORTS = [0, 2]

# ------------------------------------------------------------------ factor levels -> concrete values
REGADDR = {"v4": "01020304", "v4m": "00000000000000000000ffff01020304", "v6": "20010db8000000000000000000000009",
           None: None, "empty": "", "odd": "0102030405"}
RR = {
    "none": None,
    "port": {"port": 8080}, "bigport": {"port": 70000},
    "v4in": {"v4": 0xC07ABE05}, "v4out": {"v4": 0x08080808}, "v4zero": {"v4": 0},
    "v6ok": {"v6": "20010db8000000000000000000000077"}, "v6map": {"v6": "00000000000000000000ffffc07abe07"},
    "v6empty": {"v6": ""}, "v6short": {"v6": "c07abe07"},
    "params": {"params": 9}, "badparams": {"params": 150}, "portparams": {"params": 60},
}
PBLOCK = {"none": [], "v4": [V4NET], "v6": [V6NET], "out": ["8.8.8.0/24", "2001:db8::/32"]}
COVERT = {"ok": "93.184.216.34:443", "ok6": "[2001:db8::5]:80", "blocked": "127.0.0.1:80", "malformed": "no-port",
          "mapped": "[::ffff:93.184.216.34]:8080", "emptyhost": ":80", None: None}

LEVELS = {
    "payload": [True, False],
    "v4sup": [True, False, None],
    "v6sup": [True, False, None],
    "cf_v4": [True, False],
    "cf_v6": [True, False],
    "regaddr": ["v4", "v4m", "v6", None, "empty", "odd"],
    "gen": [1, 2, 3, 4, 99, None],
    "libver": [0, 2, 3, 4],
    "transport": [0, 2, 5, None],
    "flags": [None, "nil", False, True],
    "params": [None, 7, 60, 150],
    "noovr": [None, False, True],
    "source": [None, 1, 2, 3, 4],
    "rr": list(RR.keys()),
    "pblock": list(PBLOCK.keys()),
    "covert": list(COVERT.keys()),
    "secret": ["ok", None, "short"],
    "share": [True, False],
    "live": [False, True],
    "geo_fail": [False, True],
}
FACTORS = list(LEVELS.keys())

BASES = [
    # admissible starting points; every factor is then flipped to each of its other levels
    dict(payload=True, v4sup=True, v6sup=False, cf_v4=True, cf_v6=True, regaddr="v4", gen=1, libver=3, transport=0, flags=None,
         params=None, noovr=None, source=2, rr="none", pblock="none", covert="ok", secret="ok", share=True, live=False, geo_fail=False),
    dict(payload=True, v4sup=False, v6sup=True, cf_v4=True, cf_v6=True, regaddr="v6", gen=1, libver=4, transport=2, flags=None,
         params=7, noovr=None, source=2, rr="none", pblock="none", covert="ok6", secret="ok", share=True, live=True, geo_fail=False),
    dict(payload=True, v4sup=True, v6sup=True, cf_v4=True, cf_v6=True, regaddr="v4", gen=2, libver=3, transport=0, flags=False,
         params=7, noovr=False, source=1, rr="none", pblock="none", covert="ok", secret="ok", share=True, live=False, geo_fail=False),
    dict(payload=True, v4sup=True, v6sup=True, cf_v4=True, cf_v6=True, regaddr="v4m", gen=1, libver=2, transport=0, flags=True,
         params=None, noovr=None, source=3, rr="port", pblock="out", covert="mapped", secret="ok", share=True, live=True, geo_fail=False),
    dict(payload=True, v4sup=True, v6sup=False, cf_v4=True, cf_v6=False, regaddr="v4", gen=3, libver=0, transport=2, flags="nil",
         params=None, noovr=None, source=1, rr="v4out", pblock="v6", covert="ok", secret="ok", share=True, live=False, geo_fail=False),
    dict(payload=True, v4sup=True, v6sup=True, cf_v4=True, cf_v6=True, regaddr="v4", gen=2, libver=4, transport=0, flags=None,
         params=7, noovr=None, source=1, rr="v6ok", pblock="none", covert="ok", secret="ok", share=False, live=False, geo_fail=False),
    dict(payload=True, v4sup=False, v6sup=True, cf_v4=False, cf_v6=True, regaddr=None, gen=4, libver=3, transport=0, flags=None,
         params=None, noovr=True, source=1, rr="params", pblock="v4", covert="ok", secret="ok", share=True, live=True, geo_fail=False),
]

CORE = {   # full product in the thorough tier
    "v4sup": [True, False], "v6sup": [True, False], "cf_v4": [True, False], "cf_v6": [True, False],
    "regaddr": ["v4", "v6", None], "gen": [1, 3, 4, 99], "flags": [None, True], "source": [1, 2],
    "rr": ["none", "v4in"], "pblock": ["none", "v4", "v6"], "covert": ["ok", "blocked"], "share": [True, False],
    "live": [False, True],
}


class Gen:
    def __init__(self, rng):
        self.rng = rng
        self.tag = 0

    def secret(self, kind):
        if kind is None:
            return None
        n = 32 if kind == "ok" else 5
        return bytes(self.rng.getrandbits(8) for _ in range(n)).hex()

    def msg(self, row, secret=None):
        self.tag += 1
        m = {"secret": secret if secret is not None else self.secret(row["secret"]), "payload": None,
             "source": row["source"], "regaddr": REGADDR[row["regaddr"]], "rr": RR[row["rr"]]}
        if row["payload"]:
            fl = row["flags"]
            m["payload"] = {"v4": row["v4sup"], "v6": row["v6sup"], "gen": row["gen"], "libver": row["libver"],
                            "transport": row["transport"], "covert": COVERT[row["covert"]],
                            "flags": None if fl is None else {"prescanned": None if fl == "nil" else fl},
                            "params": row["params"], "no_overrides": row["noovr"], "tag": self.tag}
        return m

    def case(self, row, steps=None, real=False):
        cfg = {"v4": row["cf_v4"], "v6": row["cf_v6"], "transports": [1, 4] if real else ENABLED_TRANSPORTS,
               "pblock": PBLOCK[row["pblock"]], "share": row["share"], "covert": COVERT_POLICY, "geo_fail": row["geo_fail"],
               "real": real}
        return {"cfg": cfg, "live": row["live"], "steps": steps if steps is not None else [{"kind": "msg", "msg": self.msg(row)}],
                "row": dict(row)}


def covering_rows(rng, strength, budget):
    """greedy covering array over LEVELS (every `strength`-tuple of factor levels appears in some row)"""
    idx = {f: i for i, f in enumerate(FACTORS)}
    combos = list(itertools.combinations(range(len(FACTORS)), strength))
    uncovered = set()
    for cb in combos:
        for lv in itertools.product(*[range(len(LEVELS[FACTORS[i]])) for i in cb]):
            uncovered.add((cb, lv))
    rows = []
    while uncovered and len(rows) < budget:
        best, bestc = None, -1
        # seed a candidate from one uncovered tuple, fill the rest at random
        for _ in range(12):
            cb, lv = rng.choice(tuple(uncovered)) if len(uncovered) < 2000 else next(iter(uncovered))
            cand = [rng.randrange(len(LEVELS[f])) for f in FACTORS]
            for i, l in zip(cb, lv):
                cand[i] = l
            c = sum(1 for cb2 in combos if (cb2, tuple(cand[i] for i in cb2)) in uncovered)
            if c > bestc:
                best, bestc = cand, c
        for cb2 in combos:
            uncovered.discard((cb2, tuple(best[i] for i in cb2)))
        rows.append({f: LEVELS[f][best[idx[f]]] for f in FACTORS})
    return rows, len(uncovered)


def gen_cases(ctx):
    rng = ctx.rng
    quick = ctx.tier == "quick"
    g = Gen(rng)
    cases = []
    for c in replay_cases(ctx):
        if "cfg" in c and "steps" in c and "lv" not in c and "live" in c:      # ("lv": a history of the liveness-stack lane)
            cases.append({"cfg": c["cfg"], "live": c["live"], "steps": c["steps"], "row": c.get("row", {}), "kind": "replay"})
    # 1. bases and single flips (the rows that differ in exactly one condition)
    for b in BASES:
        cases.append(dict(g.case(b), kind="base"))
        for f in FACTORS:
            for lv in LEVELS[f]:
                if lv != b[f]:
                    r = dict(b)
                    r[f] = lv
                    cases.append(dict(g.case(r), kind="flip"))
    # 2. covering array
    rows, left = covering_rows(rng, 2 if quick else 3, 400 if quick else 6000)
    ctx.cov["covering_array"] = {"strength": 2 if quick else 3, "rows": len(rows), "uncovered_tuples": left}
    for r in rows:
        cases.append(dict(g.case(r), kind="cover"))
    # 3. full product of the core factors (thorough), a random slice of it (quick)
    keys = list(CORE.keys())
    prod = list(itertools.product(*[CORE[k] for k in keys]))
    if quick:
        prod = rng.sample(prod, 700)
    for tup in prod:
        r = dict(BASES[0])
        r.update(dict(zip(keys, tup)))
        r["libver"] = 3
        cases.append(dict(g.case(r), kind="table"))
    # 3b. the composition with the REAL phantom selector (test/phantom_subnets.toml: generations 1, 2, 957) and the
    #     real min (1) / prefix (4) transports instead of the scripted ones
    def realrow(r):
        r = dict(r)
        r["gen"] = {1: 1, 2: 957, 3: 2, 4: 957}.get(r["gen"], r["gen"])
        r["transport"] = {0: 1, 2: 4}.get(r["transport"], r["transport"])
        r["params"] = {7: 1, 60: 1}.get(r["params"], r["params"])
        return r
    for b in BASES:
        cases.append(dict(g.case(realrow(b), real=True), kind="real"))
        for f in FACTORS:
            for lv in LEVELS[f]:
                if lv != b[f] and not (f == "rr" and lv in ("params", "portparams")):
                    r = dict(b)
                    r[f] = lv
                    if quick and rng.random() < 0.5:
                        continue
                    cases.append(dict(g.case(realrow(r), real=True), kind="real"))
    for tup in rng.sample(list(itertools.product(*[CORE[k] for k in keys])), 150 if quick else 3000):
        r = dict(BASES[0])
        r.update(dict(zip(keys, tup)))
        r["libver"] = rng.choice([0, 2, 3, 4])
        cases.append(dict(g.case(realrow(r), real=True), kind="real"))
    # 4. histories: the same registration again, and a second message after a rejected first one
    for b in BASES:
        for variant in range(6):
            r1, r2 = dict(b), dict(b)
            if variant == 1:
                r1["covert"] = "blocked"          # first rejected after tracking, then a good one with the same secret
            elif variant == 2:
                r1["flags"], r2["flags"] = False, True
                r1["live"] = r2["live"] = True    # first dropped as live, second arrives pre-scanned
            elif variant == 3:
                r1["v6sup"], r2["v6sup"] = False, True
                r1["v4sup"] = r2["v4sup"] = True
            elif variant == 4:
                r2["transport"] = 2 if b["transport"] == 0 else 0
            elif variant == 5:
                r1["pblock"] = r2["pblock"] = "v4"
                r1["source"], r2["source"] = 1, 2
            sec = g.secret("ok")
            steps = [{"kind": "msg", "msg": g.msg(r1, sec)}, {"kind": "msg", "msg": g.msg(r2, sec)}]
            if variant == 0:
                steps.append({"kind": "msg", "msg": g.msg(r2, sec)})
            cases.append(dict(g.case(r1, steps), kind="history"))
    # 5. hand-built registrations through ingestRegistration (completeness conditions)
    ph4, ph4m, ph6 = "c07abe21", "00000000000000000000ffffc07abe21", "200148a8687f00010000000000000042"
    base_raw = {"keys": True, "secret": None, "phantom": ph4, "port": 443, "transport": 0, "covert": COVERT["ok"],
                "prescanned": None, "source": 2, "regaddr": "01020304"}
    raws = [None]
    for k, vals in {"keys": [False], "phantom": [None, ph4m, ph6], "transport": [2, 5], "source": [None, 1, 3, 0],
                    "covert": [COVERT["blocked"], "", COVERT["ok6"]], "prescanned": [False, True]}.items():
        for v in vals:
            r = dict(base_raw)
            r[k] = v
            raws.append(r)
    raws.append(dict(base_raw))
    for raw in raws:
        for pb_, live, share in itertools.product(["none", "v4"], [False, True], [True]):
            row = dict(BASES[0], pblock=pb_, live=live, share=share)
            rr = None if raw is None else dict(raw, secret=g.secret("ok"))
            cases.append(dict(g.case(row, [{"kind": "raw", "raw": rr}]), kind="raw"))
    return cases


def replay_cases(ctx):
    rp = ctx.replay or {}
    out = list(rp.get("cases", []))
    for k in ("failures", "theorem_or_correspondence"):
        for f in rp.get(k, []):
            if isinstance(f.get("case"), dict):
                out.append(f["case"])
    return out


# ------------------------------------------------------------------ the property's statement, evaluated in Python
def ip_of(hexraw):
    b = bytes.fromhex(hexraw)
    if len(b) == 4:
        return ipaddress.IPv4Address(b)
    if len(b) == 16:
        a = ipaddress.IPv6Address(b)
        return a.ipv4_mapped if a.ipv4_mapped is not None else a
    return None


def in_any(cidrs, ip):
    if ip is None:
        return False
    return any(ip.version == n.version and ip in n for n in (ipaddress.ip_network(c) for c in cidrs))


def params_ok(tok):
    return tok is None or tok < 100


def drv_port(libver, tok, rand):
    if libver < 3 or not rand:
        return 443
    if tok is None:
        return 1000
    return None if tok >= 50 else 1000 + tok


class Expect:
    """what the property allows for one step, derived from the inputs and the oracle values of the external functions"""

    def __init__(self):
        self.err = False
        self.drafts = []      # dicts: phantom(ip obj), port, fam, admissible, needs_probe, why
        self.announce = []    # phantom norm hex
        self.probes = []
        self.shares = 0
        self.lost = []        # families that satisfy every listed condition but are dropped with an unbuildable sibling
        self.why = None


def norm_hex(hexraw):
    b = bytes.fromhex(hexraw)
    if len(b) == 16 and b[:12] == bytes(10) + b"\xff\xff":
        b = b[12:]
    return b.hex()


def expect_msg(cfg, live, tracked, m, o):
    """tracked: set of (phantom norm hex, transport, secret) already in the table"""
    e = Expect()
    p = m["payload"]
    if p is None:
        return e
    regaddr = m["regaddr"] if m["regaddr"] is not None else "00" * 16
    reg_ip = ip_of(regaddr)
    reg_is_v4 = reg_ip is not None and reg_ip.version == 4
    fams = []
    if p["v4"] and cfg["v4"] and reg_is_v4:
        fams.append(4)
    if p["v6"] and cfg["v6"]:
        fams.append(6)
    rr = m["rr"] or {}
    tok = p["params"]
    if rr.get("params") is not None and not p["no_overrides"]:
        tok = rr["params"]
    transport = p["transport"] or 0
    libver = p["libver"] or 0
    secret = m["secret"] or ""
    drafts = []
    failed = []
    for fam in fams:
        sel = o["sel4"] if fam == 4 else o["sel6"]
        why = None
        ovr = None
        if fam == 6 and rr.get("v6") is not None:
            b = bytes.fromhex(rr["v6"])
            if len(b) != 16 or b[:12] == bytes(10) + b"\xff\xff":
                why = "bad-ipv6-override"
            else:
                ovr = rr["v6"]
        if fam == 4 and rr.get("v4"):
            ovr = "%08x" % rr["v4"]
        if why is None and not sel["ok"]:
            why = "generation-unknown-or-no-subnet"
        if why is None and transport not in cfg["transports"]:
            why = "transport-not-enabled"
        if why is None and not (o["pok"] if cfg.get("real") else params_ok(tok)):
            why = "params"
        if cfg.get("real"):
            pv = o["port4"] if fam == 4 else o["port6"]
            port = (pv if pv >= 0 else None) if why is None else None
        else:
            port = drv_port(libver, tok, sel["rand"]) if why is None else None
        if why is None and port is None:
            why = "port"
        phantom = ovr if ovr is not None else sel["ip"]
        if why is None and reg_ip is None:
            why = "registrant-address-invalid"
        if why is None and ip_of(phantom).version == 4 and not reg_is_v4:
            why = "v4-phantom-for-v6-registrant"
        if why is None and cfg["geo_fail"]:
            why = "geoip"
        if why is not None:
            failed.append((fam, why))
            continue
        if rr.get("port") is not None:
            port = rr["port"] % 65536
        drafts.append({"fam": fam, "phantom": norm_hex(phantom), "port": port})
    src = m["source"] or 0
    if failed:
        # the code drops the whole message; a family that could be built and meets every listed condition is lost
        e.err = True
        e.why = failed[0][1]
        for d in drafts:
            pip = ip_of(d["phantom"])
            needs = not (p["flags"] is not None and p["flags"]["prescanned"]) and pip.version == 4
            if (not in_any(cfg["pblock"], pip)) and o["covert_ok"] and (not needs or not live) and \
                    (d["phantom"], transport, secret) not in tracked:
                e.lost.append((d["fam"], failed[0][0], failed[0][1]))
        return e
    src = m["source"] or 0
    for d in drafts:
        pip = ip_of(d["phantom"])
        blocked = in_any(cfg["pblock"], pip)
        key = (d["phantom"], transport, secret)
        d["needs_probe"] = not (p["flags"] is not None and p["flags"]["prescanned"]) and pip.version == 4
        d["retry_after_rejection"] = (key in tracked and tracked[key] is False)
        conds = {
            "fresh": key not in tracked,
            "phantom-not-blocked": not blocked,
            "covert-ok": o["covert_ok"],
            "not-live": (not d["needs_probe"]) or not live,
        }
        d["conds"] = conds
        d["admissible"] = all(conds.values())
        # a probe is sent iff every earlier condition held and one is needed
        early = conds["fresh"] and conds["covert-ok"] and (src == 1 or not blocked)
        d["probe"] = early and d["needs_probe"]
        # shared: detector-sourced, sharing enabled, passed the probe, not the IPv6 twin of a dual-stack message
        d["share"] = (early and conds["not-live"] and src == 1 and cfg["share"] and
                      not (pip.version == 6 and bool(p["v4"])))
        if conds["fresh"] and (src == 1 or not blocked):
            tracked[key] = d["admissible"]
        e.drafts.append(d)
    return e


# ------------------------------------------------------------------ Gallina emitters
def g_hex(h):
    return hexs(bytes.fromhex(h))


def g_str(s):
    return hexs((s or "").encode())


def g_c2s(p):
    fl = p["flags"]
    presc = bool(fl is not None and fl["prescanned"])
    return ("{| c_v4 := %s; c_v6 := %s; c_gen := %s; c_libver := %s; c_transport := %s; c_covert := %s; "
            "c_prescanned := %s; c_params := %s; c_no_overrides := %s; c_tag := %s |}") % (
        gbool(bool(p["v4"])), gbool(bool(p["v6"])), gN(p["gen"] or 0), gN(p["libver"] or 0), gN(p["transport"] or 0),
        g_str(p["covert"]), gbool(presc), gopt(p["params"], gN), gbool(bool(p["no_overrides"])), gN(p["tag"]))


def g_wrapper(m):
    rr = m["rr"]
    grr = "None" if rr is None else "(Some {| rr_port := %s; rr_v4 := %s; rr_v6 := %s; rr_params := %s |})" % (
        gopt(rr.get("port"), gN), gopt(rr.get("v4"), gN), gopt(rr.get("v6"), g_hex), gopt(rr.get("params"), gN))
    return "{| w_secret := %s; w_payload := %s; w_source := %s; w_regaddr := %s; w_rr := %s |}" % (
        g_hex(m["secret"] or ""), "None" if m["payload"] is None else "(Some %s)" % g_c2s(m["payload"]),
        gN(m["source"] or 0), gopt(m["regaddr"], g_hex), grr)


def g_raw(r):
    if r is None:
        return "(Raw None)"
    return ("(Raw (Some {| r_has_keys := %s; r_secret := %s; r_phantom := %s; r_port := %s; r_transport := %s; "
            "r_covert := %s; r_prescanned := %s; r_source := %s; r_regaddr := %s; r_orig := None |}))") % (
        gbool(r["keys"]), g_hex(r["secret"] if r["keys"] else ""), gopt(r["phantom"], g_hex), gN(r["port"]), gN(r["transport"]),
        g_str(r["covert"]), gbool(bool(r["prescanned"])), gopt(r["source"], gN), g_hex(r["regaddr"]))


def g_sel(s):
    return "(Some %s)" % g_hex(s["ip"]) if s["ok"] else "None"


def g_oracles(res, live, geo_fail, real=False):
    return ("{| o_sel4 := %s; o_sel6 := %s; o_rand4 := %s; o_rand6 := %s; o_real := %s; o_pok := %s; o_port4 := %s; "
            "o_port6 := %s; o_geo := %s; o_covert := %s; o_live := %s |}") % (
        g_sel(res["sel4"]), g_sel(res["sel6"]), gbool(res["sel4"]["rand"]), gbool(res["sel6"]["rand"]),
        gbool(real), gbool(res.get("pok", False)),
        gopt(res["port4"] if res.get("port4", -1) >= 0 else None, gN), gopt(res["port6"] if res.get("port6", -1) >= 0 else None, gN),
        gbool(not geo_fail),
        "(Some %s)" % g_hex(res["covert_lit"]) if res["covert_ok"] else "None", gbool(live))


def g_regview(v):
    return "(%s, %s, %s, %s, %s, %s)" % (g_hex(norm_hex(v["phantom"])), gN(v["port"]), g_hex(v["secret"]), gN(v["transport"]),
                                         g_hex(v["covert"]), g_hex(v["regaddr"]))


def g_share(s, eff_tok=None):
    if eff_tok is not None:
        s = dict(s, params=eff_tok[0], has_params=eff_tok[0] is not None and s["has_params"])
    return "(%s, %s, %s, (%s, %s, %s), (%s, %s, %s), %s, %s, %s)" % (
        g_hex(s["secret"]), gN(s["source"]), g_hex(s["regaddr"]), gbool(s["prescanned"]), gbool(s["v4"]), gbool(s["v6"]),
        gN(s["gen"]), gN(s["libver"]), gN(s["transport"]), g_hex(s["covert"]),
        gopt(s["params"] if s["has_params"] else None, gN), gN(int(s["mask"]) if s["mask"].isdigit() else 0))


def g_obs(res, shares, eff_tok=None):
    probes, anns = [], []
    for ev in res["events"]:
        if ev["kind"] == "probe":
            a = ev["a"]
            probes.append("(%s, %s)" % (g_hex(a) if not a.startswith("text:") else hexs(a.encode()), gN(ev["port"])))
        elif ev["kind"] == "announce":
            anns.append(g_regview(ev["reg"]))
    vis = ["(%s, %s, %s)" % (g_hex(norm_hex(v["phantom"])), gN(v["transport"]), g_hex(v["secret"])) for v in res["visible"]]
    return ("{| ob_err := %s; ob_ndrafts := %s; ob_probes := [%s]; ob_shares := [%s]; ob_announces := [%s]; ob_visible := [%s] |}") % (
        gbool(res["err"]), gN(res["ndrafts"]), "; ".join(probes), "; ".join(g_share(s, eff_tok) for s in shares), "; ".join(anns), "; ".join(vis))


def g_cfg(cfg, pblock_dump):
    return "{| cf_v4 := %s; cf_v6 := %s; cf_transports := %s; cf_pblock := %s; cf_share := %s |}" % (
        gbool(cfg["v4"]), gbool(cfg["v6"]), glist(cfg["transports"], gN),
        glist(pblock_dump, lambda n: "(%s, %s)" % (g_hex(n[0]), g_hex(n[1]))), gbool(cfg["share"]))


# ------------------------------------------------------------------ main
def run(ctx):
    ctx.assumptions += [
        "protobuf decoding is represented by records of optional fields; phantom selection, transport parameter "
        "parsing, destination-port derivation, GeoIP, the covert policy function (C06) and the liveness probe are "
        "external (universally quantified in the theorems, supplied per case from the running implementation)",
        "one ingest worker at a time (interleavings of workers are C09's subject); reloads happen between messages (a reload "
        "concurrent with selection is C14's lifecycle lane)",
        "liveness-stack lane: the tester is the one liveness.New builds; only the network probe under it is scripted and the "
        "clock of its caches is moved by shifting the stored times (overlay shim harness/inpkg/c07/liveness_export.go, not in "
        "/repo); lifetimes and advances are whole hours, every step takes one tick of 1/1000 h in model and reference; the "
        "tester's model is coq/C18/Model.v (C18's correspondence check ties it to pkg/station/liveness)",
        "the Go in-package driver (injected LivenessTester, registerForDetector recorder, httptest peer endpoint, "
        "driver-defined transport and phantom selector), the case generator, the Python oracle and the emitter are trusted",
    ]
    ctx.cov["trusted_base"] = [
        "Coq 8.16.1 kernel (coqc; coqchk in the thorough tier); vm_compute for evaluating the model on cases",
        "no axioms: every theorem prints 'Closed under the global context'",
        "hand-written model coq/C07/Model.v tied to parseRegMessage / NewRegistrationC2SWrapper / ingestRegistration / "
        "ValidateRegistration / register / getRegistrations / GenerateC2SWrapper by the correspondence run",
        "coq/C07/ModelLive.v (ingestRegistration over a stateful tester; instantiated with coq/C18/Model.v, which C07 only reads) "
        "tied to ingestRegistration over the real liveness testers by the liveness-stack lane",
        "coq/C07/ModelLife.v (the phantom subnet file in force as station state; reload replaces it on success only) tied to "
        "NewRegistrationManager / OnReload / parseRegMessage / ingestRegistration by the lifecycle lane; the selection oracle values "
        "there come from the real phantoms loader applied to the file the history says is in force",
    ]
    ctx.cov["rule"] = ("decision table of the admission procedure: admissible base rows with every single-factor flip, a "
                       "covering array over all 20 factors (strength 2 quick / 3 thorough), the full product of the 13 core "
                       "factors (random slice in quick), multi-message histories (duplicates, re-registration after a "
                       "rejection) and hand-built incomplete registrations; liveness-stack lane: 11 history templates x 10 liveness "
                       "configurations (uncached, live/non-live/both caches, map and LRU, capacity 1) plus random histories "
                       "(same phantom from several clients, cache expiry, ClearExpired, dual-stack, pre-scanned, detector-sourced, "
                       "every error class with either verdict); a case is non-trivial if hash-distinct, counted per outcome class")
    ctx.coq_props(extra_dirs=["C06", "C18"])
    rc, out = ctx.coq_make(["C07/Examples.vo", "C07/ExamplesLive.vo", "C07/ExamplesLife.vo", "C07/Refuted.vo"])
    if rc != 0:
        ctx.broken("examples", "coq/C07/Examples.v / ExamplesLive.v / ExamplesLife.v (non-vacuity) or Refuted.v (witnesses of the open findings) no longer checks: %s" % out[-400:])
    run_table(ctx)
    # the liveness verdict through the real tester stack, over histories sharing one cache state
    c07_live.run_live(ctx, sys.modules[__name__])
    # known generation = known to the phantom subnet file in force: histories of messages and reloads over one real manager
    c07_life.run_life(ctx, sys.modules[__name__])


def run_table(ctx):
    """the decision table with an injected liveness tester (one bare verdict per case)"""
    cases = gen_cases(ctx)
    payload = [{"cfg": c["cfg"], "live": c["live"], "steps": c["steps"]} for c in cases]
    rc, out, res = ctx.go_inpkg(".", PKG, DRV, "^TestVerifC07Ingest$", payload, timeout=1500)
    if res is None or len(res.get("results", [])) != len(cases):
        ctx.broken("driver", "Go driver did not produce results: %s" % out[-1200:])
        return
    ctx.cov["driver_goroutines_baseline_final"] = res.get("goroutines")
    shares_by_tag = {}
    stray = []
    for s in res["shares"]:
        if s["mask"].isdigit():
            shares_by_tag.setdefault(int(s["mask"]), []).append(s)
        else:
            stray.append(s)
    if stray:
        ctx.fail("share/unattributable", "the peer endpoint received a request that is not a shared registration: %s" % stray[:2],
                 {"shares": stray[:5]})

    terms = []
    for ci, (c, rs) in enumerate(zip(cases, res["results"])):
        cfg, live = c["cfg"], c["live"]
        tracked = {}
        announced_so_far = set()
        steps_terms = []
        info = {"cfg": cfg, "live": live, "steps": c["steps"], "row": c["row"], "kind": c["kind"]}
        bad = False
        for st, r in zip(c["steps"], rs):
            if r.get("panic"):
                ctx.count((ci, "panic"), kind="panic")
                ctx.fail("panic", "ingest panicked: %s" % r["panic"], info)
                bad = True
                break
            tag = st["msg"]["payload"]["tag"] if st["kind"] == "msg" and st["msg"]["payload"] else None
            shares = sorted(shares_by_tag.get(tag, []), key=lambda s: s["seq"]) if tag is not None else []
            probes = [ev for ev in r["events"] if ev["kind"] == "probe"]
            anns = [ev for ev in r["events"] if ev["kind"] == "announce"]
            obs = {"err": r["err"], "ndrafts": r["ndrafts"], "probes": [(p["a"], p["port"]) for p in probes],
                   "announced": [a["reg"] for a in anns], "shares": shares, "visible": r["visible"]}
            # ---------------- direct oracle
            if st["kind"] == "msg":
                e = expect_msg(cfg, live, tracked, st["msg"], r)
                kind = oracle_msg(ctx, e, obs, st["msg"], cfg, live, dict(info, observed=obs, oracle_values={
                    k: r[k] for k in ("sel4", "sel6", "covert_ok", "covert_lit")}))
            else:
                kind = oracle_raw(ctx, st["raw"], obs, cfg, live, tracked, r, dict(info, observed=obs))
            for a in anns:
                announced_so_far.add((norm_hex(a["reg"]["phantom"]), a["reg"]["transport"], a["reg"]["secret"]))
            vis = set((norm_hex(v["phantom"]), v["transport"], v["secret"]) for v in r["visible"])
            if vis != announced_so_far:
                ctx.fail("visible/differs-from-announced", "GetRegistrations returns %s but the announced registrations are %s"
                         % (sorted(vis - announced_so_far), sorted(announced_so_far - vis)), dict(info, observed=obs))
            ctx.count((c["kind"], cfg, live, st), nontrivial=True, kind=kind)
            inp = "(Msg %s)" % g_wrapper(st["msg"]) if st["kind"] == "msg" else g_raw(st["raw"])
            eff = None
            if cfg.get("real") and st["kind"] == "msg" and st["msg"]["payload"]:
                pp, rrr = st["msg"]["payload"], st["msg"]["rr"] or {}
                tk = pp["params"]
                if rrr.get("params") is not None and not pp["no_overrides"]:
                    tk = rrr["params"]
                eff = (tk,)
            steps_terms.append("(%s, %s, %s)" % (inp, g_oracles(r, live, cfg["geo_fail"], cfg.get("real", False)), g_obs(r, shares, eff)))
        if not bad:
            terms.append(("(%s, [%s])" % (g_cfg(cfg, res["pblocks"][ci]), "; ".join(steps_terms)), info))
    for k in (0, len(cases) // 3, len(cases) - 1):
        ctx.sample({"case": {k2: cases[k][k2] for k2 in ("cfg", "live", "steps")}, "observed": res["results"][k]})
    ctx.require_kinds(["msg/announced", "msg/announced+shared", "msg/announced-both", "msg/dropped-error", "msg/no-draft",
                       "msg/rejected:covert-ok", "msg/rejected:not-live", "msg/rejected:phantom-not-blocked",
                       "msg/rejected:fresh", "raw/announced", "raw/rejected"])

    mm = ctx.coq_mismatches("adm", HEADER, [t for t, _ in terms], "chk", shard=300 if ctx.tier == "quick" else 1500, need_vo=["C07/Run.vo"])
    mi = ctx.coq_mismatches("int", HEADER, [t for t, _ in terms], "chk_internal", shard=3000)
    ctx.cov["internal_parse_result_mismatches"] = None if mi is None else len(mi)   # informational only
    if mm:
        ctx.cov["mismatches"] += len(mm)
        ctx.broken("correspondence", "model C07.Run and the ingest code disagree on %d case(s); first kind=%s row=%s"
                   % (len(mm), terms[mm[0]][1]["kind"], terms[mm[0]][1]["row"]), terms[mm[0]][1])


def oracle_msg(ctx, e, obs, m, cfg, live, info):
    """the iff of the property on the implementation's observables; returns the outcome class"""
    # parse errors and the number of drafts are internal: the property speaks about announcements, lookups,
    # probes and shares, so only those are judged (a message that cannot be built must have none of them)
    if e.err:
        for fam, badfam, why in e.lost:
            ctx.fail("sibling-family-unbuildable/ipv%d-registration-lost" % fam,
                     "the IPv%d registration of a dual-stack message meets every admission condition but is not admitted: the "
                     "message is dropped as a whole because its IPv%d registration cannot be built (%s)" % (fam, badfam, why), info)
        if obs["announced"] or obs["probes"] or obs["shares"]:
            ctx.fail("dropped-message-had-effects/" + e.why, "a message that cannot be built (%s) had effects: %s"
                     % (e.why, {k: obs[k] for k in ("err", "probes", "announced")}), info)
        return "msg/dropped-error"
    if not e.drafts:
        if obs["announced"] or obs["probes"] or obs["shares"]:
            ctx.fail("effects-without-registration", "a message that asks for no registration this station serves "
                     "(family not requested / not enabled / registrant of the other family) had effects", info)
        return "msg/no-draft"
    ann = [norm_hex(a["phantom"]) for a in obs["announced"]]
    prb = [norm_hex(p[0]) if not p[0].startswith("text:") else p[0] for p in obs["probes"]]
    nshare = 0
    outcome = []
    expected_ph = [d["phantom"] for d in e.drafts]
    for x in ann:
        if x not in expected_ph:
            ctx.fail("announced-unrequested-family", "a registration for phantom %s was announced, which is none of the "
                     "registrations this message can yield here (%s)" % (x, expected_ph), info)
    for x in prb:
        if x not in expected_ph:
            ctx.fail("probe-not-needed/unrequested-family", "phantom %s was probed, which is none of the registrations this "
                     "message can yield here" % x, info)
    for d in e.drafts:
        if d["admissible"] and d["phantom"] not in ann:
            ctx.fail("admissible-but-not-announced/fam%d" % d["fam"], "every admission condition holds for the IPv%d registration "
                     "but it was not announced" % d["fam"], dict(info, conditions=d["conds"]))
        if not d["admissible"] and d["phantom"] in ann:
            failing = [k for k, v in d["conds"].items() if not v]
            origin = ("@" + d["verdict_origin"]) if ("not-live" in failing and d.get("verdict_origin")) else ""
            ctx.fail("announced-although/" + "+".join(failing) + origin, "the IPv%d registration was announced although %s does not hold%s"
                     % (d["fam"], failing, (" (liveness verdict: %s)" % d["verdict_origin"]) if origin else ""), dict(info, conditions=d["conds"]))
        if d["probe"] and d["phantom"] not in prb:
            ctx.fail("probe-missing/fam%d" % d["fam"], "a liveness probe was required but not sent", dict(info, conditions=d["conds"]))
        if not d["probe"] and d["phantom"] in prb:
            ctx.fail("probe-not-needed/" + (d.get("noprobe_why") or ("prescanned" if not d["needs_probe"] else "earlier-condition-failed")),
                     "a liveness probe was sent although none is required", dict(info, conditions=d["conds"]))
        if d["retry_after_rejection"] and all(v for k, v in d["conds"].items() if k != "fresh") and d["phantom"] not in ann:
            ctx.fail("readmission/ignored-after-rejection",
                     "a registration that meets every admission condition is ignored because an earlier registration with the "
                     "same identifier was tracked and then rejected (it stays tracked, not valid, until it expires)",
                     dict(info, conditions=d["conds"]))
        if d["share"]:
            nshare += 1
        outcome.append("announced" if d["admissible"] else "rejected:" + [k for k, v in d["conds"].items() if not v][0])
    # sharing
    sh = obs["shares"]
    if len(sh) > 1:
        ctx.fail("share/more-than-once", "one client registration was passed to the peer stations %d times" % len(sh), info)
    if len(sh) != nshare and len(sh) <= 1:
        key = "share/missing" if len(sh) < nshare else \
            "share/unexpected:" + ("not-detector" if (m["source"] or 0) != 1 else "disabled" if not cfg["share"] else "probe-or-earlier-condition")
        ctx.fail(key, "expected %d shared message(s), the peer endpoint received %d" % (nshare, len(sh)), info)
    for s in sh:
        if not s["has_payload"] or not s["prescanned"] or s["source"] != 3:
            ctx.fail("share/not-marked-prescanned", "the shared message is not marked pre-scanned / DetectorPrescan: %s" % s, info)
    if outcome.count("announced") == 2:
        return "msg/announced-both"
    if "announced" in outcome:
        return "msg/announced+shared" if sh else "msg/announced"
    return "msg/" + outcome[0]


def oracle_raw(ctx, raw, obs, cfg, live, tracked, r, info):
    if raw is None:
        if obs["announced"] or obs["probes"]:
            ctx.fail("raw/nil-had-effects", "a nil registration had effects", info)
        return "raw/rejected"
    pip = ip_of(raw["phantom"]) if raw["phantom"] else None
    complete = raw["keys"] and raw["phantom"] is not None and raw["source"] is not None
    if raw["phantom"] is not None and pip is None:
        # not an address at all: outside the property's domain (never produced by parseRegMessage); only recorded
        return "raw/odd-phantom"
    blocked = in_any(cfg["pblock"], pip)
    needs_probe = not raw["prescanned"] and pip is not None and pip.version == 4
    conds = {"complete": bool(complete), "transport-enabled": raw["transport"] in cfg["transports"],
             "phantom-not-blocked": not blocked, "covert-ok": r["covert_ok"], "not-live": not (needs_probe and live)}
    adm = all(conds.values())
    if adm != bool(obs["announced"]):
        failing = [k for k, v in conds.items() if not v]
        ctx.fail(("raw/announced-although/" + "+".join(failing)) if obs["announced"] else "raw/admissible-but-not-announced",
                 "hand-built registration: announced=%s but conditions are %s" % (bool(obs["announced"]), conds),
                 dict(info, conditions=conds))
    early = conds["complete"] and conds["transport-enabled"] and conds["covert-ok"] and (raw["source"] == 1 or not blocked)
    if bool(obs["probes"]) != (early and needs_probe):
        ctx.fail("raw/probe-" + ("not-needed" if obs["probes"] else "missing"), "probe sent=%s, required=%s"
                 % (bool(obs["probes"]), early and needs_probe), dict(info, conditions=conds))
    return "raw/announced" if adm else "raw/rejected"
