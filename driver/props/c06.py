"""C06 — the station never dials a covert address that policy forbids."""
import ipaddress
import os
import re

import lib
from lib import gN, gbool, glist, gopt, hexs

HEADER = "From CJ Require Import Common.Base C06.Model C06.Run.\n"
PKG = "pkg/station/lib"
DRV = {"zz_verif_driver_test.go": "c06/c06_driver_test.go", "zz_verif_seq_driver_test.go": "c06/c06_seq_driver_test.go"}
HEADER_SEQ = "From CJ Require Import Common.Base C06.Model C06.Run C06.ModelIngest C06.RunIngest.\n"


def hx(s):
    return (s if isinstance(s, bytes) else s.encode("utf8", "surrogateescape")).hex()


def unhx(h):
    return bytes.fromhex(h)


# ------------------------------------------------------------------ policies
FIXED_POLICIES = [
    {"block": [], "allow": [], "domains": []},
    {"block": ["127.0.0.0/8", "10.0.0.0/8", "192.168.0.0/16", "::1/128", "fc00::/7", "fe80::/10"], "allow": [],
     "domains": ["localhost", "\\.internal$"]},
    {"block": [], "allow": ["128.138.0.0/16", "2001:db8::/32"], "domains": []},
    {"block": ["10.1.0.0/16", "0.0.0.0/0", "::/0"], "allow": ["10.0.0.0/8"], "domains": []},   # precedence
    {"block": ["0.0.0.0/0"], "allow": [], "domains": []},
    {"block": ["::/0"], "allow": [], "domains": []},
    {"block": ["::ffff:10.0.0.0/104"], "allow": [], "domains": []},                           # v4-in-v6 CIDR = 10/8
    {"block": ["1.2.3.4/32", "1.2.3.6/31", "2001:db8::8/125"], "allow": [], "domains": ["^blocked\\.", "test2$"]},
    {"block": [], "allow": ["::/0"], "domains": []},
    {"block": [], "allow": ["0.0.0.0/0"], "domains": []},
    {"block": ["128.0.0.0/1"], "allow": [], "domains": ["^127\\.", "^\\[?::1"]},
    {"block": ["127.0.0.1/32"], "allow": ["127.0.0.0/8", "::1/128"], "domains": []},
]


def shipped_policy():
    """the covert lists of cmd/application/app_config.toml (entries Python cannot parse are left out:
    list-entry validation is C19's subject)"""
    try:
        import tomllib
        with open(os.path.join(lib.REPO, "cmd/application/app_config.toml"), "rb") as f:
            d = tomllib.load(f)
    except Exception:
        return None

    def ok(c):
        try:
            ipaddress.ip_network(c, strict=False)
            return "/" in c
        except ValueError:
            return False
    doms = []
    for p in d.get("covert_blocklist_domains", []):
        try:
            re.compile(p)
            doms.append(p)
        except re.error:
            pass
    return {"block": [c for c in d.get("covert_blocklist_subnets", []) if ok(c)],
            "allow": [c for c in d.get("covert_allowlist_subnets", []) if ok(c)], "domains": doms}


def rand_cidr(rng, v6=None):
    if v6 is None:
        v6 = rng.random() < 0.4
    if v6:
        bits = rng.choice([0, 1, 7, 8, 16, 32, 48, 63, 64, 65, 96, 120, 127, 128, rng.randrange(129)])
        a = rng.getrandbits(128) if rng.random() < 0.7 else (0x20010db8 << 96) | rng.getrandbits(40)
        return "%s/%d" % (ipaddress.IPv6Address(a), bits)
    bits = rng.choice([0, 1, 7, 8, 9, 15, 16, 24, 30, 31, 32, rng.randrange(33)])
    a = rng.getrandbits(32) if rng.random() < 0.6 else (rng.choice([10, 127, 192, 172]) << 24) | rng.getrandbits(24)
    return "%s/%d" % (ipaddress.IPv4Address(a), bits)


def rand_policy(rng):
    p = {"block": [rand_cidr(rng) for _ in range(rng.randrange(0, 5))], "allow": [], "domains": []}
    if rng.random() < 0.4:
        p["allow"] = [rand_cidr(rng) for _ in range(rng.randrange(1, 4))]
    if rng.random() < 0.4:
        p["domains"] = rng.sample(["localhost", "\\.test$", "^h[0-3]", "^[0-9.]+$", "rebind", "^$", "%", "^fe80"], rng.randrange(1, 3))
    return p


# ------------------------------------------------------------------ independent policy oracle (Python ipaddress)
def py_nets(lst):
    out = []
    for c in lst:
        n = ipaddress.ip_network(c, strict=False)
        if n.version == 6 and n.network_address.ipv4_mapped is not None and n.prefixlen >= 96:
            n = ipaddress.ip_network("%s/%d" % (n.network_address.ipv4_mapped, n.prefixlen - 96), strict=False)
        out.append(n)
    return out


def py_unmap(ip):
    if ip.version == 6 and ip.ipv4_mapped is not None:
        return ip.ipv4_mapped
    return ip


def py_in(nets, ip):
    return any(n.version == ip.version and ip in n for n in nets)


def py_blocked(pol, ip):
    ip = py_unmap(ip)
    allow = py_nets(pol["allow"])
    if allow:
        return not py_in(allow, ip)
    return py_in(py_nets(pol["block"]), ip)


OUT_RE = re.compile(rb"(?:\[([^\[\]]*)\]|([^:\[\]]*)):([0-9]+)")


def py_parse_out(out):
    """returned string -> (ip, zone, port) or a reason why it is not a literal IP:port"""
    m = OUT_RE.fullmatch(out)
    if not m:
        return None, "shape"
    host = m.group(1) if m.group(1) is not None else m.group(2)
    if host == b"":
        return None, "empty-host"
    if int(m.group(3)) > 65535:
        return None, "port-range"
    zone = b""
    if b"%" in host:
        host, zone = host.split(b"%", 1)     # a zone is an opaque interface name
    try:
        ip = ipaddress.ip_address(host.decode("ascii"))
    except (UnicodeDecodeError, ValueError):
        return None, "not-literal"
    if zone and (ip.version == 4 or ip.ipv4_mapped is not None):
        return None, "zoned-ipv4"           # "1.2.3.4%eth0:80": net.Dial takes the host for a name
    return (ip, zone, int(m.group(3))), None


def py_dom_match(pol, host):
    try:
        h = host.decode("utf8")
    except UnicodeDecodeError:
        return None   # Python's and Go's matchers are only compared on valid UTF-8
    return any(re.search(p, h) for p in pol["domains"])


# ------------------------------------------------------------------ strings
PORTS_OK = ["80", "443", "0", "1", "65535", "8080", "080", "00000000000000000000443"]
PORTS_BAD = ["", "65536", "99999", "18446744073709551616", "+80", "-1", "http", "80 ", " 80", "0x50", "8_0", "80\x00",
             "٨٠", "1e3", "80:80"]


def v4_forms(a):
    """textual host forms of an IPv4 address a (int): (host text, needs brackets, canonical?)"""
    ip = ipaddress.IPv4Address(a)
    b = ip.packed
    return [(str(ip), False, True),
            ("::ffff:%s" % ip, True, False),
            ("::ffff:%x:%x" % ((a >> 16) & 0xffff, a & 0xffff), True, False),
            ("0:0:0:0:0:ffff:%s" % ip, True, False),
            ("0000:0000:0000:0000:0000:FFFF:%02X%02X:%02X%02X" % tuple(b), True, False),
            ("::ffff:%s%%eth0" % ip, True, False),                       # IPv4-mapped with a zone: never a literal (fix 3ada542)
            ("::ffff:%x:%x%%1" % ((a >> 16) & 0xffff, a & 0xffff), True, False)]


def v6_forms(a):
    ip = ipaddress.IPv6Address(a)
    canon = ip.ipv4_mapped is None
    out = [(ip.compressed, True, canon), (ip.exploded, True, False), (ip.compressed.upper(), True, False)]
    if ip.ipv4_mapped is None:
        out.append((ip.compressed + "%eth0", True, canon))
    return out


def interesting_addrs(rng, pol):
    v4 = {0, 0xffffffff, 0x7f000001, 0x01020304, 0x0a000001, 0x80000000, 0x7fffffff}
    v6 = {0, 1, (1 << 128) - 1, 0x20010db8 << 96 | 1, 0xfe80 << 112 | 1, 0xfc00 << 112 | 5, 1 << 127}
    for c in pol["block"] + pol["allow"]:
        n = ipaddress.ip_network(c, strict=False)
        lo, hi = int(n.network_address), int(n.broadcast_address)
        mx = (1 << n.max_prefixlen) - 1
        pts = {lo, hi, max(lo - 1, 0), min(hi + 1, mx), rng.randint(lo, hi)}
        if n.version == 6 and n.network_address.ipv4_mapped is not None and n.prefixlen >= 96:
            v4 |= {p & 0xffffffff for p in pts}
        elif n.version == 6:
            v6 |= pts
        else:
            v4 |= pts
    return sorted(v4), sorted(v6)


MALFORMED = [
    "", ":", "::", ":::", "host", "1.2.3.4", "::1", "[::1]", "[::1]:", "::1:80", "[::1]80", "[::1]::80", "[[::1]]:80",
    "[::1]:80]", "[::1:80", "::1]:80", "a[b:80", "a]b:80", "[]:80", "[:]:80", "[::1%]:80", "[%eth0]:80", "[::1%eth0%x]:80",
    "http://example.com", "http://example.com:80", "example.com:80/path", "user@h0.test:80", "1.2.3:80", "1.2.3.4.5:80",
    "01.2.3.4:80", "1.2.3.256:80", "0x7f.0.0.1:80", "2130706433:80", "127.1:80", "1.2.3.4:80:90", "[1.2.3.4]:80",
    "[h0.test]:80", " 1.2.3.4:80", "1.2.3.4 :80", "1.2.3.4\x00:80", "\x00:80", "\xff\xfe:80", "[::ffff:1.2.3.4.5]:80",
    "[::ffff:300.2.3.4]:80", "[1:2:3:4:5:6:7]:80", "[1:2:3:4:5:6:7:8:9]:80", "[1::2::3]:80", "[g::1]:80", "[12345::1]:80",
    "[::1.2.3.4]:80", "[64:ff9b::1.2.3.4]:80", "[::ffff:0:1.2.3.4]:80", "h0.test.:80", "H0.TEST:80", "-bad-.test:80",
    "a..test:80", ".test:80", "localhost:80", "LOCALHOST:80", "localhost.:80", "nx.test:80", "empty.test:80",
    "x" * 64 + ".test:80", ("a" * 60 + ".") * 5 + "test:80", "*:80", "0:80", "0.0.0.0:0", "[::]:0", ":0", ":65535", ":65536",
    ":http", "[]:", "%eth0:80", "1.2.3.4%eth0:80",
]


def base_script(rng):
    """names with answers per epoch: index 0 is used at admission, index 1 afterwards (rebinding)"""
    return {
        "h0.test": [{"a": ["93.184.216.34"]}, {"a": ["127.0.0.1"]}],
        "h1.test": [{"a": ["10.0.0.1"]}, {"a": ["93.184.216.34"]}],
        "h2.test": [{"aaaa": ["2001:db8::7"]}, {"aaaa": ["::1"]}],
        "h3.test": [{"a": ["1.2.3.4", "10.0.0.1"], "aaaa": ["2001:db8::1"]}, {"a": ["10.0.0.1"]}],
        "blocked.test2": [{"a": ["8.8.8.8"]}],
        "x.internal": [{"a": ["8.8.4.4"]}],
        "empty.test": [{}],
        "fail.test": [{"rcode": 2}],
        "x" * 64 + ".test": [{"a": ["8.8.8.8"]}],
    }


def replay_cases(ctx):
    rp = ctx.replay or {}
    out = list(rp.get("cases", []))
    for k in ("failures", "theorem_or_correspondence"):
        for f in rp.get(k, []):
            if isinstance(f.get("case"), dict):
                out.append(f["case"])
    return out


def gen_cases(ctx, policies):
    rng = ctx.rng
    quick = ctx.tier == "quick"
    cases = []

    def add(pi, s, canon=False, script=None, tag=""):
        cases.append({"policy": pi, "s": hx(s), "script": script if script is not None else base_script(rng),
                      "epoch": 0, "canon": canon, "tag": tag})

    for c in replay_cases(ctx):
        if "s" in c and "policy_spec" in c:
            cases.append({"policy": 0, "s": c["s"], "script": c.get("script") or base_script(rng), "epoch": c.get("epoch", 0),
                          "canon": c.get("canon", False), "tag": "replay", "policy_spec": c["policy_spec"]})
    # corpus: the host-less covert (candidate #2) under every fixed policy
    for pi in range(len(policies)):
        if pi < len(FIXED_POLICIES) or rng.random() < 0.3:
            for s in (":80", ":0", "[]:443"):
                add(pi, s, tag="empty-host")
            for s in ("[::ffff:93.184.216.34%eth0]:80", "[::ffff:5db8:d822%1]:443", "[0:0:0:0:0:ffff:128.138.1.1%lo]:80"):
                add(pi, s, tag="zoned-v4")
    per_addr_forms = 2 if quick else 5
    for pi, pol in enumerate(policies):
        v4, v6 = interesting_addrs(rng, pol)
        if quick and pi >= len(FIXED_POLICIES):
            v4 = rng.sample(v4, min(len(v4), 8))
            v6 = rng.sample(v6, min(len(v6), 6))
        n = 0
        for fam, addrs in (("v4", v4), ("v6", v6)):
            for a in addrs:
                forms = v4_forms(a) if fam == "v4" else v6_forms(a)
                chosen = [forms[0]] + rng.sample(forms[1:], min(len(forms) - 1, per_addr_forms - 1))
                for text, br, canon in chosen:
                    port = rng.choice(PORTS_OK if rng.random() < 0.85 else PORTS_BAD)
                    canon = canon and port in ("80", "443", "0", "1", "65535", "8080")
                    host = "[%s]" % text if br or rng.random() < 0.05 else text
                    if host != text and not br:
                        canon = False
                    add(pi, "%s:%s" % (host, port), canon=canon, tag="lit-" + fam)
                # the same address reached through a name (answers change afterwards)
                if rng.random() < (0.5 if quick else 1.0):
                    n += 1
                    name = "n%d.test" % n
                    ip = ipaddress.IPv4Address(a) if fam == "v4" else ipaddress.IPv6Address(a)
                    rec = "a" if fam == "v4" else "aaaa"
                    if fam == "v6" and ip.ipv4_mapped is not None:
                        continue
                    other = rng.choice(["127.0.0.1", "10.0.0.1", "8.8.8.8"])
                    sc = base_script(rng)
                    sc[name] = [{rec: [str(ip)]}, {"a": [other]}]
                    add(pi, "%s:%s" % (name if rng.random() < 0.9 else name.upper() + ".", rng.choice(PORTS_OK)),
                        script=sc, tag="name-" + fam)
    # malformed / odd strings under a few policies each
    npol = 2 if quick else 6
    for s in MALFORMED:
        for pi in rng.sample(range(len(policies)), npol):
            add(pi, s, tag="malformed")
    for p in PORTS_OK + PORTS_BAD:
        for pi in rng.sample(range(len(policies)), 2):
            add(pi, "93.184.216.34:" + p, tag="port")
            add(pi, "[2001:db8::5]:" + p, tag="port")
    # random byte strings and mutations of valid strings
    alphabet = b"0123456789abcdefx.:[]%-_ \x00\xffZ/@"
    for _ in range(150 if quick else 2000):
        if rng.random() < 0.5:
            s = bytes(rng.choice(alphabet) for _ in range(rng.randrange(0, 24)))
        else:
            base = bytearray(rng.choice(["1.2.3.4:80", "[2001:db8::1]:443", "h0.test:80", "[fe80::1%eth0]:22",
                                         "[::ffff:10.0.0.1]:8080"]).encode())
            for _ in range(rng.randrange(1, 3)):
                k = rng.randrange(3)
                pos = rng.randrange(len(base) + 1)
                if k == 0 and base:
                    del base[min(pos, len(base) - 1)]
                elif k == 1:
                    base.insert(pos, rng.choice(alphabet))
                elif base:
                    base[min(pos, len(base) - 1)] = rng.choice(alphabet)
            s = bytes(base)
        add(rng.randrange(len(policies)), s, tag="fuzz")
    return cases


# ------------------------------------------------------------------ fifth round: the host TEXT against the domain patterns
# policies in which a domain pattern is the ONLY thing that forbids the target (every name below resolves, through the stub,
# to an address no subnet entry covers)
HT_POLICIES = [
    {"block": [], "allow": [], "domains": ["^LOCALHOST$", "^[A-Z]+\\.CORP$", "Internal\\.Test$"]},
    {"block": ["10.0.0.0/8"], "allow": [], "domains": ["localhost", "\\.internal$", "^blocked\\.", "^db\\.corp$"]},
    {"block": [], "allow": [], "domains": ["(?i)^secret\\.test$", "^[A-Z0-9.]+$"]},
    {"block": [], "allow": ["93.184.0.0/16", "2001:db8::/32"], "domains": ["^xn--", "[^\\x00-\\x7f]", "^[a-z]+\\.Corp$"]},
]
HT_NAMES = ["blocked.test2", "x.internal", "secret.test", "db.corp", "www.internal.test", "localhost", "xn--bcher-kva.test"]
HT_ADDR = {"a": ["93.184.216.34"], "aaaa": ["2001:db8::7"]}


def ht_script():
    sc = {n: [dict(HT_ADDR)] for n in HT_NAMES if n != "localhost"}
    sc["free.test"] = [dict(HT_ADDR)]
    return sc


def ht_spellings(rng, n):
    """(class, host text) for a name n: case variants and non-ASCII spellings that UTS46 / NFKC would map onto n"""
    def fw(c):
        return chr(ord(c) - 0x61 + 0xFF41) if "a" <= c <= "z" else chr(ord(c) - 0x41 + 0xFF21) if "A" <= c <= "Z" else c

    def circ(c):
        return chr(ord(c) - 0x61 + 0x24D0) if "a" <= c <= "z" else c
    mixed = "".join(c.upper() if rng.random() < 0.5 else c for c in n)
    k = rng.randrange(len(n))
    out = [("lower", n), ("upper", n.upper()), ("title", ".".join(x.capitalize() for x in n.split("."))), ("mixed", mixed),
           ("upper-dot", n.upper() + "."),
           ("fullwidth-1", fw(n[0]) + n[1:]), ("fullwidth-k", n[:k] + fw(n[k]) + n[k + 1:]),
           ("fullwidth-upper", fw(n[0].upper()) + n[1:]),
           ("circled", "".join(circ(c) for c in n)), ("soft-hyphen", n[:2] + "\u00ad" + n[2:]),
           ("ideographic-stop", n.replace(".", "\u3002") if "." in n else n + "\u3002"),
           ("cyrillic-mix", n.replace("o", "\u043e").replace("a", "\u0430").replace("e", "\u0435")),
           ("zwj", n[:1] + "\u200d" + n[1:]), ("sharp-s", n.replace("s", "\u017f"))]
    return [(k_, h) for k_, h in out if k_ in ("lower",) or h != n]


def gen_hosttext(ctx, policies):
    """appends HT_POLICIES to policies; every name x spelling x policy, plus the IDN whose ASCII form is scripted"""
    rng = ctx.rng
    base = len(policies)
    policies.extend(HT_POLICIES)
    cases = []
    sc = ht_script()
    for pi in range(len(HT_POLICIES)):
        for n in HT_NAMES + ["free.test"]:
            for cls, h in ht_spellings(rng, n):
                port = "443" if rng.random() < 0.8 else rng.choice(PORTS_OK)
                cases.append({"policy": base + pi, "s": hx(("%s:%s" % (h, port)).encode("utf8")), "script": sc, "epoch": 0,
                              "canon": False, "tag": "ht-" + cls})
        for h in ("b\u00fccher.test", "B\u00dcCHER.test", "bu\u0308cher.test"):
            cases.append({"policy": base + pi, "s": hx(("%s:443" % h).encode("utf8")), "script": sc, "epoch": 0,
                          "canon": False, "tag": "ht-idn"})
    return cases


def ht_count(ctx, pol, c, r):
    """outcome kinds of the host-text class (required: a generator that stops producing them fails the self-test)"""
    if not c.get("tag", "").startswith("ht-") or not r["split_ok"]:
        return
    host, out = unhx(r["host"]), unhx(r["out"])
    dm = py_dom_match(pol, host)
    ascii_ = all(b < 0x80 for b in host)
    upper = any(0x41 <= b <= 0x5a for b in host)
    only_upper_pats = dm and not any(re.search(p, host.decode("utf8").lower()) for p in pol["domains"])
    h = ctx.cov["histogram"]

    def bump(k):
        h[k] = h.get(k, 0) + 1
    if out == b"":
        if dm and ascii_ and upper and only_upper_pats:
            bump("hosttext/rejected/upper-case-pattern")
        elif dm and ascii_:
            bump("hosttext/rejected/pattern")
        elif dm:
            bump("hosttext/rejected/non-ascii-pattern")
        elif not ascii_:
            bump("hosttext/rejected/non-ascii-unresolvable")
    else:
        bump("hosttext/accepted/" + ("upper" if upper else "lower") + ("-name" if r.get("qnames") else ""))


def gen_std(ctx, cases):
    rng = ctx.rng
    quick = ctx.tier == "quick"
    std = []
    for p in PORTS_OK + PORTS_BAD + [str(rng.randrange(0, 70000)) for _ in range(40)] + \
            ["".join(rng.choice("0123456789 +-_a") for _ in range(rng.randrange(0, 8))) for _ in range(60)]:
        std.append({"op": "port", "a": hx(p), "b": "", "cidr": ""})
    hosts = ["", "1.2.3.4", "::1", "fe80::1%eth0", "h0.test", "a:b", "[x]", "x]y", ":", "%"]
    for h in hosts:
        for p in ["80", "", "x:y"]:
            std.append({"op": "join", "a": hx(h), "b": hx(p), "cidr": ""})
    # textual forms of addresses: netip.ParseAddr / net.ParseIP / IP.String against the concrete Gallina functions
    lits = ["", "1.2.3.4", "0.0.0.0", "255.255.255.255", "256.1.1.1", "1.2.3", "1.2.3.4.5", "01.2.3.4", "1.2.3.04", "1.2.3.4.",
            ".1.2.3.4", "1..2.3", "1.2.3.4x", "1.2.3.-4", "0x1.2.3.4", "1.2.3.4%eth0", "00.0.0.0", "1.2.3.0", "1.2.3.00", "1.2.3.256",
            "1.2.3.1000", "999999999999999999999.1.1.1", "1.2.3.4\x00", "\x001.2.3.4", "1.2. 3.4",
            "::", "::1", "1::", "::1:2", "1:2::", "1::2", "1:2:3:4:5:6:7:8", "1:2:3:4:5:6:7::", "::2:3:4:5:6:7:8", "1:2:3:4:5:6:7:8:9",
            "1:2:3:4:5:6:7", "1::2::3", ":1:2:3:4:5:6:7:8", "1:2:3:4:5:6:7:8:", ":::", "::::", ":", "1:", ":1", "12345::", "1234::",
            "fFfF::Ab", "g::", "::g", "::ffff:1.2.3.4", "::FFFF:1.2.3.4", "::ffff:102:304", "0:0:0:0:0:ffff:1.2.3.4", "::1.2.3.4",
            "64:ff9b::1.2.3.4", "1:2:3:4:5:6:1.2.3.4", "1:2:3:4:5:6:7:1.2.3.4", "1:2:3:4:5:1.2.3.4", "1:2:3:4:5:6:7:8:1.2.3.4",
            "::ffff:1.2.3", "::ffff:1.2.3.4.5", "::ffff:01.2.3.4", "::ffff:256.2.3.4", "::1.2.3.4:5", "1.2.3.4::", "::ffff:1.2.3.4%z",
            "::1%lo", "::1%", "%lo", "::1%lo%x", "fe80::1%eth0", "fe80::1%25eth0", "fe80::1%[x]", "[::1]", "[::1%lo]", "::1\x00",
            "::\x001", "0::0", "0:0::0:0", "::0:0:1", "1:0:0:2:0:0:0:3", "1:0:0:0:2:0:0:3", "0:0:1:0:0:1:0:0", "1:0:2:0:3:0:4:0",
            "2001:db8::", "2001:0db8:0000:0000:0000:0000:0000:0001", "2001:db8:0:0:1:0:0:1", "ffff:ffff:ffff:ffff:ffff:ffff:ffff:ffff",
            "10000::", "::10000", "1:2:3:4:5:6:7:88888", "a:b:c:d:e:f:0:1", "::ffff:0:1.2.3.4", "::fffe:1.2.3.4", "1::1.2.3.4",
            "1:2:3:4:5:6::1.2.3.4", "1:2:3:4:5::1.2.3.4", "::1.2.3.4%eth1", "1.2.3.4:80", "[::1]:80", "::1:80"]
    lits = [x.encode("latin1").decode("unicode_escape") for x in lits]
    for _ in range(150 if quick else 2500):
        r = rng.random()
        if r < 0.3:
            a = ipaddress.IPv6Address(rng.getrandbits(128) & rng.getrandbits(128) & (rng.getrandbits(128) | rng.getrandbits(128)))
            t = rng.choice([a.compressed, a.exploded, a.compressed.upper()])
        elif r < 0.45:
            t = str(ipaddress.IPv4Address(rng.getrandbits(32)))
        elif r < 0.55:
            t = "::ffff:" + str(ipaddress.IPv4Address(rng.getrandbits(32)))
        else:
            # random walk over the address alphabet, group-structured
            n = rng.randrange(1, 10)
            parts = ["".join(rng.choice("0123456789abcdefAF") for _ in range(rng.choice([0, 1, 1, 2, 3, 4, 4, 5]))) for _ in range(n)]
            t = rng.choice([":", "."]).join(parts) if rng.random() < 0.3 else ":".join(parts)
            if rng.random() < 0.3:
                k = rng.randrange(len(t) + 1)
                t = t[:k] + rng.choice(["::", ":", ".", "%", "%e", "1.2.3.4", "0"]) + t[k:]
        if rng.random() < 0.1:
            t += rng.choice(["%eth0", "%", "%1", "%a%b"])
        lits.append(t)
    for t in lits:
        std.append({"op": "parseaddr", "a": hx(t.encode("latin1") if all(ord(ch) < 256 for ch in t) else t), "b": "", "cidr": ""})
    rawips = [b"", bytes(4), bytes(16), bytes([1, 2, 3, 4]), bytes(10) + b"\xff\xff" + bytes([1, 2, 3, 4]), bytes(5), bytes(3), bytes(17),
              bytes([255] * 16), bytes([0] * 15 + [1]), bytes.fromhex("20010db8000000000001000000000001"),
              bytes.fromhex("00010000000000020000000000000003"), bytes.fromhex("00010000000000000002000000000003"),
              bytes.fromhex("00000000000100000000000100000000"), bytes.fromhex("0001000000020000000300000004" + "0000"),
              bytes.fromhex("fe800000000000000000000000000001"), bytes.fromhex("0000000000000000000000000a000001"),
              bytes.fromhex("00000000000000000000fffe01020304"), bytes.fromhex("0abc00de0f000001000000000000abcd")]
    for _ in range(100 if quick else 2000):
        if rng.random() < 0.4:
            rawips.append(rng.getrandbits(32).to_bytes(4, "big"))
        else:
            rawips.append((rng.getrandbits(128) & rng.getrandbits(128) & rng.getrandbits(128)).to_bytes(16, "big"))
    for b in rawips:
        std.append({"op": "ipstr", "a": b.hex(), "b": "", "cidr": ""})
    raws = [b"", bytes(4), bytes(16), bytes([127, 0, 0, 1]), bytes(10) + b"\xff\xff" + bytes([10, 0, 0, 1]),
            bytes(5), bytes(15), bytes(17), bytes(10) + b"\xff\xfe" + bytes([10, 0, 0, 1])]
    cidrs = ["10.0.0.0/8", "0.0.0.0/0", "::/0", "::ffff:10.0.0.0/104", "::ffff:0:0/96", "::ffff:0:0/90", "::/96",
             "1.2.3.4/32", "2001:db8::/32", "::1/128", "255.255.255.255/32", "0.0.0.0/32", "::ffff:10.1.2.3/128"]
    for _ in range(60 if quick else 600):
        cidrs.append(rand_cidr(rng))
    for c in cidrs:
        n = ipaddress.ip_network(c, strict=False)
        lo, hi = int(n.network_address), int(n.broadcast_address)
        mx = (1 << n.max_prefixlen) - 1
        pts = [lo, hi, max(lo - 1, 0), min(hi + 1, mx), rng.randint(lo, hi), rng.getrandbits(n.max_prefixlen)]
        ips = list(raws[:3 if quick else len(raws)])
        for p in pts:
            b = p.to_bytes(n.max_prefixlen // 8, "big")
            ips.append(b)
            if len(b) == 4:
                ips.append(bytes(10) + b"\xff\xff" + b)
            elif b[:12] == bytes(10) + b"\xff\xff":
                ips.append(b[12:])
        for ip in ips:
            std.append({"op": "contains", "a": ip.hex(), "b": "", "cidr": c})
    return std


# ------------------------------------------------------------------ Gallina emitters
def g_bytes_hex(h):
    return hexs(unhx(h))


def g_net(n):
    return "(%s, %s)" % (g_bytes_hex(n["ip"]), g_bytes_hex(n["mask"]))


def g_policy(d):
    return "(Build_policy %s %s %s %s)" % (glist(d["block"], g_net), glist(d["allow"], g_net), gbool(d["allow_on"]),
                                            glist(range(d["ndom"]), gN))


def g_oracle(r):
    pw = gopt(r["parse_whole"] or None, g_bytes_hex)
    sp = "(Some (%s, %s))" % (g_bytes_hex(r["host"]), g_bytes_hex(r["port"])) if r["split_ok"] else "None"
    ph = gopt(r["parse_host"] or None, g_bytes_hex)
    rs = r["resolve"]
    res = "(Some (%s, %s))" % (g_bytes_hex(rs["ip"]), g_bytes_hex(rs["zone"])) if rs["ok"] and not rs["nil"] else "None"
    return "(Build_oracle %s %s %s %s %s %s)" % (pw, sp, ph, res, g_bytes_hex(rs.get("ipstr", "")),
                                                 glist(r["dom_match"], gbool))


def g_case(pd, c, r):
    out = "None" if r["out"] == "" else "(Some %s)" % g_bytes_hex(r["out"])
    return "(%s, %s, %s, (%s, %s))" % (g_policy(pd), g_bytes_hex(c["s"]), g_oracle(r), out, gbool(r["lookup"]))


# ------------------------------------------------------------------ dial cases
DIAL_POLICIES = [
    {"block": [], "allow": [], "domains": []},
    {"block": ["127.0.0.2/32", "127.1.0.0/16"], "allow": [], "domains": []},
    {"block": [], "allow": ["127.0.0.0/30", "::1/128"], "domains": []},
    {"block": ["127.0.0.0/8", "::1/128"], "allow": [], "domains": []},
    {"block": ["::1/128", "127.0.0.3/32"], "allow": [], "domains": ["^local"]},
]
DIAL_SCRIPT = {
    "rebind.test": [{"a": ["127.0.0.1"]}, {"a": ["127.0.0.2"]}],
    "rebind2.test": [{"a": ["127.0.0.3"]}, {"a": ["127.0.0.1"]}],
    "rebind6.test": [{"aaaa": ["::1"]}, {"a": ["127.0.0.3"]}],
    "multi.test": [{"a": ["127.0.0.3", "127.0.0.1"]}, {"a": ["127.0.0.2"]}],
    "away.test": [{"a": ["127.1.2.3"]}, {}],
}
DIAL_STRINGS = ["127.0.0.1:PORT", "127.0.0.2:PORT", "127.0.0.3:PORT", "127.1.2.3:PORT", "[::1]:PORT", "[::ffff:127.0.0.1%lo]:PORT",
                "[::ffff:127.0.0.3]:PORT", "[0:0:0:0:0:0:0:1]:PORT", "rebind.test:PORT", "rebind2.test:PORT",
                "rebind6.test:PORT", "multi.test:PORT", "away.test:PORT", "localhost:PORT", ":PORT", "[]:PORT",
                "127.0.0.1:0PORT", "nx.test:PORT"]


def run_dial(ctx):
    quick = ctx.tier == "quick"
    cases = []
    for pi in range(len(DIAL_POLICIES)):
        strs = DIAL_STRINGS if not quick else \
            [s for i, s in enumerate(DIAL_STRINGS) if (i + pi) % 3 == 0 or s.startswith(("rebind", ":", "[::ffff:127.0.0.1%"))]
        for s in strs:
            cases.append({"policy": pi, "s": hx(s), "script": DIAL_SCRIPT, "epoch": 0})
    rc, out, res = ctx.go_inpkg(".", PKG, DRV, "^TestVerifC06Dial$", {"policies": DIAL_POLICIES, "cases": cases},
                                timeout=600)
    if res is None or len(res.get("results", [])) != len(cases):
        ctx.broken("driver", "Go dial driver did not produce results: %s" % out[-800:])
        return
    has_v6 = res["has_v6"]
    for c, r in zip(cases, res["results"]):
        pol = DIAL_POLICIES[c["policy"]]
        prov, exp, cov = unhx(r["provided"]), unhx(r["expected"]), unhx(r["covert"])
        info = {"policy": pol, "provided": prov.decode("latin1"), "expected_literal": exp.decode("latin1"),
                "observed": {k: r[k] for k in ("valid", "announced", "dialed", "dial_query")},
                "covert_after_ingest": cov.decode("latin1"), "script": DIAL_SCRIPT}
        kind = "dial/" + ("admitted" if r["valid"] else "rejected")
        ctx.count(("dial", c["policy"], c["s"]), nontrivial=True, kind=kind)
        if r.get("panic"):
            ctx.fail("dial/panic", "ingest/Proxy panicked or hung: %s" % r["panic"], info)
            continue
        if not r["valid"]:
            if r["dialed"]:
                ctx.fail("dial/rejected-but-dialed", "a connection was made for a registration that is not valid", info)
            if exp != b"":
                ctx.broken("dial-harness", "covert accepted by the policy but the registration was not admitted", info)
            continue
        # admitted: the stored covert is the literal computed at admission, it passes the policy, and it is
        # what the recorder saw — although every name resolves elsewhere by now
        parsed, why = py_parse_out(cov)
        if parsed is None:
            ctx.fail("dial/admitted-" + why, "admitted registration's covert %r is not a literal IP:port (%s)" % (cov, why), info)
            continue
        ip, zone, port = parsed
        if cov != exp:
            ctx.fail("dial/covert-not-the-checked-literal", "stored covert %r differs from the checked literal %r" % (cov, exp), info)
        if py_blocked(pol, ip):
            ctx.fail("dial/admitted-blocked-ip", "admitted covert %r is forbidden by the policy" % cov, info)
        if ip.version == 6 and not has_v6:
            continue
        want = "%s:%d" % (("[%s]" % py_unmap(ip)) if py_unmap(ip).version == 6 else py_unmap(ip), port)
        if r["dialed"] != [want]:
            ctx.fail("dial/dialed-differs-from-checked", "recorder saw %s, the checked address was %s" % (r["dialed"], want), info)
        if r["dial_query"] != 0:
            ctx.fail("dial/resolved-again-at-dial", "%d DNS question(s) were asked while dialling" % r["dial_query"], info)
    ctx.sample({"dial_case": {"provided": unhx(res["results"][0]["provided"]).decode("latin1"),
                              "observed": res["results"][0]}})


def judge(ctx, pol, pdump, c, r, kp="", extra=None):
    """direct oracle for one call of ParseOrResolveBlocklisted under policy pol (the policy in force at that call);
    returns (Gallina case term, info) or None.  kp prefixes the failure keys (history lane)."""
    s, outb = unhx(c["s"]), unhx(r["out"])
    info = {"policy_spec": pol, "policy": 0, "s": c["s"], "s_text": s.decode("latin1"), "script": c["script"],
            "epoch": c["epoch"], "canon": c.get("canon", False),
            "observed": {"out": outb.decode("latin1"), "lookup": r["lookup"], "queries": r["queries"]}}
    if r.get("panic"):
        ctx.count((c["policy"], c["s"]), kind="panic")
        ctx.fail(kp + "panic", "ParseOrResolveBlocklisted panicked: %s" % r["panic"], info)
        return None
    host = unhx(r["host"]) if r["split_ok"] else None
    if outb == b"":
        kind = kp + "rejected/" + ("nosplit" if not r["split_ok"] else
                              "dns-fail" if not r["resolve"]["ok"] else
                              "no-ip" if r["resolve"]["ip"] == "" else "policy-or-port")
    else:
        kind = kp + "accepted/" + ("name" if r["queries"] else "literal")
    ctx.count((pol, c["s"], c["script"] if r["queries"] else None), nontrivial=True, kind=kind)
    # ---- direct oracle on the implementation's observables (independent of the Coq model)
    if outb != b"":
        parsed, why = py_parse_out(outb)
        if parsed is None:
            key = "accepted/" + why
            ctx.fail(kp + key, "accepted covert %r returned as %r, which is not a literal IP:port (%s)%s"
                     % (s, outb, why, "; net.Dial connects it to the local host" if why == "empty-host" else ""), info)
        else:
            ip, zone, port = parsed
            if py_blocked(pol, ip):
                fam = "v4-mapped" if (ip.version == 6 and ip.ipv4_mapped is not None) or b"ffff" in s.lower() else "v%d" % ip.version
                ctx.fail(kp + "accepted/forbidden-ip/%s/%s" % ("allowlist" if pol["allow"] else "blocklist", fam),
                         "accepted covert %r -> %r although the policy forbids %s" % (s, outb, ip), info)
            dm = py_dom_match(pol, host)
            if dm:
                plain = all(0x61 <= b <= 0x7a or b in b"0123456789.-_" for b in host)
                ctx.fail(kp + "accepted/domain-pattern" + ("" if plain else "/host-text"), "accepted covert %r although its host "
                         "matches a blocklisted domain pattern" % s, info)
            # the name the name system was asked for is the text the patterns were checked against (DNS names compare
            # without ASCII case and without the root dot), and it matches no pattern either
            if not r["resolve"]["ok"]:
                ctx.fail(kp + "accepted/checked-text-unresolvable", "accepted covert %r -> %r although the host text that was "
                         "checked against the domain patterns does not resolve: something else was resolved" % (s, outb), info)
            for qn in [unhx(x) for x in r.get("qnames", [])]:
                # the wire form has no root dot: the text handed to the resolver is the question name plus the root dot
                # when the host was written with one (the resolver never adds or drops labels: no search list here)
                if (host or b"").endswith(b".") and not qn.endswith(b"."):
                    qn += b"."
                if qn.rstrip(b".").lower() != (host or b"").rstrip(b".").lower():
                    ctx.fail(kp + "accepted/resolved-name-differs-from-checked-text", "accepted covert %r: the name system was "
                             "asked for %r, the domain patterns were checked against %r" % (s, qn, host), info)
                if py_dom_match(pol, qn):
                    ctx.fail(kp + "accepted/resolved-name-matches-pattern", "accepted covert %r: the name %r that was resolved "
                             "matches a blocklisted domain pattern" % (s, qn), info)
            # resolved once, and the returned literal needs no resolution
            names = [q.split("/")[0] for q in r["queries"]]
            if len(set(r["queries"])) != len(r["queries"]):
                ctx.fail(kp + "resolved-twice", "the same DNS question was asked twice while checking %r: %s" % (s, r["queries"]), info)
            if r["out_queries"] != 0:
                ctx.fail(kp + "literal-needs-resolution", "the returned string %r caused DNS questions when used again" % outb, info)
            re_out = unhx(r["out_reparsed"])
            lit_host = OUT_RE.fullmatch(outb)
            lit_host = lit_host.group(1) if lit_host.group(1) is not None else lit_host.group(2)
            if re_out != outb and not py_dom_match(pol, lit_host):
                ctx.fail(kp + "literal-not-stable", "the returned literal %r is not accepted unchanged after the name "
                         "system changed (got %r)" % (outb, re_out), info)
    # permitted canonical literal must be accepted unchanged
    if c.get("canon"):
        parsed, why = py_parse_out(s)
        if parsed is not None and not py_blocked(pol, parsed[0]) and py_dom_match(pol, host or b"") is False:
            if outb != s:
                ctx.fail(kp + "permitted-literal-changed", "well-formed permitted %r was returned as %r" % (s, outb), info)
            else:
                ctx.cov["histogram"]["canon-unchanged"] = ctx.cov["histogram"].get("canon-unchanged", 0) + 1
    # G1 observed: splittable strings are not IP literals
    if r["split_ok"] and r["parse_whole"]:
        ctx.broken("assumption-G1", "net.ParseIP accepts %r although SplitHostPort splits it" % s, info)
    return (g_case(pdump, c, r), info)




# ------------------------------------------------------------------ histories on one RegistrationManager
def lit_ip(s):
    parsed, _ = py_parse_out(s.encode() if isinstance(s, str) else s)
    return parsed[0] if parsed else None


def gen_histories(ctx):
    """call sequences on ONE RegConfig: check s under P1; OnReload(P2); check s again (and other spellings of the same
    address); reload back; ... plus ingest-level sequences with the dial recorder"""
    rng = ctx.rng
    quick = ctx.tier == "quick"
    pols = list(FIXED_POLICIES) + list(DIAL_POLICIES)
    nf = len(FIXED_POLICIES)
    pairs = [(0, 1), (1, 0), (2, 1), (1, 2), (3, 4), (4, 3), (0, 4), (4, 0), (11, 1), (1, 11), (9, 8), (8, 9), (2, 0), (0, 2),
             (6, 0), (0, 6), (7, 0), (0, 7), (5, 8), (8, 5), (2, 9), (3, 0)]
    if quick:
        pairs = pairs[:8] + rng.sample(pairs[8:], 5)
    for _ in range(2 if quick else 60):
        pairs.append((rng.randrange(nf), rng.randrange(nf)))
    hists = []
    for p1, p2 in pairs:
        v4a, v6a = interesting_addrs(rng, {"block": pols[p1]["block"] + pols[p2]["block"], "allow": pols[p1]["allow"] + pols[p2]["allow"]})
        cands = []
        for a in v4a:
            cands.append(("%s:80" % ipaddress.IPv4Address(a), "[::ffff:%s]:80" % ipaddress.IPv4Address(a)))
        for a in v6a:
            ip = ipaddress.IPv6Address(a)
            if ip.ipv4_mapped is None:
                cands.append(("[%s]:443" % ip.compressed, "[%s]:443" % ip.exploded))
        differ = [c for c in cands if py_blocked(pols[p1], lit_ip(c[0])) != py_blocked(pols[p2], lit_ip(c[0]))]
        same = [c for c in cands if c not in differ]
        chosen = rng.sample(differ, min(len(differ), 3 if quick else 6)) + rng.sample(same, min(len(same), 1 if quick else 3))
        strs = [c[0] for c in chosen] + ["h0.test:80", "h1.test:443"]
        ops = [{"op": "check", "s": hx(x)} for x in strs]
        ops.append({"op": "reload", "policy": p2})
        ops += [{"op": "check", "s": hx(x)} for x in strs]
        ops += [{"op": "check", "s": hx(c[1])} for c in chosen]            # another spelling of the same address
        ops += [{"op": "check", "s": hx(strs[0])}] if strs else []          # the same string once more
        ops.append({"op": "reload", "policy": p1})
        ops += [{"op": "check", "s": hx(x)} for x in strs[:4]]
        hists.append({"start": p1, "ops": ops, "script": base_script(rng)})
    # ingest level: registration 1 naming X admitted, reload forbidding X's address, registration 2 naming X
    d = nf
    ing = [
        (d + 0, ["127.0.0.2:PORT"], d + 1), (d + 0, ["rebind.test:PORT", "127.0.0.1:PORT"], d + 3), (d + 2, ["127.0.0.3:PORT", "127.0.0.1:PORT"], d + 4),
        (d + 1, ["127.0.0.1:PORT", "127.0.0.2:PORT"], d + 2), (d + 0, ["[::ffff:127.0.0.3]:PORT", "127.1.2.3:PORT"], d + 1),
        (d + 4, ["127.0.0.1:PORT"], d + 3),
    ]
    for start, coverts, other in ing:
        ops = [{"op": "ingest", "s": hx(c)} for c in coverts]
        ops.append({"op": "reload", "policy": other})
        ops += [{"op": "ingest", "s": hx(c)} for c in coverts]
        ops += [{"op": "ingest", "s": hx(coverts[0])}]
        ops.append({"op": "reload", "policy": start})
        ops += [{"op": "ingest", "s": hx(c)} for c in coverts]
        hists.append({"start": start, "ops": ops, "script": DIAL_SCRIPT})
    return pols, hists


def run_histories(ctx, terms):
    pols, hists = gen_histories(ctx)
    rc, out, res = ctx.go_inpkg(".", PKG, DRV, "^TestVerifC06History$", {"policies": pols, "histories": hists}, timeout=900)
    if res is None or len(res.get("results", [])) != len(hists):
        ctx.broken("driver", "Go history driver did not produce results: %s" % out[-800:])
        return
    for hi, (h, rs) in enumerate(zip(hists, res["results"])):
        cur = h["start"]
        trail = ["start under policy %s" % pols[cur]]
        for oi, (op, r) in enumerate(zip(h["ops"], rs)):
            if r.get("panic"):
                ctx.fail("history/panic", "history step panicked: %s" % r["panic"], {"history": h, "step": oi})
                break
            if op["op"] == "reload":
                cur = op["policy"]
                trail.append("OnReload(%s)" % pols[cur])
                d = r["dump"]
                if len(d["block"]) != len(pols[cur]["block"]) or len(d["allow"]) != len(pols[cur]["allow"]) or \
                        d["allow_on"] != bool(pols[cur]["allow"]):
                    # OnReload keeps enableCovertAllowlist as the new config says; a config without allowlist turns it off
                    ctx.broken("history/reload-not-installed", "after OnReload the lists in force are %s, configured %s"
                               % (d, pols[cur]), {"history": h, "step": oi})
                ctx.count(("hist", hi, oi), nontrivial=True, kind="history/reload")
                continue
            pol = pols[cur]
            if op["op"] == "check":
                trail.append("check %r" % unhx(op["s"]).decode("latin1"))
                c = {"policy": cur, "s": op["s"], "script": h["script"], "epoch": 0, "canon": False}
                t = judge(ctx, pol, r["dump"], c, r["check"], kp="history/",
                          extra={"history": list(trail), "note": "ONE RegConfig; the policy in force at this call is policy_spec"})
                if t is not None:
                    terms.append(t)
            else:
                x = r["ingest"]
                prov, cov = unhx(x["provided"]), unhx(x["covert"])
                trail.append("ingest registration with covert %r" % prov.decode("latin1"))
                info = {"history": list(trail), "policy_in_force": pol, "observed": {k: x[k] for k in ("valid", "dialed", "dial_query")},
                        "covert_after_ingest": cov.decode("latin1")}
                ctx.count(("hist", hi, oi), nontrivial=True, kind="history/ingest-" + ("admitted" if x["valid"] else "rejected"))
                if x.get("panic"):
                    ctx.fail("history/panic", "ingest/Proxy panicked or hung: %s" % x["panic"], info)
                    continue
                if not x["valid"]:
                    if x["dialed"]:
                        ctx.fail("history/rejected-but-dialed", "a connection was made for a registration that is not valid", info)
                    continue
                parsed, why = py_parse_out(cov)
                if parsed is None:
                    ctx.fail("history/admitted-" + why, "admitted registration's covert %r is not a literal IP:port" % cov, info)
                    continue
                ip, zone, port = parsed
                if py_blocked(pol, ip):
                    ctx.fail("history/admitted-after-reload-forbids", "a registration naming %r was admitted and dialled (%s) although the "
                             "policy installed by the last reload forbids %s" % (prov, x["dialed"], ip), info)
                want = "%s:%d" % (("[%s]" % py_unmap(ip)) if py_unmap(ip).version == 6 else py_unmap(ip), port)
                if x["dialed"] != [want]:
                    ctx.fail("history/dialed-differs-from-checked", "recorder saw %s, the checked address was %s" % (x["dialed"], want), info)



# ------------------------------------------------------------------ every path to the dial: operation sequences with
# duplicates on ONE RegistrationManager, wrapping and connecting transports (TestVerifC06Seq)
SEQ_LISTEN = ["127.0.0.1", "127.0.0.2", "127.0.0.3", "127.1.2.3"]
SEQ_DEAD = "127.0.0.9"                   # permitted by most policies, nothing listens there
SEQ_PBLOCK = ["192.122.190.128/25"]      # phantom blocklist: half of the generation-1 phantom subnet
NEP = 12                                 # resolver epochs scripted per name


def seq_script(a, f):
    """a: an address the start policy permits, f: one it forbids (either may be None)"""
    a = a or "127.0.0.1"
    f = f or a
    return {
        "good.test": [{"a": [a]}] * NEP,
        "bad.test": [{"a": [f]}] * NEP,
        "flip.test": [{"a": [a]}] + [{"a": [f]}] * (NEP - 1),          # permitted at admission, forbidden ever after
        "flop.test": [{"a": [f]}] + [{"a": [a]}] * (NEP - 1),
        "dead.test": [{"a": [SEQ_DEAD]}] + [{"a": [f]}] * (NEP - 1),    # admitted literal does not answer; the name moves on
        "dead2.test": [{"a": [SEQ_DEAD]}] + [{"a": [a]}] * (NEP - 1),
        "six.test": [{"aaaa": ["::1"]}] + [{"a": [f]}] * (NEP - 1),
    }


def seq_kind(secret):
    """clients 2, 3, 5 use the connecting transport; clients 4 and 5 have a phantom inside the station's phantom blocklist"""
    return "conn" if secret in (2, 3, 5) else "wrap"


def gen_seq(ctx):
    rng = ctx.rng
    quick = ctx.tier == "quick"
    pols = list(DIAL_POLICIES)
    hists = []

    def ing(secret, covert, epoch=0, source="api", prescanned=True, live=False, conn_ok=True):
        return {"op": "ingest", "secret": secret, "kind": seq_kind(secret), "covert": hx(covert), "source": source,
                "prescanned": prescanned, "live": live, "conn_ok": conn_ok, "epoch": epoch}

    def cin(secret, epoch=1):
        return {"op": "connin", "secret": secret, "kind": seq_kind(secret), "epoch": epoch}

    def exp(secret):
        return {"op": "expire", "secret": secret, "kind": seq_kind(secret)}

    def rel(pi):
        return {"op": "reload", "policy": pi}

    def perm_forb(pi):
        perm = [x for x in SEQ_LISTEN if not py_blocked(pols[pi], ipaddress.ip_address(x))]
        forb = [x for x in SEQ_LISTEN if py_blocked(pols[pi], ipaddress.ip_address(x))]
        return perm, forb

    # replayed sequences first (policies are indices into DIAL_POLICIES, which is fixed)
    for c in replay_cases(ctx):
        sh = c.get("seq_history") if isinstance(c, dict) else None
        if sh and all(o.get("policy", 0) < len(pols) for o in sh["ops"]) and sh["start"] < len(pols):
            hists.append({"start": sh["start"], "script": sh["script"], "tag": "replay", "ops": sh["ops"]})
    for pi in range(len(pols)):
        perm, forb = perm_forb(pi)
        if not perm or not forb:
            continue
        a, f = rng.choice(perm), rng.choice(forb)
        A, F = "%s:PORT" % a, "%s:PORT" % f
        sc = seq_script(a, f)
        # a policy under which a is forbidden (for the reload template)
        others = [qi for qi in range(len(pols)) if py_blocked(pols[qi], ipaddress.ip_address(a))]
        for s in (0, 2):                                   # secret 0: wrapping transport, secret 2: connecting transport
            # T1 duplicates of a VALID registration: forbidden literal, name -> forbidden, v4-mapped forbidden literal
            hists.append({"start": pi, "script": sc, "tag": "dup-literal", "ops": [
                ing(s, A), ing(s, F, 1), cin(s, 2), ing(s, "bad.test:PORT", 3), cin(s, 4),
                ing(s, "[::ffff:%s]:PORT" % f, 5), cin(s, 6), ing(s, A, 7), cin(s, 8)]})
            # T2 names: permitted at admission, the duplicate arrives when the name points to a forbidden address
            hists.append({"start": pi, "script": sc, "tag": "dup-name", "ops": [
                ing(s, "flip.test:PORT", 0), ing(s, "flip.test:PORT", 1), cin(s, 2), ing(s, "good.test:PORT", 3),
                ing(s, "nx.test:PORT", 4), cin(s, 5)]})
            # T3 across OnReload and expiry
            if others:
                q = rng.choice(others)
                hists.append({"start": pi, "script": sc, "tag": "reload", "ops": [
                    ing(s, A), rel(q), ing(s, A, 1), ing(s, F, 1), cin(s, 2), ing(s + 1, A, 2), cin(s + 1, 3),
                    exp(s), cin(s, 3), ing(s, A, 4), cin(s, 5), rel(pi), ing(s, A, 6), exp(s), ing(s, F, 7), cin(s, 8),
                    exp(s), ing(s, A, 9), cin(s, 10)]})
            # T4 duplicates BEFORE validation: the first one is dropped (live phantom / forbidden covert) and stays tracked
            hists.append({"start": pi, "script": sc, "tag": "pre-valid", "ops": [
                ing(s, A, 0, prescanned=False, live=True), ing(s, F, 1), ing(s, A, 2), cin(s, 3),
                ing(s + 1, F, 3), ing(s + 1, A, 4), cin(s + 1, 5), exp(s + 1), ing(s + 1, A, 6), cin(s + 1, 7)]})
            # T5 the admitted literal does not answer while the name has moved on
            if not py_blocked(pols[pi], ipaddress.ip_address(SEQ_DEAD)):
                hists.append({"start": pi, "script": sc, "tag": "dead", "ops": [
                    ing(s, "dead.test:PORT", 0), cin(s, 1), ing(s, "dead.test:PORT", 2), cin(s, 3),
                    ing(s + 1, "dead2.test:PORT", 0), cin(s + 1, 1)]})
        # T6 Connect fails; detector-sourced registrations (phantom blocklist applies after the covert check)
        hists.append({"start": pi, "script": sc, "tag": "connfail", "ops": [
            ing(2, A, 0, conn_ok=False), ing(2, F, 1), cin(2, 2),
            ing(3, A, 0, source="detector"), ing(3, F, 1, source="detector"), cin(3, 2),
            ing(1, A, 0, source="detector", prescanned=False), ing(1, F, 1), cin(1, 2),
            # phantom inside the station's phantom blocklist: from the detector it is dropped AFTER the covert check (stays tracked),
            # over the API it never gets past validation
            ing(5, A, 3, source="detector"), ing(5, F, 4, source="detector"), cin(5, 5), ing(4, A, 5), ing(4, F, 6), cin(4, 7)]})
    # random sequences
    for _ in range(10 if quick else 120):
        pi = rng.randrange(len(pols))
        perm, forb = perm_forb(pi)
        a = rng.choice(perm) if perm else None
        f = rng.choice(forb) if forb else None
        sc = seq_script(a, f)
        pool = ["%s:PORT" % x for x in SEQ_LISTEN] + ["good.test:PORT", "bad.test:PORT", "flip.test:PORT", "flop.test:PORT",
                                                      "dead.test:PORT", ":PORT", "[::ffff:127.0.0.2]:PORT", "127.0.0.1:0PORT",
                                                      "six.test:PORT", "[::1]:PORT", "localhost:PORT"]
        ops, ep = [], 0
        for _ in range(rng.randrange(5, 12)):
            x = rng.random()
            s = rng.randrange(6)
            if x < 0.55:
                ops.append(ing(s, rng.choice(pool), ep, source=rng.choice(["api", "api", "detector"]),
                               prescanned=rng.random() < 0.8, live=rng.random() < 0.3, conn_ok=rng.random() < 0.85))
            elif x < 0.8:
                ops.append(cin(s, ep))
            elif x < 0.9:
                ops.append(rel(rng.randrange(len(pols))))
            else:
                ops.append(exp(s))
            ep = min(ep + 1, NEP - 1)
        hists.append({"start": pi, "script": sc, "tag": "random", "ops": ops})
    return pols, hists


def g_tracked(t):
    if not t["tracked"]:
        return "None"
    return "(Some (%s, %s))" % (g_bytes_hex(t["covert"]), gbool(t["valid"]))


def seq_key(op):
    return op.get("secret", 0)


def g_seq_case(start_dump, h, rs):
    steps = []
    for op, r in zip(h["ops"], rs):
        if op["op"] == "reload":
            steps.append("(SReload %s)" % g_policy(r["dump"]))
        elif op["op"] == "ingest":
            reg = "(Build_sreg %s %s %s %s %s %s)" % (gN(seq_key(op)), "Connecting" if op["kind"] == "conn" else "Wrapping",
                                                     g_bytes_hex(r["provided"]), gbool(r["valid_in"]), gbool(r["g_live"]), gbool(r["pblock"]))
            steps.append("(SIngest %s %s %s %s %s %s)" % (reg, gbool(op["conn_ok"]), g_oracle(r["check"]), g_tracked(r["after"]),
                                                          glist(r["connects"], g_bytes_hex), glist(r["dialed"], lambda d: hexs(d.encode()))))
        elif op["op"] == "connin":
            steps.append("(SConnIn %s %s %s)" % (gN(seq_key(op)), g_tracked(r["after"]), glist(r["dialed"], lambda d: hexs(d.encode()))))
        elif not r["after"]["tracked"]:
            steps.append("(SExpire %s %s)" % (gN(seq_key(op)), g_tracked(r["after"])))
        # an expiry that removed nothing is no step (the sweeper is not C06's subject)
    return "(%s, %s)" % (g_policy(start_dump), "[" + "; ".join(steps) + "]")


def py_endpoint(s):
    parsed, _ = py_parse_out(s)
    return None if parsed is None else (py_unmap(parsed[0]), parsed[1], parsed[2])


def covert_class(pol, s):
    """what kind of string an unchecked covert is, for the failure key"""
    parsed, _ = py_parse_out(s)
    if parsed is None:
        return "name-or-unresolved"
    return "forbidden-literal" if py_blocked(pol, parsed[0]) else "unchecked-literal"


def run_seq(ctx):
    import time
    pols, hists = gen_seq(ctx)
    tg = time.time()
    rc, out, res = ctx.go_inpkg(".", PKG, DRV, "^TestVerifC06Seq$",
                                {"policies": pols, "phantom_block": SEQ_PBLOCK,
                                 "histories": [{k: h[k] for k in ("start", "ops", "script")} for h in hists]}, timeout=900)
    if res is None or len(res.get("results", [])) != len(hists):
        ctx.broken("driver", "Go sequence driver did not produce results: %s" % out[-800:])
        return
    port = res["port"]
    ctx.cov["phase_s"]["go_seq_go"] = round(time.time() - tg, 1)
    terms = []
    for hi, (h, rs) in enumerate(zip(hists, res["results"])):
        cur = h["start"]
        admitted = {}          # key -> literal (bytes) the registration was admitted with
        trail = ["ONE RegistrationManager, wrapping transport (clients 0,1,4) and connecting transport (clients 2,3,5); start policy %s" % pols[cur]]
        bad_harness = False
        for oi, (op, r) in enumerate(zip(h["ops"], rs)):
            key, kind = seq_key(op), ("connecting" if op.get("kind") == "conn" else "wrapping")
            if op["op"] == "reload":
                cur = op["policy"]
                trail.append("OnReload(%s)" % pols[cur])
                d = r["dump"]
                if len(d["block"]) != len(pols[cur]["block"]) or len(d["allow"]) != len(pols[cur]["allow"]) or \
                        d["allow_on"] != bool(pols[cur]["allow"]):
                    ctx.broken("seq/reload-not-installed", "after OnReload the lists in force are %s, configured %s" % (d, pols[cur]),
                               {"history": list(trail)})
                ctx.count(("seq", hi, oi), nontrivial=True, kind="seq/reload")
                continue
            pol = pols[cur]
            before, after = r["before"], r["after"]
            dials = [d.encode() for d in r["dialed"]]
            info = {"history": None, "step": oi, "policy_in_force": pol, "script": h["script"], "recorder_port": port,
                    "seq_history": {"start": h["start"], "ops": h["ops"], "script": h["script"]},
                    "observed": {"tracked_before": dict(before, covert=unhx(before["covert"]).decode("latin1")),
                                 "tracked_after": dict(after, covert=unhx(after["covert"]).decode("latin1")),
                                 "handed_to_Connect": [unhx(c).decode("latin1") for c in r["connects"]],
                                 "dialed": r["dialed"], "dns_questions_after_admission": r["dial_query"]}}
            if r.get("panic"):
                trail.append("%s -> panic" % op["op"])
                info["history"] = list(trail)
                ctx.fail("seq/panic", "step panicked: %s" % r["panic"], info)
                bad_harness = True
                break
            if r.get("stuck"):
                info["history"] = list(trail)
                ctx.broken("seq-harness", "a hand-off or Proxy did not come to an end", info)
            lit = admitted.get(key)
            if op["op"] == "ingest":
                prov = unhx(r["provided"])
                trail.append("ingest registration: client %d (%s transport), covert %r, resolver epoch %d%s" % (
                    key, kind, prov.decode("latin1"), op["epoch"], "" if not before["tracked"] else "  [duplicate of a tracked registration]"))
                info["history"] = list(trail)
                if r.get("parse_err") or r["ndrafts"] != 1:
                    ctx.broken("seq-harness", "parseRegMessage did not yield one registration: %s" % r.get("parse_err"), info)
                    bad_harness = True
                    break
                exp = unhx(r["check"]["out"])
                if before["tracked"]:
                    changed = prov != (lit if lit is not None else unhx(before["covert"]))
                    ctx.count(("seq", hi, oi, pol), nontrivial=True, kind="seq/ingest-duplicate/%s/%s/%s" % (
                        "conn" if kind == "connecting" else "wrap", "valid" if before["valid"] else "not-valid", "changed" if changed else "same"))
                    if (after["tracked"], after["valid"], after["covert"]) != (before["tracked"], before["valid"], before["covert"]):
                        ctx.fail("seq/%s/duplicate-changed-tracked-registration%s" % (kind, "/served" if before["valid"] or after["valid"] else ""),
                                 "a repeated registration naming %r changed the tracked registration: it was (covert %r, valid=%s), it is "
                                 "(covert %r, valid=%s)" % (prov, unhx(before["covert"]), before["valid"], unhx(after["covert"]), after["valid"]), info)
                else:
                    if after["tracked"] and after["valid"]:
                        cov = unhx(after["covert"])
                        ctx.count(("seq", hi, oi, pol), nontrivial=True, kind="seq/ingest-new-admitted/" + ("conn" if kind == "connecting" else "wrap"))
                        parsed, why = py_parse_out(cov)
                        if cov != exp or parsed is None:
                            ctx.fail("seq/%s/admitted-covert-not-the-checked-literal" % kind, "the registration became valid with covert %r; the policy "
                                     "function returned %r for what the client sent" % (cov, exp), info)
                        elif py_blocked(pol, parsed[0]):
                            ctx.fail("seq/%s/admitted-forbidden-ip" % kind, "the registration became valid with covert %r, which the policy in force forbids" % cov, info)
                        admitted[key] = cov
                        lit = cov
                    else:
                        ctx.count(("seq", hi, oi, pol), nontrivial=True, kind="seq/ingest-new-not-valid/" + (
                            "not-tracked" if not after["tracked"] else "covert-refused" if exp == b"" else "dropped-after-check"))
                        if exp != b"" and r["valid_in"] and not r["g_live"] and not r["pblock"]:
                            # admission itself (who becomes valid) is C07's subject; here it only means there is nothing to observe
                            ctx.cov["histogram"]["seq/unexplained-not-valid"] = ctx.cov["histogram"].get("seq/unexplained-not-valid", 0) + 1
                for c in r["connects"]:
                    cb = unhx(c)
                    if lit is None or cb != lit:
                        ctx.fail("seq/connecting/handed-unchecked-covert/" + covert_class(pol, cb),
                                 "ConnectingTransport.Connect (and then Proxy) was handed a registration object whose covert is %r; the covert "
                                 "admitted for this registration is %r" % (cb, lit), info)
                if dials:
                    ctx.cov["histogram"]["seq/connecting-dialed"] = ctx.cov["histogram"].get("seq/connecting-dialed", 0) + 1
            elif op["op"] == "connin":
                trail.append("a connection for client %d arrives (resolver epoch %d): lookup among valid registrations, Proxy" % (key, op["epoch"]))
                info["history"] = list(trail)
                ctx.count(("seq", hi, oi, pol), nontrivial=True, kind="seq/connin-" + ("dialed" if dials else "nothing"))
                for c in r["proxied"]:
                    cb = unhx(c)
                    if lit is None or cb != lit:
                        ctx.fail("seq/%s/lookup-returned-unchecked-covert/%s" % (kind, covert_class(pol, cb)),
                                 "the lookup returned a valid registration whose covert is %r; the covert admitted for it is %r" % (cb, lit), info)
            else:
                trail.append("client %d's registration expires (RemoveOldRegistrations)" % key)
                info["history"] = list(trail)
                if after["tracked"]:
                    # the sweeper is C08's subject: the step is treated as if it had not happened
                    ctx.count(("seq", hi, oi), nontrivial=True, kind="seq/expire-did-not-remove")
                else:
                    ctx.count(("seq", hi, oi), nontrivial=True, kind="seq/expire")
                    admitted.pop(key, None)
                continue
            # the dial recorder: nothing but the literal admitted for this registration may be dialled
            for d in dials:
                # the recorder observes a destination (address, port number), the literal is text: "127.0.0.1:0443" is 127.0.0.1 port 443
                if lit is None or (d != lit and (py_parse_out(d)[0] is None or py_endpoint(d) != py_endpoint(lit))):
                    parsed, _ = py_parse_out(d)
                    forbidden = parsed is not None and py_blocked(pol, parsed[0])
                    ctx.fail("seq/%s/dialed-%s" % (kind, "forbidden-address" if forbidden else "unchecked-address"),
                             "the station dialled %s; %s%s" % (d.decode(), "the covert admitted for this registration is %r" % lit if lit is not None
                                                              else "no covert was ever admitted for this registration",
                                                              "; the policy in force forbids that address" if forbidden else ""), info)
            if r["dial_query"] > 0:
                ctx.fail("seq/%s/resolved-again-at-dial" % kind, "%d DNS question(s) were asked after admission (names are resolved once, at admission)"
                         % r["dial_query"], info)
        if not bad_harness:
            terms.append((g_seq_case(res["start_dumps"][hi], h, rs), {"history": trail, "tag": h["tag"], "ops": h["ops"], "results": rs}))
    ctx.sample({"seq_history": hists[0]["ops"][:3], "observed": res["results"][0][:3]})
    mm = ctx.coq_mismatches("seq", HEADER_SEQ, [t for t, _ in terms], "chk_seq", shard=40, need_vo=["C06/RunIngest.vo"])
    if mm:
        ctx.cov["mismatches"] += len(mm)
        ctx.broken("correspondence", "model C06.ModelIngest (ingest / duplicate / connecting hand-off / lookup / expiry) and the implementation "
                   "disagree on %d operation sequence(s); first: %s" % (len(mm), terms[mm[0]][1]["history"]), terms[mm[0]][1])
    if ctx.tier != "quick":
        me = ctx.coq_mismatches("seqx", HEADER_SEQ, [t for t, _ in terms], "chk_seq_exact", shard=40)
        ctx.cov["handoff_exact_mismatches"] = None if me is None else len(me)     # informational: who is connected when is not C06's subject

# ------------------------------------------------------------------ main
def run(ctx):
    ctx.assumptions += [
        "the name system (ResolveIPAddr) and regexp matching are external: universally quantified in the theorems, supplied per case "
        "from the running implementation in the correspondence; ParseIP / IP.String are re-stated concretely (coq/C06/IPText.v) and compared with Go on every run",
        "G1 a string that SplitHostPort accepts is not an IP literal; G2 IP.String output has no brackets; "
        "G3 a returned zone is part of the host; G4 resolving the text of an address returns that address "
        "whatever the name system's state; G5 IP.String depends only on the To4-normal form "
        "(hypotheses of the general theorems C06_permitted_literal_unchanged / C06_dial_target_is_checked; G2-G5 are PROVED for the concrete text functions (C06_ip_string_no_brackets, C06_zone_law_concrete, C06_literal_law_concrete, C06_ip_string_norm) and G1 as C06_joined_text_not_a_literal, giving the hypothesis-free *_concrete theorems; G1 and G4 are also observed on every run)",
        "the Go in-package driver (DNS stub, dial recorder), the case generator, the Python policy oracle and "
        "the JSON->Gallina emitter are trusted",
        "C06_every_dial_is_checked / C06_dial_target_is_checked_names assume of the name system only names_ok (answers are bytes, no bracket in a "
        "zone); the connecting transport of the sequence lane is a stand-in for the DTLS transport (Connect records the object and returns a "
        "loopback connection) - ingestRegistration, handleConnectingTpReg, Proxy and net.Dial are the real code",
    ]
    ctx.cov["trusted_base"] = [
        "Coq 8.16.1 kernel (coqc; coqchk in the thorough tier); vm_compute for evaluating the model on cases",
        "no axioms: every theorem prints 'Closed under the global context'",
        "hand-written model coq/C06/Model.v tied to pkg/station/lib/registration_config.go by the correspondence run",
        "hand-written model coq/C06/ModelIngest.v (ingest with duplicates, connecting hand-off, lookup, reload, expiry) tied to "
        "registration_ingest.go / registration.go / proxies.go by the sequence lane (chk_seq)",
        "Go standard library net / strconv / regexp (SplitHostPort, JoinHostPort, ParseUint, IPNet.Contains are "
        "re-stated concretely and compared with Go on every run; ParseIP, ResolveIPAddr, IP.String, regexp are oracles)",
    ]
    ctx.cov["rule"] = ("policies (fixed, shipped app_config.toml, random) x covert strings: every textual form of "
                       "addresses at and around each subnet boundary, names through a scripted resolver whose answers "
                       "change after admission, malformed strings, ports, mutation fuzz; call HISTORIES on one RegConfig / "
                       "RegistrationManager (check, OnReload to another policy, check again, other spellings, reload back; "
                       "ingest + dial before and after a reload that forbids the address); a case is non-trivial if "
                       "hash-distinct (counted per outcome class); plus ingest->Proxy runs with a dial recorder; plus operation "
                       "SEQUENCES on one RegistrationManager with a wrapping and a connecting transport: new registrations and duplicates "
                       "whose covert differs (forbidden literal, name resolving to a forbidden address, name that rebinds), before and after "
                       "validation, across OnReload and expiry, incoming connections, Connect failures, random op sequences")
    ctx.coq_props(extra_dirs=["C07", "C18"])
    rc, out = ctx.coq_make(["C06/Examples.vo", "C06/ExamplesIngest.vo"])
    if rc != 0:
        ctx.broken("examples", "coq/C06/Examples.v (non-vacuity) no longer checks: %s" % out[-400:])

    rng = ctx.rng
    policies = list(FIXED_POLICIES)
    sp = shipped_policy()
    if sp:
        policies.append(sp)
    for _ in range(8 if ctx.tier == "quick" else 40):
        policies.append(rand_policy(rng))
    cases = gen_cases(ctx, policies)
    cases += gen_hosttext(ctx, policies)
    for c in cases:
        if "policy_spec" in c:       # replayed case carrying its own policy
            policies.append(c["policy_spec"])
            c["policy"] = len(policies) - 1

    import time
    t0 = time.time()
    ctx.cov["phase_s"] = {"coq_props": round(t0 - ctx.t0, 1)}
    rc, out, res = ctx.go_inpkg(".", PKG, DRV, "^TestVerifC06Parse$", {"policies": policies, "cases": cases}, timeout=900)
    ctx.cov["phase_s"]["go_parse"] = round(time.time() - t0, 1)
    if res is None or len(res.get("results", [])) != len(cases):
        ctx.broken("driver", "Go driver did not produce results: %s" % out[-800:])
        return
    pd = res["policies"]
    for i, d in enumerate(pd):
        if d.get("panic"):
            ctx.broken("driver", "ParseBlocklists panicked on generated policy %s: %s" % (policies[i], d["panic"]))
            return
        if len(d["block"]) != len(policies[i]["block"]) or len(d["allow"]) != len(policies[i]["allow"]) or \
                d["allow_on"] != bool(policies[i]["allow"]):
            ctx.broken("driver", "policy %s was not parsed into the expected number of subnets: %s" % (policies[i], d))
            return

    terms = []
    for c, r in zip(cases, res["results"]):
        t = judge(ctx, policies[c["policy"]], pd[c["policy"]], c, r)
        if t is not None:
            terms.append(t)
        ht_count(ctx, policies[c["policy"]], c, r)

    for k in (3, len(cases) // 2, len(cases) - 1):
        c, r = cases[k], res["results"][k]
        ctx.sample({"policy": policies[c["policy"]], "s": unhx(c["s"]).decode("latin1"),
                    "out": unhx(r["out"]).decode("latin1"), "lookup": r["lookup"], "queries": r["queries"]})
    ctx.require_kinds(["accepted/literal", "accepted/name", "rejected/nosplit", "rejected/dns-fail", "rejected/no-ip",
                       "rejected/policy-or-port", "canon-unchanged",
                       "hosttext/rejected/upper-case-pattern", "hosttext/rejected/pattern", "hosttext/rejected/non-ascii-pattern",
                       "hosttext/rejected/non-ascii-unresolvable", "hosttext/accepted/upper-name", "hosttext/accepted/lower-name"])

    th = time.time()
    run_histories(ctx, terms)
    ctx.cov["phase_s"]["go_history"] = round(time.time() - th, 1)
    ctx.require_kinds(["history/reload", "history/accepted/literal", "history/rejected/policy-or-port", "history/ingest-admitted",
                       "history/ingest-rejected"])
    t1 = time.time()
    mm = ctx.coq_mismatches("por", HEADER, [t for t, _ in terms], "chk", shard=250 if ctx.tier == "quick" else 700, need_vo=["C06/Run.vo"])
    ctx.cov["phase_s"]["coq_cases"] = round(time.time() - t1, 1)
    if mm:
        ctx.cov["mismatches"] += len(mm)
        ctx.broken("correspondence", "model C06.Run.model and ParseOrResolveBlocklisted disagree on %d case(s); first: %r"
                   % (len(mm), terms[mm[0]][1]["s_text"]), terms[mm[0]][1])

    if ctx.tier != "quick":
        ml = ctx.coq_mismatches("lk", HEADER, [t for t, _ in terms], "chk_lookup", shard=2500)
        ctx.cov["lookup_flag_mismatches"] = None if ml is None else len(ml)   # statistics flag: informational only

    # ---- the Go library functions the model re-states concretely
    std = gen_std(ctx, cases)
    rc, out, sres = ctx.go_inpkg(".", PKG, DRV, "^TestVerifC06Std$", std, timeout=600)
    if sres is None or len(sres) != len(std):
        ctx.broken("driver", "Go std driver did not produce results: %s" % out[-800:])
        return
    groups = {"port": [], "join": [], "contains": [], "parseaddr": [], "ipstr": []}
    for c, r in zip(std, sres):
        ctx.count(("std", c["op"], c["a"], c["b"], c["cidr"]), nontrivial=True, kind="std/" + c["op"])
        if c["op"] == "port":
            groups["port"].append(("(%s, %s)" % (g_bytes_hex(c["a"]), gbool(r["ok"])), c))
        elif c["op"] == "join":
            groups["join"].append(("(%s, %s, %s)" % (g_bytes_hex(c["a"]), g_bytes_hex(c["b"]), g_bytes_hex(r["x"])), c))
        elif c["op"] == "parseaddr":
            pa = "(Some (%s, %s))" % (g_bytes_hex(r["x"]), g_bytes_hex(r["y"])) if r["ok"] else "None"
            pip = "(Some %s)" % g_bytes_hex(r["net"]["ip"]) if r["net"]["mask"] == "01" else "None"
            groups["parseaddr"].append(("(%s, %s, %s)" % (g_bytes_hex(c["a"]), pa, pip), c))
            ctx.cov["histogram"]["parseaddr/" + ("ok" if r["ok"] else "err")] = ctx.cov["histogram"].get("parseaddr/" + ("ok" if r["ok"] else "err"), 0) + 1
        elif c["op"] == "ipstr":
            groups["ipstr"].append(("(%s, %s)" % (g_bytes_hex(c["a"]), g_bytes_hex(r["x"])), c))
        elif c["op"] == "contains" and r["x"]:
            groups["contains"].append(("(%s, %s, %s)" % (g_net(r["net"]), g_bytes_hex(c["a"]), gbool(r["ok"])), c))
    for op, lst in groups.items():
        mm = ctx.coq_mismatches("std_" + op, HEADER, [t for t, _ in lst], "chk_" + op, shard=2000)
        if mm:
            ctx.cov["mismatches"] += len(mm)
            ctx.broken("correspondence", "model of Go's %s disagrees with Go on %d case(s)" % (op, len(mm)), lst[mm[0]][1])

    t2 = time.time()
    run_dial(ctx)
    ctx.cov["phase_s"]["go_dial"] = round(time.time() - t2, 1)
    ctx.require_kinds(["dial/admitted", "dial/rejected"])
    t3 = time.time()
    run_seq(ctx)
    ctx.cov["phase_s"]["go_seq"] = round(time.time() - t3, 1)
    ctx.require_kinds(["seq/ingest-new-admitted/conn", "seq/ingest-new-admitted/wrap", "seq/ingest-duplicate/conn/valid/changed",
                       "seq/ingest-duplicate/wrap/valid/changed", "seq/ingest-duplicate/conn/not-valid/changed", "seq/connecting-dialed",
                       "seq/connin-dialed", "seq/connin-nothing", "seq/expire", "seq/reload", "seq/ingest-new-not-valid/covert-refused",
                       "seq/ingest-new-not-valid/dropped-after-check"])
