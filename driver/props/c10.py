"""C10 — every detector announcement is acceptable to the detector and matches the registration;
the shutdown clear message is acted on.

Station side: the real sendToDetector / clearDetector / parseRegMessage (Go, in-package driver,
RESP stand-in for Redis).  Detector side: the real Rust items cut out of src/sessions.rs and
compiled with rustc against std-only stubs, run on the fields of the messages Go published.
The Coq model (coq/C10) must agree with both.
"""
import json
import os
import shutil
import subprocess

import lib
from lib import gN, gbool, gopt, glist, hexs
from props import c10_world

HEADER = "From CJ Require Import Common.Base C10.Model C10.Run.\n"
RUSTDIR = os.path.join(lib.VERIF, "harness", "rust", "c10")
NOW = 1000000000000
UNUSED_NS = 600 * 10 ** 9
ACTIVE_NS = 21600 * 10 ** 9
TRANSPORTS = {1: "TMin", 2: "TObfs4", 3: "TDtls", 4: "TPrefix"}
PROTO = ["PUnk", "PTcp", "PUdp"]

SUBNETS = """
[Networks]
    [Networks.1]
        Generation = 1
        [[Networks.1.WeightedSubnets]]
            Weight = 9
            Subnets = ["192.122.190.0/24", "2001:48a8:687f:1::/64"]
    [Networks.2]
        Generation = 2
        [[Networks.2.WeightedSubnets]]
            Weight = 1
            RandomizeDstPort = true
            Subnets = ["192.0.2.7/32", "2001:db8::5/128"]
    [Networks.3]
        Generation = 3
        [[Networks.3.WeightedSubnets]]
            Weight = 1
            Subnets = ["10.11.0.0/16"]
    [Networks.4]
        Generation = 4
        [[Networks.4.WeightedSubnets]]
            Weight = 1
            RandomizeDstPort = true
            Subnets = ["2001:db8:4::/48"]
    [Networks.5]
        Generation = 5
        [[Networks.5.WeightedSubnets]]
            Weight = 3
            RandomizeDstPort = true
            Subnets = ["198.51.100.0/25", "2001:db8:5::/64"]
        [[Networks.5.WeightedSubnets]]
            Weight = 2
            RandomizeDstPort = false
            Subnets = ["203.0.113.128/25", "2001:db8:55::/112"]
"""


# ------------------------------------------------------------------ Rust side
def build_detector(ctx):
    """cut + compile; returns the path of the binary or None (correspondence reported broken)"""
    d = os.path.join(lib.BUILD, "c10_rs_%d" % os.getpid())
    shutil.rmtree(d, ignore_errors=True)
    os.makedirs(d)
    rc, out = lib.sh(["python3", os.path.join(RUSTDIR, "cut_sessions.py"), lib.REPO, d], timeout=60)
    if rc != 0:
        ctx.broken("correspondence", "the detector's session rules could not be cut out of src/sessions.rs / "
                   "src/signalling.rs (layout changed?): " + out[-600:])
        return None, None
    shutil.copy(os.path.join(RUSTDIR, "harness.rs"), d)
    rc, out = lib.sh(["rustc", "-O", "-A", "warnings", "-o", "det", "harness.rs"], cwd=d, timeout=300)
    if rc != 0:
        ctx.broken("correspondence", "the cut of src/sessions.rs does not compile against the std-only stubs: " + out[-900:])
        return None, None
    rc, out = lib.sh([os.path.join(d, "det"), "--selftest"], cwd=d, timeout=60)
    ctx.cov["rust_unit_tests"] = out.strip()[-200:]
    if rc != 0:
        ctx.broken("correspondence", "the crate's own unit tests of pubsub_handle_s2d (cut from src/sessions.rs) fail: " + out[-600:])
    tab = json.load(open(os.path.join(d, "sigtable.json")))
    want_get = {"phantom_ip": '""', "client_ip": '""', "timeout_ns": "0", "dst_port": "0", "src_port": "0",
                "operation": "StationOperations::Unknown", "proto": "IPProto::Unk"}
    for g, dflt in want_get.items():
        got = tab["getters"].get(g, {})
        if got.get("default") != dflt or (got.get("unknown_enum") not in (None, dflt)):
            ctx.broken("correspondence", "signalling.rs getter %s has default %r / unknown-enum %r; the stubs and the model assume %s"
                       % (g, got.get("default"), got.get("unknown_enum"), dflt))
    if tab["enums"].get("IPProto") != {"Unk": 0, "Tcp": 1, "Udp": 2} or \
       tab["enums"].get("StationOperations") != {"Unknown": 0, "New": 1, "Update": 2, "Clear": 3}:
        ctx.broken("correspondence", "enum numbering in signalling.rs differs from the model's: %s" % tab["enums"])
    return os.path.join(d, "det"), d


def fld(x, s=False):
    if x is None:
        return "-"
    return "x" + x if s else str(x)


def msg_line(m):
    return "\t".join([fld(m["ph"], True), fld(m["cl"], True), fld(m["tmo"]), fld(m["op"]),
                      fld(m["dst"]), fld(m["src"]), fld(m["proto"])])


def run_script(binary, mode, lines):
    p = subprocess.run([binary, mode], input="\n".join(lines) + "\n", stdout=subprocess.PIPE, stderr=subprocess.PIPE,
                       text=True, timeout=600)
    if p.returncode != 0:
        return None, (p.stderr or "")[-500:]
    return [json.loads(l) for l in p.stdout.splitlines() if l.strip()], ""


def run_detector(binary, msgs):
    """msgs: dicts with ph/cl (hex of text or None), tmo (str|None), op, dst, src, proto"""
    lines = [msg_line(m) for m in msgs]
    p = subprocess.run([binary], input="\n".join(lines) + "\n", stdout=subprocess.PIPE, stderr=subprocess.PIPE,
                       text=True, timeout=600)
    outs = [json.loads(l) for l in p.stdout.splitlines() if l.strip()]
    if p.returncode != 0 or len(outs) != len(msgs):
        return None, (p.stderr or "")[-500:]
    return outs, ""


# ------------------------------------------------------------------ pools
def ip_pools(rng):
    def r(n):
        return bytes(rng.getrandbits(8) for _ in range(n))
    v4 = [bytes([1, 2, 3, 4]), bytes(4), bytes([255] * 4), bytes([127, 0, 0, 1]), bytes([10, 0, 0, 1]), r(4), r(4)]
    mapped = [bytes(10) + b"\xff\xff" + a for a in (bytes([9, 8, 7, 6]), r(4), bytes(4))]
    v6 = [bytes(16), bytes(15) + b"\x01", bytes.fromhex("20010db8000000000000000000000001"), bytes([255] * 16),
          bytes(12) + bytes([1, 2, 3, 4]),                      # v4-compatible, not mapped
          bytes(10) + b"\xff\xfe" + bytes([1, 2, 3, 4]),         # near-mapped
          bytes(9) + b"\x01\xff\xff" + bytes([1, 2, 3, 4]),      # near-mapped
          bytes.fromhex("fe800000000000000000000000000001"), r(16), r(16),
          bytes.fromhex("20010db8000000010000000000000000"), bytes.fromhex("00010000000000000000000000000000")]
    bad = [b"", r(1), r(3), r(5), r(8), r(12), r(15), r(17), r(32)]
    return v4, mapped, v6, bad


def hx(b):
    return None if b is None else bytes(b).hex()


def replay_cases(obj):
    """the station-side cases named anywhere in a replay file written by an earlier run"""
    out = []

    def walk(o):
        if isinstance(o, dict):
            if o.get("kind") == "world" and "steps" in o and "msgs" in o:
                c = dict(o)
                c.setdefault("subnets", SUBNETS)
                c["ops"] = [s["op"] for s in c["steps"] if s["t"] == "go"]
                out.append(c)
                return
            if o.get("kind") in ("send", "announce", "clear", "ingest", "pubfail", "shutdown") and ("reg" in o or "via" in o or "secret" in o):
                c = dict(o)
                if c["kind"] in ("ingest", "shutdown"):
                    c.setdefault("subnets", SUBNETS)
                out.append(c)
                return
            for v in o.values():
                walk(v)
        elif isinstance(o, list):
            for v in o:
                walk(v)
    walk(obj or {})
    return out


def gen_cases(ctx):
    rng = ctx.rng
    quick = ctx.tier == "quick"
    v4, mapped, v6, bad = ip_pools(rng)
    good = v4 + mapped + v6
    cases = [{"kind": "meta"}]
    for c in replay_cases(ctx.replay):
        if c["kind"] != "world":
            cases.append(c)
    for mode in ("err", "close"):
        cases.append({"kind": "pubfail", "via": mode, "reg": {"phantom": hx(v6[2]), "addr": hx(v4[0]), "port": 443, "proto": 1},
                      "secret": rng.getrandbits(256).to_bytes(32, "big").hex()})
    cases.append({"kind": "clear", "via": "fresh"})
    cases.append({"kind": "clear", "via": "used", "reg": {"phantom": hx(v6[2]), "addr": hx(v4[0]), "port": 443, "proto": 1},
                  "secret": rng.getrandbits(256).to_bytes(32, "big").hex()})
    # the shutdown sequence of cmd/application: pipeline started, a registration announced, cancel(), wg.Wait(), Cleanup()
    for via in ("idle", "busy") * (1 if quick else 3):
        cases.append({"kind": "shutdown", "via": via, "addr": hx(rng.choice(v4 + v6 + [None])), "gen": rng.choice([1, 2, 5]), "libver": rng.choice([3, 4]),
                      "secret": rng.getrandbits(256).to_bytes(32, "big").hex(), "subnets": SUBNETS})

    def reg(ph, ad, port=None, proto=None):
        return {"phantom": hx(ph), "addr": hx(ad),
                "port": rng.choice([0, 1, 443, 444, 1024, 65535, rng.randrange(65536)]) if port is None else port,
                "proto": rng.choice([1, 1, 2, 0]) if proto is None else proto}

    durs = [0, 1, UNUSED_NS, ACTIVE_NS, 2 ** 63, 2 ** 64 - 1]
    # direct sendToDetector: every address class on both sides, every proto and operation
    for ph in good + bad + [None]:
        for ad in [rng.choice(v4), rng.choice(mapped), rng.choice(v6), rng.choice(bad + [None])]:
            cases.append({"kind": "send", "reg": reg(ph, ad), "dur": str(rng.choice(durs)), "op": rng.choice([1, 2, 1, 2, 0, 3])})
    for ad in good + bad + [None]:
        cases.append({"kind": "send", "reg": reg(rng.choice(good), ad), "dur": str(rng.choice(durs)), "op": rng.choice([1, 2])})
    # IPv6 texts: every pattern of zero / non-zero 16-bit groups (where "::" goes), as phantom and as client
    pats = list(range(256))
    if quick:
        pats = rng.sample(pats, 48)
    for p in pats:
        b = b"".join((bytes(2) if not (p >> g) & 1 else bytes([rng.choice([0, 1, 255]), rng.randrange(1, 256)])) for g in range(8))
        if b[:12] == bytes(10) + b"\xff\xff":
            continue
        cases.append({"kind": "send", "reg": reg(b, rng.choice(v6)), "dur": str(UNUSED_NS), "op": 1})
        cases.append({"kind": "send", "reg": reg(rng.choice(v6), b), "dur": str(ACTIVE_NS), "op": 2})
    for _ in range(40 if quick else 1500):
        cases.append({"kind": "send", "reg": reg(rng.choice(good + bad + [None]), rng.choice(good + bad + [None])),
                      "dur": str(rng.choice(durs + [rng.getrandbits(64)])), "op": rng.randrange(4)})
    # the real register() / markActive() closures
    for _ in range(24 if quick else 200):
        ph = rng.choice(good)
        is4 = len(ph) == 4 or ph[:12] == bytes(10) + b"\xff\xff"
        ad = rng.choice(v4 + mapped) if is4 else rng.choice(good)
        cases.append({"kind": "announce", "reg": reg(ph, ad, proto=rng.choice([1, 2])), "secret": rng.getrandbits(256).to_bytes(32, "big").hex()})
    for _ in range(6 if quick else 40):   # registrations the ingest path would not have produced
        cases.append({"kind": "announce", "reg": reg(rng.choice(good + bad), rng.choice(good + bad + [None])),
                      "secret": rng.getrandbits(256).to_bytes(32, "big").hex()})
    # the ingest path: first the full cross product {registrant class} x {ipv6addr override class} x {ipv4addr override} x
    # {v6 support} on an otherwise valid dual-stack message (the interactions between the family gate, the override checks
    # and the mixed-family guard live here), then random messages
    registrants = [None, rng.choice(v4), rng.choice(mapped), rng.choice(v6), v6[0], rng.choice(bad[1:])]
    ov6s = [None, rng.choice(v6), rng.choice(mapped), mapped[0], rng.choice(bad), b""]
    for ra in registrants:
        for o6 in ov6s:
            for o4 in (None, 0x0A000001):
                for v6s in (True, False):
                    cases.append({"kind": "ingest", "addr": hx(ra), "secret": rng.getrandbits(256).to_bytes(32, "big").hex(),
                                  "randport": None, "has_rr": o6 is not None or o4 is not None, "ov4": o4, "ov6": hx(o6), "odst": None,
                                  "source": rng.choice([1, 2, 4]), "subnets": SUBNETS, "en4": True, "en6": True, "v4": True, "v6": v6s,
                                  "transport": rng.choice([1, 2, 3, 4]), "gen": rng.choice([1, 2, 5]), "libver": rng.choice([3, 4])})
    n_ing = 170 if quick else 2500
    for i in range(n_ing):
        wild = i % 2 == 1          # every other message is mostly valid, the rest mixes every malformation
        if wild:
            addr_kind = rng.choice(["absent", "v4", "v4", "mapped", "v6", "v6", "bad"])
        else:
            addr_kind = rng.choice(["absent", "v4", "v4", "v4", "mapped", "mapped", "v6", "v6"])
        addr = {"absent": None, "v4": rng.choice(v4), "mapped": rng.choice(mapped), "v6": rng.choice(v6), "bad": rng.choice(bad)}[addr_kind]
        has_rr = rng.random() < 0.6
        ov4 = ov6 = odst = None
        if has_rr:
            if rng.random() < 0.5:
                ov4 = rng.choice([0, 1, 0x01020304, 0xFFFFFFFF, rng.getrandbits(32)]) if wild else rng.choice([0x01020304, rng.getrandbits(32) | 1])
            if rng.random() < 0.6:
                ov6 = rng.choice(v6 + v6 + mapped + bad) if wild else rng.choice(v6)
            if rng.random() < 0.5:
                odst = rng.choice([0, 443, 8443, 65535, 65536, 70000, 2 ** 32 - 1, rng.randrange(65536)]) if wild else rng.choice([443, 8443, rng.randrange(1, 65536)])
        if wild:
            flags = {"en4": rng.random() < 0.85, "en6": rng.random() < 0.85,
                     "v4": rng.choice([True, True, True, False, None]), "v6": rng.choice([True, True, True, False, None]),
                     "transport": rng.choice([1, 1, 2, 3, 4, 4, 1, 0, 9]), "gen": rng.choice([1, 1, 2, 2, 3, 4, 5, 5, 77]),
                     "libver": rng.choice([0, 1, 2, 3, 3, 4, 4, 5])}
        else:
            flags = {"en4": rng.random() < 0.95, "en6": rng.random() < 0.95,
                     "v4": rng.random() < 0.9, "v6": rng.random() < 0.9,
                     "transport": rng.choice([1, 2, 3, 4]), "gen": rng.choice([1, 2, 5, 5]), "libver": rng.choice([2, 3, 3, 4, 5])}
        c = {"kind": "ingest", "addr": hx(addr), "secret": rng.getrandbits(256).to_bytes(32, "big").hex(),
             "randport": rng.choice([None, True, True, False]), "has_rr": has_rr, "ov4": ov4, "ov6": hx(ov6), "odst": odst,
             "source": rng.choice([1, 2, 3, 4, 5, 6]), "subnets": SUBNETS}
        c.update(flags)
        cases.append(c)
    return cases


TEXTS = ["1.2.3.4", "0.0.0.0", "255.255.255.255", "01.2.3.4", "1.2.3", "256.1.1.1", "1.2.3.4 ", " 1.2.3.4", "1.2.3.4.5",
         "::", "::1", "2001:db8::1", "::ffff:1.2.3.4", "::1.2.3.4", "1::2::3", "fe80::1%eth0", "[::1]", "2001:DB8::A",
         "1:2:3:4:5:6:7:8", "1:2:3:4:5:6:7:8:9", "", "<nil>", "?0102", "localhost", "2001:db8::1/64", "::ffff:0:0"]


def gen_detector_msgs(ctx):
    rng = ctx.rng
    n = 120 if ctx.tier == "quick" else 3000
    out = []

    def opt(v, p=0.85):
        return v if rng.random() < p else None
    for _ in range(n):
        out.append({"ph": opt(rng.choice(TEXTS).encode().hex()), "cl": opt(rng.choice(TEXTS).encode().hex()),
                    "tmo": opt(str(rng.choice([0, 1, UNUSED_NS, ACTIVE_NS, 2 ** 64 - 1, rng.getrandbits(40)]))),
                    "op": opt(rng.choice([0, 1, 2, 3, 1, 2, 4, 7]), 0.9),
                    "dst": opt(rng.choice([0, 443, 65535, 65536, 70000, 2 ** 32 - 1, rng.randrange(65536)])),
                    "src": opt(rng.choice([0, 1, 65536 + 5, rng.randrange(65536)]), 0.3),
                    "proto": opt(rng.choice([0, 1, 2, 1, 2, 3, 9]), 0.9)})
    # all (phantom text, client text) pairs once with a valid rest
    for a in TEXTS:
        for b in TEXTS:
            if ctx.tier != "quick" or rng.random() < 0.25:
                out.append({"ph": a.encode().hex(), "cl": b.encode().hex(), "tmo": str(UNUSED_NS), "op": rng.choice([1, 2]),
                            "dst": 443, "src": None, "proto": rng.choice([1, 2])})
    return out


# ------------------------------------------------------------------ Gallina emitters
def g_bytes(h):
    return "(@nil N)" if not h else '(unhex "%s")' % h


def g_reg(r):
    return "(Build_reg %s %s %s %s)" % (g_bytes(r["phantom"]), g_bytes(r["addr"]), gN(r["port"]), PROTO[r["proto"]])


def g_class(present, cls):
    """text class as reported by the detector's parser -> option iptxt (getter view: absent or empty -> None)"""
    if not present:
        return "None"
    fam, val = cls[0], int(cls[1])
    if fam == 0:
        return "None"
    if fam == 4:
        return "(Some (V4Text %s))" % gN(val)
    if fam == 6:
        return "(Some (V6Text %s))" % gN(val)
    return "(Some Unparsable)"


def g_msg(m, det):
    return "(mk_msg %s %s %s %s %s %s %s)" % (
        g_class(m["ph"] is not None, det["pclass"]), g_class(m["cl"] is not None, det["cclass"]),
        gopt(None if m["tmo"] is None else int(m["tmo"]), gN), gopt(m["op"], gN), gopt(m["dst"], gN),
        gopt(m["src"], gN), gopt(m["proto"], gN))


def g_ip(a):
    return "(A%d %s)" % (a[0], gN(int(a[1])))


def g_conv(c):
    if c["ok"]:
        return "(Ok (Build_session %s %s %s %s %s %s))" % (g_ip(c["client"]), g_ip(c["phantom"]), gN(c["dst"]), gN(c["src"]),
                                                           {1: "NTcp", 2: "NUdp"}.get(c["proto"], "NTcp"), gN(int(c["timeout"])))
    return "(Err %s)" % c["err"]


def canon_maps(det):
    tag = det["conv"].get("tag") if det["conv"]["ok"] else None
    out = []
    for m in det["maps"]:
        mine = [(True, int(e)) for k, e in m if k == tag]
        other = sorted((False, int(e)) for k, e in m if k != tag)
        out.append(mine + other)
    return out


def g_maps(ms):
    return glist(ms, lambda m: glist(m, lambda e: "(%s, %s)" % (gbool(e[0]), gN(e[1]))))


# ------------------------------------------------------------------ oracle helpers
def ip_value(h):
    """the address a net.IP denotes: (family, int) or None  -- independent of the Coq model"""
    if h is None:
        return None
    b = bytes.fromhex(h)
    if len(b) == 4:
        return (4, int.from_bytes(b, "big"))
    if len(b) == 16:
        if b[:10] == bytes(10) and b[10:12] == b"\xff\xff":
            return (4, int.from_bytes(b[12:], "big"))
        return (6, int.from_bytes(b, "big"))
    return None


def reg_acceptable(r):
    """the property's own conditions on a registration (IP literals, v4 phantom with v4 client, TCP/UDP)"""
    p, a = ip_value(r["phantom"]), ip_value(r["addr"])
    return p is not None and a is not None and not (p[0] == 4 and a[0] != 4) and r["proto"] in (1, 2)


def reg_class(r):
    def c(h):
        if h is None:
            return "nil"
        v = ip_value(h)
        return "len%d" % (len(h) // 2) if v is None else "v%d" % v[0]
    return "phantom=%s,client=%s,proto=%s" % (c(r["phantom"]), c(r["addr"]), PROTO[r["proto"]][1:].lower())


def check_announcement(ctx, origin, r, m, det, want_op, want_ns, case):
    """the property's own statement on one published message and what the real Rust code did with it"""
    cls = reg_class(r)
    cv = det["conv"]
    pre = "%s %s message for registration {%s}: " % (origin, {1: "New", 2: "Update"}[want_op], cls)
    if not cv["ok"]:
        ctx.fail("announce:rejected:%s:%s" % (cv["err"], cls), pre + "the detector's conversion fails with %s (%s), the session is never forwarded"
                 % (cv["err"], cv["text"]), case)
        return False
    bad = []
    if tuple([cv["phantom"][0], int(cv["phantom"][1])]) != ip_value(r["phantom"]):
        bad.append("phantom")
    if tuple([cv["client"][0], int(cv["client"][1])]) != ip_value(r["addr"]):
        bad.append("client")
    if cv["dst"] != r["port"]:
        bad.append("dst_port")
    if cv["proto"] != r["proto"]:
        bad.append("proto")
    if m["op"] != want_op:
        bad.append("operation")
    if int(cv["timeout"]) != want_ns:
        bad.append("lifetime")
    if bad:
        ctx.fail("announce:unfaithful:%s:%s" % ("+".join(bad), {1: "New", 2: "Update"}[want_op]),
                 pre + "the detector's session differs from the registration in %s (session %s, lifetime wanted %d ns)" % (bad, cv, want_ns), case)
        return False
    # acted on: the session is in the table until now + lifetime, from every starting state
    tag = cv["tag"]
    for st, mp in enumerate(det["maps"]):
        e = [int(x) for k, x in mp if k == tag]
        if len(e) != 1 or e[0] < NOW + want_ns:
            ctx.fail("announce:not-stored:%s" % {1: "New", 2: "Update"}[want_op],
                     pre + "converted but the detector's table (start state %d) holds %s for it" % (st, e), case)
            return False
    return True


# ------------------------------------------------------------------ run
def oracle_ingest(ctx, c, r, det_of_case, count=True):
    """the property's statement on everything one C2SWrapper led the station to announce (parseRegMessage's registrations,
    then the constructor's); returns False if the announcements cannot be matched to registrations"""
    msgs = r.get("msgs") or []
    regs = r.get("regs") or []
    direct = [r[k] for k in ("direct4", "direct6") if r.get(k)]
    if len(msgs) != 2 * (len(regs) + len(direct)):
        return False
    cc = {k: v for k, v in c.items() if k != "subnets"}
    for ri, rg in enumerate(regs + direct):
        for k, (upd, want_op, want_ns) in enumerate([(False, 1, UNUSED_NS), (True, 2, ACTIVE_NS)]):
            mi = 2 * ri + k
            ok = check_announcement(ctx, "ingest" if ri < len(regs) else "NewRegistrationC2SWrapper", rg, msgs[mi], det_of_case[mi],
                                    want_op, want_ns, {"case": cc, "registration": rg, "message": msgs[mi]})
            if count:
                ctx.count(("ingest-announce", rg, upd), kind="ingest-announce/" + ("ok" if ok else "bad"))
    return True


def neighbours(ctx, base):
    """cases around an ingest case on which model and code disagreed: the registrant switched among all classes crossed with
    every class of ipv6addr override, and each other deciding field toggled on its own"""
    rng = ctx.rng
    v4, mapped, v6, bad = ip_pools(rng)
    regs_ = [None, v4[0], rng.choice(v4), mapped[0], rng.choice(mapped), v6[0], v6[2], rng.choice(v6), b"", bad[1], bad[3], bad[6], bad[7]]
    ov6s = [None, v6[2], rng.choice(v6), mapped[0], rng.choice(mapped), b"", bad[2], bad[6], bad[7]]
    out = []

    def var(**kw):
        c = dict(base)
        c.update(kw)
        c["has_rr"] = c["has_rr"] or any(c.get(k) is not None for k in ("ov4", "ov6", "odst"))
        c["secret"] = rng.getrandbits(256).to_bytes(32, "big").hex()
        c.setdefault("subnets", SUBNETS)
        out.append(c)
    for ra in regs_:
        for o6 in ov6s:
            var(addr=hx(ra), ov6=hx(o6), v6=True, en6=True)
    for ra in regs_:
        for o4 in (None, 0, 0x0A000001):
            var(addr=hx(ra), ov4=o4, v4=True, en4=True)
    for k in ("en4", "en6", "v4", "v6"):
        var(**{k: not base.get(k)})
    for od in (None, 443, 70000):
        var(odst=od)
    for t in (1, 2, 3, 4):
        var(transport=t)
    var(has_rr=False, ov4=None, ov6=None, odst=None)
    return out


def search_failing_input(ctx, binary, bases):
    """second pass after a correspondence mismatch: run the neighbours of the mismatching messages through the real station
    code, the real Rust functions and the direct oracle; an oracle failure is reported as the failing input"""
    cand = []
    for b in bases:
        cand += neighbours(ctx, b)
    if not cand:
        return
    before = len(ctx.failures)
    res = run_go(ctx, cand)
    if res is None:
        return
    flat = [(ci, mi, m) for ci, r in enumerate(res) for mi, m in enumerate(r.get("msgs") or [])]
    if any(not m["decoded"] for _, _, m in flat):
        return
    dets, _ = run_detector(binary, [m for _, _, m in flat]) if flat else ([], "")
    if dets is None:
        return
    by_case = {}
    for (ci, mi, _), d in zip(flat, dets):
        by_case.setdefault(ci, {})[mi] = d
    for ci, (c, r) in enumerate(zip(cand, res)):
        if r.get("panic"):
            ctx.fail("panic:ingest", "the station code panicked on an ingest case: %s" % r["panic"][:200], {k: v for k, v in c.items() if k != "subnets"})
            continue
        oracle_ingest(ctx, c, r, by_case.get(ci, {}), count=False)
    ctx.cov["search"] = {"neighbours_run": len(cand), "bases": len(bases), "failing_inputs_found": len(ctx.failures) - before}


EV = {"M": "EMsg", "A": "EAdd", "P": "EPacket", "Q": "EQuery"}


def gen_histories(ctx, pool, pairs):
    """timed scripts for one real SessionTracker.  pool: [(msg, det)] of real published / arbitrary messages,
    pairs: [(new, update)] announcements of one registration each.  Returns a list of histories, each a list of
    (time, cmd, (msg, det) | None), plus for the lifetime scenarios the expected answers of the lookups."""
    rng = ctx.rng
    quick = ctx.tier == "quick"
    hs = []
    # lifetime scenarios: the property's own statement, checked directly on the real tracker
    for (n, u) in pairs[:(10 if quick else 120)]:
        t0 = NOW + rng.randrange(10 ** 9)
        t1 = t0 + rng.randrange(1, UNUSED_NS)           # first use, while still accepted
        # an unrelated message in between: anything but a Clear (which legitimately empties the table) or a message for the
        # same session key (which legitimately extends it)
        ntag = n[1]["conv"].get("tag")
        other = rng.choice([x for x in pool if x[0]["op"] != 3 and x[1]["conv"].get("tag") != ntag])
        h = [(t0, "M", n, None), (t0, "Q", n, True),
             (t0 + UNUSED_NS // 2, "S", None, None), (t0 + UNUSED_NS // 2, "M", other, None),
             (t0 + UNUSED_NS - 1, "S", None, None), (t0 + UNUSED_NS - 1, "Q", n, True),
             (t0 + UNUSED_NS, "S", None, None), (t0 + UNUSED_NS, "Q", n, False),
             # again, this time used before it expires
             (t0 + UNUSED_NS + 5, "M", n, None), (t0 + UNUSED_NS + 5 + (t1 - t0), "M", u, None),
             # a packet of the flow and a later New for the same key must not shorten what Update asked for
             (t0 + UNUSED_NS + 5 + (t1 - t0) + 1, "P", n, None), (t0 + UNUSED_NS + 5 + (t1 - t0) + 2, "M", n, None),
             (t0 + 2 * UNUSED_NS + 10, "S", None, None), (t0 + 2 * UNUSED_NS + 10, "Q", u, True),
             (t1 + UNUSED_NS + 5 + ACTIVE_NS - 1, "S", None, None), (t1 + UNUSED_NS + 5 + ACTIVE_NS - 1, "Q", n, True),
             (t1 + UNUSED_NS + 5 + ACTIVE_NS, "S", None, None), (t1 + UNUSED_NS + 5 + ACTIVE_NS, "Q", n, False)]
        hs.append(("lifetime", h))
    # random histories
    clear = ({"ph": None, "cl": None, "tmo": None, "op": 3, "dst": None, "src": None, "proto": None}, None)
    for _ in range(14 if quick else 200):
        t = NOW + rng.randrange(10 ** 6)
        marks = []
        regs = [rng.choice(pool) for _ in range(rng.randrange(2, 6))] + [x for pr in rng.sample(pairs, min(2, len(pairs))) for x in pr]
        h = []
        for _ in range(rng.randrange(10, 45 if quick else 70)):
            later = [m for m in marks if m >= t]
            if later and rng.random() < 0.45:
                t = rng.choice(later)
            else:
                t += rng.choice([0, 0, 1, 10 ** 9, 60 * 10 ** 9, 180 * 10 ** 9, 300 * 10 ** 9, UNUSED_NS, ACTIVE_NS // 3, rng.randrange(ACTIVE_NS)])
            k = rng.choice("MMMMAPPQQSSS")
            if k == "S":
                h.append((t, "S", None, None))
                continue
            m = clear if (k == "M" and rng.random() < 0.04) else rng.choice(regs)
            h.append((t, k, m, None))
            tm = int(m[0]["tmo"] or 0)
            for x in (tm, 300 * 10 ** 9):
                marks += [t + x - 1, t + x, t + x + 1]
        hs.append(("random", h))
    return hs


def run_histories(ctx, binary, hs, classify):
    """classify(msg) -> det (the real Rust conversion of that message, for its text classes)"""
    lines = []
    for _, h in hs:
        lines.append("R")
        for (t, k, m, _) in h:
            lines.append("T %d" % t)
            lines.append(k if m is None else "%s %s" % (k, msg_line(m[0])))
    outs, err = run_script(binary, "--history", lines)
    if outs is None or len(outs) != len(lines):
        ctx.broken("correspondence", "the Rust harness failed on the timed histories: %s" % err)
        return []
    terms = []
    i = 0
    for kind, h in hs:
        i += 1                                   # R
        evs, obs, tags = [], [], []
        answers = []
        for (t, k, m, want) in h:
            i += 1                               # T
            o = outs[i]
            i += 1
            tags.append(o["tag"] or None)
            answers.append((k, want, o["aux"], t))
            if k == "S":
                evs.append("(%s, ESweep)" % gN(t))
            else:
                evs.append("(%s, %s %s)" % (gN(t), EV[k], g_msg(m[0], classify(m[0]))))
            tab = []
            for key, e in o["map"]:
                idx = next((j for j, tg in enumerate(tags) if tg == key), 99999)
                tab.append("(%s, %s)" % (gN(idx), gN(int(e))))
            obs.append("(%s, %s)" % (gN(o["aux"] + 1), glist(tab)))
        terms.append("(CHistory %s %s)" % (glist(evs), glist(obs)))
        ctx.count(("history", kind, repr(h)[:4000]), kind="history/" + kind)
        if kind == "shutdown":
            for (k, want, aux, t) in answers:
                if k == "Q" and want is not None and bool(aux == 1) != want:
                    ctx.fail("shutdown:session-%s" % ("not-tracked-before-shutdown" if want else "survives-shutdown"),
                             "real SessionTracker fed with everything the station published in a shutdown scenario: the announced session is %s"
                             % ("not tracked after its New" if want else "still tracked after the station's Cleanup()"),
                             {"published": [mm[0] for (_, _, mm, _) in h if mm is not None]})
                    break
        if kind == "lifetime":
            # direct oracle: tracked at every instant before the station's lifetime ends, gone at the first sweep after it
            for (k, want, aux, t) in answers:
                if k == "Q" and want is not None and bool(aux == 1) != want:
                    n = h[0][2][0]
                    ctx.fail("lifetime:%s" % ("dropped-while-station-accepts" if want else "forwarded-after-lifetime-and-sweep"),
                             "real SessionTracker: session of a registration announced New at t0 (and Update later) is %s at t0%+d ns "
                             "(station lifetimes 10 min / 6 h)" % ("not tracked" if want else "still tracked after a sweep", t - h[0][0]),
                             {"new_message": n, "history": [(tt, kk, None if mm is None else mm[0]) for (tt, kk, mm, _) in h]})
                    break
    return terms


def gen_pubsub(ctx, pool, pairs=()):
    """scripts for the real ingest_from_pubsub loop: [(script, expectation)]"""
    rng = ctx.rng
    scripts = []
    clear = ({"ph": None, "cl": None, "tmo": None, "op": 3, "dst": None, "src": None, "proto": None}, None)
    # the loop must go on after a receive error, an unreadable payload, an undecodable payload: an announcement that follows is
    # stored, the shutdown Clear that follows is acted on
    for (n, u) in list(pairs)[:2]:
        for errs in ("E", "Y", "B", "EYB"):
            scripts.append(([(NOW + i, k, None) for i, k in enumerate(errs)] + [(NOW + 10, "M", n)], ("has", n[1]["conv"]["tag"], errs)))
            scripts.append(([(NOW, "M", n), (NOW + 1, "M", u)] + [(NOW + 2 + i, k, None) for i, k in enumerate(errs)] + [(NOW + 10, "M", clear)], ("empty", None, errs)))
    for _ in range(6 if ctx.tier == "quick" else 60):
        t = NOW
        sc = []
        for _ in range(rng.randrange(5, 40)):
            t += rng.choice([0, 1, 10 ** 9, 60 * 10 ** 9, UNUSED_NS])
            k = rng.choice("MMMMMMEYB")
            sc.append((t, k, rng.choice(pool) if k == "M" else None))
        scripts.append((sc, None))
    return scripts


def run_pubsub(ctx, binary, scripts, classify, channel):
    terms = []
    for sc, expect in scripts:
        lines = []
        for (t, k, m) in sc:
            lines.append("T %d" % t)
            lines.append(k if m is None else "M %s" % msg_line(m[0]))
        outs, err = run_script(binary, "--pubsub", lines)
        if not outs:
            ctx.broken("correspondence", "the real ingest_from_pubsub did not run over the scripted connection: %s" % err)
            return terms
        o = outs[-1]
        if o["subscribed"] != [channel]:
            ctx.fail("channel:mismatch", "the station publishes on %r, the detector subscribes to %r" % (channel, o["subscribed"]), o["subscribed"])
        if o.get("returned"):
            ctx.fail("pubsub:loop-ended", "the real ingest_from_pubsub loop returned with %d scripted message(s) unread (it must keep listening after "
                     "receive errors, unreadable and undecodable payloads): every later announcement and the shutdown Clear are lost"
                     % o.get("unread", 0), {"script": [(t_, k_, None if m_ is None else m_[0]) for (t_, k_, m_) in sc]})
        if expect:
            have = {key for key, _ in o["map"]}
            ctx.count(("pubsub-after-error", expect[0], expect[2]), kind="pubsub/after-error")
            if expect[0] == "has" and expect[1] not in have:
                ctx.fail("pubsub:announcement-ignored-after-error", "the real ingest_from_pubsub loop, after %s (E = receive error, Y = unreadable payload, "
                         "B = undecodable payload), does not store the New announcement that follows: the detector never forwards the session"
                         % expect[2], {"script": [(t_, k_, None if m_ is None else m_[0]) for (t_, k_, m_) in sc]})
            if expect[0] == "empty" and have:
                ctx.fail("pubsub:clear-ignored-after-error", "the real ingest_from_pubsub loop, after %s, does not act on the station's Clear: %d session(s) "
                         "survive the shutdown" % (expect[2], len(have)), {"script": [(t_, k_, None if m_ is None else m_[0]) for (t_, k_, m_) in sc]})
        evs, tags = [], []
        for (t, k, m) in sc:
            if k == "M":
                d = classify(m[0]) if m[1] is not None else {"conv": {"ok": False}}
                tags.append(d["conv"].get("tag") if d["conv"]["ok"] else None)
                evs.append("(%s, PMsg %s)" % (gN(t), g_msg(m[0], d) if m[1] is not None else "clear_msg"))
            else:
                tags.append(None)
                evs.append("(%s, %s)" % (gN(t), {"E": "PRecvErr", "Y": "PPayloadErr", "B": "PDecodeErr"}[k]))
        tab = []
        for key, e in o["map"]:
            idx = next((j for j, tg in enumerate(tags) if tg == key), 99999)
            tab.append("(%s, %s)" % (gN(idx), gN(int(e))))
        terms.append("(CPubsub %s %s)" % (glist(evs), glist(tab)))
        ctx.count(("pubsub", repr(sc)[:3000]), kind="pubsub")
    return terms


DRIVER_FILES = {"zz_verif_c10_driver_test.go": "c10/detector_driver_test.go",
                "zz_verif_c10_shim_send_test.go": "c10/shim_send_test.go",
                "zz_verif_c10_shim_none_test.go": "c10/shim_none_test.go"}
DRIVER_FILES.update(c10_world.WORLD_FILES)
c10_world.set_driver_files(DRIVER_FILES)


def run_go(ctx, cases):
    """run the in-package driver; a build failure is retried without the direct-call shim, and a driver that still does
    not build is reported as such (it says nothing about conjure's behaviour)"""
    tags = "verif"
    for attempt in (0, 1):
        rc, out, res = ctx.go_inpkg(".", "pkg/station/lib", DRIVER_FILES, "^TestVerifC10Detector$", cases, timeout=900, tags=tags)
        if res is not None and len(res) == len(cases):
            return res
        if "[build failed]" in out and attempt == 0:
            ctx.cov["driver_shim"] = "sendToDetector's signature changed: direct-call cases skipped (%s)" % " ".join(out.split())[:300]
            tags = "verif,c10_noshim"
            continue
        break
    if "[build failed]" in out:
        ctx.broken("driver-compile", "the in-package driver harness/inpkg/c10 no longer compiles against this tree (an unexported name or "
                   "signature it relies on changed); this says nothing about conjure's behaviour: " + " ".join(out.split())[:900])
    else:
        ctx.broken("driver", "Go driver did not produce results (rc=%d): %s" % (rc, out[-1200:]))
    return None


def run(ctx):
    ctx.assumptions += [
        "text classes: an IP-literal parser reads net.IP.String's output for 4-/16-byte values back as the same address "
        "(checked on every run: Go's strings are parsed by the real Rust IpAddr::from_str and compared with the model)",
        "protobuf wire codec: the message is modelled as a record of optional fields; Go's decoder is used to read the published bytes, "
        "the generated Rust getters' defaults and enum numbering are read from src/signalling.rs on every run",
        "phantom selection and port derivation are inputs of the ingest model (well-formedness: 4/16-byte address, port < 65536; C14/C01)",
        "GeoIP lookups are taken to succeed (empty database in the driver); a failing lookup only removes registrations",
        "redis delivers what PUBLISH was given (RESP stand-in); detector time is an input",
        "client.Publish is modelled as go-redis runs it (baseClient.process: MaxRetries+1 attempts, EOF / connection reset retryable, error replies "
        "not); the attempt count and what is delivered are compared with the real client built by the station's constructor on every run (CPublish)",
        "the station's registration table over time is coq/C08's model (tied to the code by C08's own check and by this check's world lane); the station "
        "and the detector read one clock and a message is processed at the clock reading of its publication (no delivery delay)",
        "world lane, timed histories: the Go runtime's clock is moved by the script (build tag faketime, runtime.faketime through go:linkname, "
        "-ldflags=-checklinkname=0), the redis client of that build is the driver's (in-memory connections)",
    ]
    ctx.cov["trusted_base"] = [
        "Coq 8.16.1 kernel (coqc; coqchk in the thorough tier); vm_compute for evaluating the model on cases; no native_compute",
        "no axioms: every theorem prints 'Closed under the global context'",
        "hand-written model coq/C10/Model.v of sendToDetector/clearDetector/parseRegMessage (Go) and of SessionDetails::new, "
        "From<&StationToDetector>, pubsub_handle_s2d, pubsub_add_or_update_session, pubsub_clear (Rust), tied to both by the correspondence run",
        "harness/rust/c10: cut_sessions.py (brace matching) + harness.rs (std-only stand-ins for protobuf getters, pnet constants, debug!, clock); "
        "harness/inpkg/c10 Go driver with RESP stand-in; this module's generators and emitters",
        "rustc 1.95 std (IpAddr::from_str, HashMap), Go 1.23 net.IP.String, google.golang.org/protobuf, go-redis v8.11.5 (the client under test)",
        "coq/C08 (Model, Invariant, History, Counters: the registration table and its refinement theorems) for the theorems of C10/PropsWorld.v; "
        "driver/props/c10_world.py (history generators, oracle, emitters), harness/inpkg/c10/world_driver_test.go",
    ]
    ctx.cov["rule"] = ("a case is one station call (sendToDetector with arbitrary registration fields / register+markActive / "
                       "clear / one C2SWrapper through parseRegMessage with its announcements) or one message through the real Rust "
                       "handler from three table states, or one world history (real registry + real publish path + real SessionTracker, every step compared) / "
                       "one publication under a fault script; non-trivial = hash-distinct, counted per (kind, outcome class)")
    # the theorems about sequences (PropsWorld.v) are stated over coq/C08's model of the station's registration table
    ctx.extra_dirs += ["C08"]
    rc, out = ctx.coq_make(["C08/Counters.vo"])
    if rc == 0:
        ctx.coq_props(props_files=["C10/Props.v", "C10/PropsWorld.v"])
        ctx.cov["composition"] = "PropsWorld.v checked against coq/C08 (station table over time)"
    else:
        ctx.extra_dirs[:] = []
        ctx.coq_props()
        ctx.cov["composition"] = "NOT checked in this run: coq/C08 does not build: " + out[-300:]
        ctx.broken("proof-obligation", "the theorems of C10/PropsWorld.v could not be re-checked: coq/C08 (their model of the station's table) does not build: " + out[-300:])
    binary, rsdir = build_detector(ctx)
    if binary is None:
        return
    try:
        _run(ctx, binary)
    finally:
        if os.environ.get("VERIF_KEEP") != "1":
            shutil.rmtree(rsdir, ignore_errors=True)


def check_call_site(ctx):
    """source-shape check of the shutdown path (main() needs zmq, a tun device and a dtls listener and cannot be run here):
    main defers / calls RegistrationManager.Cleanup() before it waits for signals, and the code after the signal loop
    returns normally (no os.Exit / Fatal / panic, which would skip deferred calls)"""
    import glob
    import re
    d = os.path.join(lib.REPO, "cmd", "application")
    srcs = [f for f in glob.glob(os.path.join(d, "*.go")) if not f.endswith("_test.go")]
    strip = lambda t: re.sub(r"//[^\n]*", "", t)
    txt = "\n".join(strip(open(f).read()) for f in srcs)
    ctx.count(("call-site",), kind="call-site")
    if not re.search(r"\.Cleanup\(", txt):
        ctx.fail("clear:not-requested-at-shutdown", "cmd/application no longer calls RegistrationManager.Cleanup(): a station that shuts down "
                 "leaves its sessions in the detector", {"files": [os.path.basename(f) for f in srcs]})
        return
    mp = os.path.join(d, "main.go")
    if not os.path.exists(mp):
        return
    m = strip(open(mp).read())
    i = m.find("func main()")
    j = m.find("signal.Notify(", i)
    if i < 0 or j < 0:
        ctx.cov["shutdown_path"] = "main() / signal.Notify not found: shape check skipped"
        return
    head, tail = m[i:j], m[j:]
    deferred = re.search(r"defer\s+[\w.]+\.Cleanup\(", head) is not None
    explicit = re.search(r"(?<!defer )\b[\w.]+\.Cleanup\(", tail) is not None
    skip = re.search(r"\b(os\.Exit|[\w.]*Fatal\w*|panic|[\w.]*Panic\w*)\(", tail)
    ctx.cov["shutdown_path"] = {"deferred_before_signal_wait": deferred, "explicit_after_loop": explicit,
                                "defer_skipping_call_after_signal_wait": skip.group(0) if skip else None}
    if not (deferred or explicit):
        ctx.fail("clear:not-requested-at-shutdown", "main() neither defers Cleanup() before waiting for signals nor calls it afterwards", {})
    elif deferred and not explicit and skip:
        ctx.fail("clear:shutdown-path-skips-deferred-cleanup", "after the signal loop main() calls %s...), which ends the process without "
                 "running the deferred Cleanup(): the clear request is never sent" % skip.group(0), {"call": skip.group(0)})


WORLD_KINDS = ["world/duplicate-unused", "world/duplicate-used", "world/no-duplicate", "world/reregistered-after-expiry",
               "world/tracked-unvalidated", "world/packets", "world/random", "world/fault-new", "world/fault-update", "world/fault-clear",
               "world/fault-random", "publish/clean/delivered", "publish/faults/delivered", "publish/faults/lost"]


def run_world(ctx, binary, wreal, res_real, wfake, fake, retries):
    """evaluate the world histories: direct oracle on the real station / real SessionTracker, then the Coq world model"""
    import sys
    E = sys.modules[__name__]
    if not ctx.extra_dirs:
        ctx.cov["world"] = "not run: coq/C08 does not build"
        return
    if retries is None:
        ctx.broken("driver", "the driver did not report the retry budget of the station's redis client")
        return
    pairs = list(zip(wreal, res_real))
    if fake is None or fake[2] is None or len(fake[2]) != len(wfake):
        rc, out = (fake[0], fake[1]) if fake else (-1, "")
        ctx.broken("driver", "the fake-clock build of the world driver (go test -tags faketime -ldflags=-checklinkname=0) did not produce "
                   "results (rc=%s): %s" % (rc, " ".join(out.split())[-900:]))
    else:
        ctx.cov["clock"] = "faketime (runtime clock moved by the script; ages exact to the nanosecond)"
        pairs += list(zip(wfake, fake[2]))

    def classify_new(msgs):
        dets, _ = run_detector(binary, msgs)
        return dets
    terms, origin = [], []
    for c, r in pairs:
        slim = {k: v for k, v in c.items() if k not in ("subnets", "ops")}
        if r.get("panic") or r.get("err") or not r.get("world"):
            ctx.broken("driver", "world case %s: %s %s" % (c["cls"], r.get("panic"), r.get("err")), slim)
            continue
        bad = [s["err"] for s in r["world"]["steps"] if s.get("err")]
        if bad:
            if any(b.startswith("panic") for b in bad):
                ctx.fail("panic:world", "the station code panicked in a world history: %s" % bad[0][:200], slim)
            else:
                ctx.broken("driver", "world case %s: %s" % (c["cls"], bad[0]), slim)
            continue
        for t_ in c10_world.evaluate(ctx, E, binary, c, r["world"], retries, classify_new):
            terms.append(t_)
            origin.append(slim)
    ctx.cov["world"] = {"histories": len(pairs), "terms": len(terms), "client_max_retries": retries, "pinned_retries": c10_world.PINNED_RETRIES}
    if pairs:
        c, r = pairs[min(1, len(pairs) - 1)]
        ctx.sample({"world_case": {k: v for k, v in c.items() if k not in ("subnets", "ops")}, "steps": r.get("world", {}).get("steps", [])[:4]})
    mm = ctx.coq_mismatches("c10w", c10_world.HEADER_W, terms, "chkw", shard=60, need_vo=["C10/RunWorld.vo"])
    if mm:
        ctx.cov["mismatches"] += len(mm)
        ctx.broken("correspondence", "the world model (coq/C10/RunWorld.v: C08's table + publication + detector) and the implementation disagree on "
                   "%d history/publication case(s); first: %s" % (len(mm), terms[mm[0]][:300]), {"case": origin[mm[0]]})


def _run(ctx, binary):
    check_call_site(ctx)
    cases = gen_cases(ctx)
    # the world lane: histories at one instant with connection faults (this run), timed histories on the fake clock (a second
    # build of the same driver with the runtime's clock under the script's control, started alongside)
    wreplay = [c for c in replay_cases(ctx.replay) if c["kind"] == "world"]
    wreal = [c for c in wreplay if c["mode"] == "real"] + c10_world.gen_faults(ctx, SUBNETS)
    wfake = [c for c in wreplay if c["mode"] == "fake"] + c10_world.gen_timed(ctx, SUBNETS)
    n_base = len(cases)
    cases = cases + wreal
    import concurrent.futures
    with concurrent.futures.ThreadPoolExecutor(max_workers=1) as ex:
        fut = ex.submit(c10_world.go_run_fake, ctx, wfake) if ctx.extra_dirs else None
        res = run_go(ctx, cases)
        fake = fut.result() if fut else None
    if res is None:
        return
    # every published message, plus detector-only messages, through the real Rust code
    flat = []
    for ci, r in enumerate(res):
        for mi, m in enumerate(r.get("msgs") or []):
            flat.append((ci, mi, m))
    extra = gen_detector_msgs(ctx)
    allmsgs = [m for _, _, m in flat] + extra
    undec = [m for m in allmsgs if "decoded" in m and not m["decoded"]]
    if undec:
        ctx.broken("correspondence", "a published payload is not a StationToDetector message: %s" % undec[0]["raw"][:200])
        return
    dets, err = run_detector(binary, allmsgs)
    if dets is None:
        ctx.broken("correspondence", "the Rust harness failed on the published messages: " + err)
        return
    det_of = {}
    for (ci, mi, _), d in zip(flat, dets):
        det_of[(ci, mi)] = d
    terms, origin = [], []

    def add(term, ci, what):
        terms.append(term)
        origin.append((ci, what))

    meta = None
    shutdown_hist = []
    for ci, (c, r) in enumerate(zip(cases, res)):
        kind = c["kind"]
        msgs = r.get("msgs") or []
        if r.get("panic"):
            ctx.fail("panic:%s" % kind, "the station code panicked on a %s case: %s" % (kind, r["panic"][:200]), c)
            continue
        for m in msgs:
            if m["channel"] != "dark_decoy_map" or m["unknown"]:
                ctx.broken("correspondence", "message on channel %r with unknown fields %r" % (m["channel"], m["unknown"]), c)
        if kind == "meta":
            meta = r["meta"]
            add("(CLifetimes %s %s)" % (gN(int(meta["timeout_unused_ns"])), gN(int(meta["timeout_active_ns"]))), ci, "lifetimes")
            if int(meta["timeout_unused_ns"]) != UNUSED_NS or int(meta["timeout_active_ns"]) != ACTIVE_NS:
                ctx.fail("lifetimes:station-constants", "the station's own expiry thresholds are %s / %s ns, the property says 10 min / 6 h"
                         % (meta["timeout_unused_ns"], meta["timeout_active_ns"]), meta)
            for t, name in TRANSPORTS.items():
                add("(CProto %s %s)" % (name, gN(meta["transport_protos"][str(t)])), ci, "proto-table")
            if meta["ipproto"] != {"Unk": 0, "Tcp": 1, "Udp": 2} or meta["station_ops"] != {"Unknown": 0, "New": 1, "Update": 2, "Clear": 3}:
                ctx.broken("correspondence", "enum numbering in the generated Go code differs from the model's: %s %s" % (meta["ipproto"], meta["station_ops"]))
            ctx.count(("meta",), nontrivial=True, kind="meta")
            continue
        if kind == "pubfail":
            pf = r.get("pubfail") or {}
            ctx.count(("pubfail", c["via"]), kind="pubfail/" + c["via"])
            add("(CPublishFail %s %s)" % (gbool(bool(pf.get("valid")) and pf.get("visible", 0) > 0), gbool(len(msgs) > 0)), ci, "pubfail")
            if pf.get("valid") and pf.get("visible", 0) > 0 and not msgs:
                ctx.fail("publish-error:valid-but-unannounced",
                         "Redis %s the PUBLISH (%d attempts by the client library): register() marks the registration valid and returns it for "
                         "connections although the detector was never told" % ({"err": "answers with an error to", "close": "drops the connection on"}[c["via"]],
                                                                                pf.get("attempts", 0)), {"case": c, "observed": pf})
            continue
        if kind == "shutdown":
            info = r.get("info") or {}
            cc = {k: v for k, v in c.items() if k != "subnets"}
            ctx.count(("shutdown", json.dumps(cc, sort_keys=True)), kind="shutdown/" + c["via"])
            nb = info.get("before", 0)
            if r.get("err") or nb == 0:
                ctx.broken("correspondence", "shutdown scenario: the registration was not announced before the cancel (%s)" % r.get("err"), cc)
                continue
            after = msgs[nb:]
            clears = [i for i, m in enumerate(after) if m["op"] == 3]
            if not info.get("pipeline_returned"):
                ctx.fail("shutdown:cleanup-not-reached", "HandleRegUpdates (%s input) did not return within 15 s of cancel(): main() would never "
                         "reach its deferred Cleanup()" % c["via"], cc)
                continue
            if len(clears) != 1:
                ctx.fail("shutdown:clear-not-published-after-cancel" if not clears else "shutdown:clear-published-%d-times" % len(clears),
                         "shutdown sequence (%s input): pipeline started with a context, registration announced, cancel(), wg.Wait(), "
                         "Cleanup(): %d Clear message(s) reached the Redis stand-in after the cancel (expected exactly one); the detector keeps "
                         "diverting for a station that is gone" % (c["via"], len(clears)),
                         {"case": cc, "published_before_cancel": msgs[:nb], "published_after_cancel": after})
                continue
            if any(m["op"] in (1, 2) for m in after[clears[0] + 1:]):
                ctx.fail("shutdown:announcement-after-clear", "an announcement was published after the Clear of the shutdown sequence", {"case": cc, "after": after})
            d = det_of[(ci, nb + clears[0])]
            if not all(len(mp) == 0 for mp in d["maps"]):
                ctx.fail("shutdown:clear-ignored", "the Clear published by the shutdown sequence leaves the detector's table as it was", {"case": cc, "detector": d})
            add("(CShutdown %s)" % glist([g_msg(after[i], det_of[(ci, nb + i)]) for i in clears]), ci, "shutdown")
            shutdown_hist.append([((m, det_of[(ci, i)])) for i, m in enumerate(msgs)])
            continue
        if kind == "send":
            if r.get("err", "").startswith("skipped"):
                ctx.count(("send-skipped",), nontrivial=False, kind="send/skipped")
                continue
            if len(msgs) != 1:
                ctx.broken("correspondence", "sendToDetector published %d messages" % len(msgs), c)
                continue
            d = det_of[(ci, 0)]
            add("(CSend %s %s %s %s)" % (g_reg(c["reg"]), gN(int(c["dur"])), gN(c["op"]), g_msg(msgs[0], d)), ci, "send")
            cv = d["conv"]
            ctx.count(("send", c["reg"], c["dur"], c["op"]), kind="send/" + ("accepted" if cv["ok"] else cv["err"]))
            # an acceptable registration must be accepted, and whatever is accepted must be faithful
            if (cv["ok"] or reg_acceptable(c["reg"])) and c["op"] in (1, 2):
                check_announcement(ctx, "sendToDetector", c["reg"], msgs[0], d, c["op"], int(c["dur"]), c)
            continue
        if kind == "announce":
            if len(msgs) != 2:
                ctx.broken("correspondence", "register+markActive published %d messages" % len(msgs), c)
                continue
            okc = reg_acceptable(c["reg"])
            for mi, (upd, want_op, want_ns) in enumerate([(False, 1, UNUSED_NS), (True, 2, ACTIVE_NS)]):
                d = det_of[(ci, mi)]
                add("(CAnnounce %s %s %s)" % (g_reg(c["reg"]), gbool(upd), g_msg(msgs[mi], d)), ci, "announce")
                if okc:
                    check_announcement(ctx, "register/markActive", c["reg"], msgs[mi], d, want_op, want_ns, c)
                ctx.count(("announce", c["reg"], upd), kind="announce/" + ("accepted" if d["conv"]["ok"] else d["conv"]["err"]))
            continue
        if kind == "clear":
            if len(msgs) == 0:
                ctx.fail("clear:not-sent", "Cleanup() (%s manager) published nothing on the detector channel" % c["via"], c)
                continue
            if len(msgs) != 1:
                ctx.broken("correspondence", "%s published %d messages" % (c["via"], len(msgs)), c)
                continue
            d = det_of[(ci, 0)]
            add("(CClear %s)" % g_msg(msgs[0], d), ci, "clear")
            acted = all(len(mp) == 0 for mp in d["maps"])
            ctx.count(("clear", c["via"]), kind="clear/" + ("acted-on" if acted else "ignored"))
            if not acted:
                ctx.fail("clear:ignored", "the message Cleanup() (%s manager) publishes at shutdown (operation=Clear, nothing else) is dropped by the detector "
                         "(%s) and its session table is left as it was: %s" % (c["via"], d["conv"].get("err"), d["maps"][0]),
                         {"case": c, "message": msgs[0], "detector": d})
            continue
        if kind == "ingest":
            regs = r.get("regs") or []
            w = "(Build_c2sw %s %s %s %s %s %s %s)" % (
                gopt(c["addr"], g_bytes), gbool(bool(c["v4"])), gbool(bool(c["v6"])),
                gopt(TRANSPORTS.get(c["transport"])), gopt(c["ov4"] if c["has_rr"] else None, gN),
                gopt(c["ov6"] if c["has_rr"] else None, g_bytes), gopt(c["odst"] if c["has_rr"] else None, gN))

            def g_der(dv):
                return gopt(dv, lambda x: "(Build_derived %s %s)" % (g_bytes(x["phantom"]), gN(x["port"])))
            add("(CIngest (Build_stcfg %s %s) %s (Build_sel %s %s) %s)" % (
                gbool(c["en4"]), gbool(c["en6"]), w, g_der(r.get("derived4")), g_der(r.get("derived6")), glist(regs, g_reg)),
                ci, "ingest")
            ctx.count(("ingest", json.dumps(c, sort_keys=True)), kind="ingest/%d-regs" % len(regs))
            direct = []
            for v6, key in ((False, "direct4"), (True, "direct6")):
                dr = r.get(key)
                add("(CNewReg %s (Build_sel %s %s) %s %s)" % (w, g_der(r.get("derived4")), g_der(r.get("derived6")), gbool(v6),
                                                           gopt(dr, g_reg)), ci, "newreg")
                ctx.count(("newreg", json.dumps(c, sort_keys=True), v6), kind="newreg/" + ("ok" if dr else "rejected"))
                if dr:
                    direct.append(dr)
            if len(msgs) != 2 * (len(regs) + len(direct)):
                ctx.broken("correspondence", "%d registrations gave %d announcements" % (len(regs) + len(direct), len(msgs)), c)
                continue
            for ri, rg in enumerate(regs + direct):
                for k, upd in enumerate([False, True]):
                    mi = 2 * ri + k
                    add("(CAnnounce %s %s %s)" % (g_reg(rg), gbool(upd), g_msg(msgs[mi], det_of[(ci, mi)])), ci, "ingest-announce")
            oracle_ingest(ctx, c, r, {mi: det_of[(ci, mi)] for mi in range(len(msgs))})
            continue
    # the detector model on every message
    for i, (m, d) in enumerate(zip(allmsgs, dets)):
        terms.append("(CDetect %s %s %s)" % (g_msg(m, d), g_conv(d["conv"]), g_maps(canon_maps(d))))
        origin.append((None, "detect"))
        cv = d["conv"]
        eff = "cleared" if all(len(x) == 0 for x in d["maps"]) else ("added" if cv["ok"] and len(d["maps"][0]) == 2 else "nothing")
        ctx.count(("detect", json.dumps(m, sort_keys=True)), kind="detect/%s/%s" % ("ok" if cv["ok"] else cv["err"], eff))
    # the table over time: real SessionTracker (drop_stale_sessions, update_session, add_session, is_tracked_session)
    # and the real ingest_from_pubsub loop, on the messages the station really published
    det_by_line = {msg_line(m): d for m, d in zip(allmsgs, dets)}

    def classify(m):
        return det_by_line[msg_line(m)]
    pool = [(m, d) for m, d in zip(allmsgs, dets)]
    good = [(m, d) for (m, d) in pool if d["conv"]["ok"] and m["op"] in (1, 2)]
    pairs = []
    for ci, (c, r) in enumerate(zip(cases, res)):
        ms = r.get("msgs") or []
        if c["kind"] in ("announce", "ingest"):
            for k in range(0, len(ms) - 1, 2):
                d0, d1 = det_of[(ci, k)], det_of[(ci, k + 1)]
                if d0["conv"]["ok"] and d1["conv"]["ok"] and ms[k]["op"] == 1 and ms[k + 1]["op"] == 2:
                    pairs.append(((ms[k], d0), (ms[k + 1], d1)))
    ctx.rng.shuffle(pairs)
    if good and pairs:
        hpool = good * 3 + pool[:200]
        hs_all = gen_histories(ctx, hpool, pairs)
        for ms in shutdown_hist:      # everything the station published in a shutdown scenario, in order: nothing survives
            first = next((x for x in ms if x[0]["op"] == 1 and x[1]["conv"]["ok"]), None)
            h = [(NOW + i, "M", x, None) for i, x in enumerate(ms)]
            if first:
                h.insert(1 + ms.index(first), (NOW + ms.index(first), "Q", first, True))
                h.append((NOW + len(ms), "Q", first, False))
            hs_all.append(("shutdown", h))
        for t_ in run_histories(ctx, binary, hs_all, classify):
            terms.append(t_)
            origin.append((None, "history"))
        for t_ in run_pubsub(ctx, binary, gen_pubsub(ctx, hpool, pairs), classify, (meta or {}).get("channel", "dark_decoy_map")):
            terms.append(t_)
            origin.append((None, "pubsub"))
    run_world(ctx, binary, wreal, res[n_base:], wfake, fake, (meta or {}).get("max_retries"))
    ctx.sample({"case": cases[5], "result": res[5]})
    ing = [i for i, c in enumerate(cases) if c["kind"] == "ingest" and (res[i].get("regs") or [])]
    if ing:
        c = dict(cases[ing[0]])
        c.pop("subnets", None)
        ctx.sample({"case": c, "result": res[ing[0]], "detector": det_of.get((ing[0], 0))})
    ctx.require_kinds([k_ for k_ in ["meta", "send/accepted", "send/InvalidPhantom", "send/InvalidClient", "send/MixedV4V6Error",
                       "send/UnrecognizedProto", "announce/accepted", "clear/acted-on", "ingest/0-regs", "ingest/1-regs",
                       "ingest/2-regs", "ingest-announce/ok", "newreg/ok", "newreg/rejected", "detect/ok/added", "detect/InvalidPhantom/nothing",
                       "detect/InvalidClient/nothing", "detect/MixedV4V6Error/nothing", "detect/UnrecognizedProto/cleared", "history/lifetime", "history/random", "pubsub", "pubsub/after-error", "pubfail/err", "pubfail/close", "shutdown/idle", "shutdown/busy"] + WORLD_KINDS
                       if not (k_.startswith("send/") and ctx.cov.get("driver_shim"))])
    if ctx.failures or ctx.brokens:
        # outcome classes are only meaningful as a generator self-test when nothing else is wrong
        ctx.brokens[:] = [b for b in ctx.brokens if b["kind"] != "generator-selftest"]
    mm = ctx.coq_mismatches("c10", HEADER, terms, "chk", shard=400, need_vo=["C10/Run.vo"])
    if mm:
        ctx.cov["mismatches"] += len(mm)
        i = mm[0]
        ci, what = origin[i]
        detail = {"kind": what, "term": terms[i][:1500]}
        if ci is not None:
            c = dict(cases[ci])
            c.pop("subnets", None)
            detail["case"] = c
            detail["observed"] = res[ci]
        ctx.broken("correspondence", "model C10 and the implementation disagree on %d case(s); first: %s" % (len(mm), what), detail)
        # search for a failing input around the mismatching registration messages
        bases, seen = [], set()
        for i in mm:
            ci = origin[i][0]
            if ci is not None and cases[ci]["kind"] == "ingest" and ci not in seen:
                seen.add(ci)
                bases.append(cases[ci])
            if len(bases) >= 4:
                break
        if bases and not ctx.failures:
            search_failing_input(ctx, binary, bases)
