"""C18 — cached liveness verdicts are never stale or flipped, and the cache is bounded."""
import itertools
import os

from lib import gN, gZ, gbool, gopt, glist

HEADER = "From CJ Require Import Common.Base C18.Model C18.Run C18.ModelToml.\n"
ERRS = [0, 2, 3, 4]            # error classes the scripted probe returns (1 = ErrCachedPhantom is the cache's)
DEFAULT_LRU = 100000
UNIT = 1000                    # model time units per hour in shift mode


# ------------------------------------------------------------------ case generation
def cfg(dl, cl, dn, cn):
    return {"dl": dl, "cl": cl, "dn": dn, "cn": cn}


def q(a, pl, pe=0):
    return {"k": "q", "a": a, "pl": pl, "pe": pe}


def adv(d):
    return {"k": "a", "d": d}


CLR = {"k": "c"}


# ---- configuration written as station TOML (the production path: lib.Config > *RegConfig > *liveness.Config) ----
# The table of key names is the SPECIFICATION (cmd/application/app_config.toml documents them): which written key
# speaks about which cache. It is deliberately not read from the struct tags.
TOML_KEYS = {"dl": "cache_expiration_time",      # lifetime of LIVE verdicts
             "cl": "cache_capacity",             # capacity of the LIVE cache
             "dn": "cache_expiration_nonlive",   # lifetime of NOT-LIVE verdicts
             "cn": "cache_capacity_nonlive"}     # capacity of the NOT-LIVE cache
TOML_NOISE = ['log_level = "error"', 'enable_v4 = true']


class TCfg(tuple):
    """(tl, cl, tn, cn) as WRITTEN under the documented keys, plus the TOML text and the written items in file order"""
    toml = None
    items = None
    lines = None


def toml_cfg(rng, tl, cl, tn, cn):
    """choose what is written: a None lifetime is an absent key or "", a 0 capacity is sometimes absent; random order"""
    items = []
    for k, v in (("dl", tl), ("cl", cl), ("dn", tn), ("cn", cn)):
        if k in ("dl", "dn"):
            if v is None and rng.random() < 0.5:
                continue
            items.append((k, v))
        else:
            if v == 0 and rng.random() < 0.5:
                continue
            items.append((k, v))
    rng.shuffle(items)
    lines = list(items)
    for n in TOML_NOISE:
        lines.insert(rng.randrange(len(lines) + 1), n)
    c = TCfg((tl, cl, tn, cn))
    c.items = items
    c.lines = lines
    return c


def toml_text(c, mode):
    out = ["# station configuration (generated)"]
    for e in c.lines:
        if isinstance(e, str):
            out.append(e)
        elif e[0] in ("dl", "dn"):
            out.append('%s = "%s"' % (TOML_KEYS[e[0]], dur_str(e[1], mode)))
        else:
            out.append("%s = %d" % (TOML_KEYS[e[0]], e[1]))
    return "\n".join(out) + "\n"


def fill_history(naddr=6):
    """more distinct phantoms of each verdict than any small capacity, then everything asked again, across both lifetimes"""
    h = []
    for v in (False, True):
        h += [q(a, v) for a in range(naddr)]
        h += [q(a, v) for a in range(naddr)]
    h += [adv(1), q(0, False), q(0, True), adv(1), q(5, False), q(5, True), adv(1), q(5, False), q(5, True), adv(2), q(5, True), CLR, adv(3), CLR]
    return h


def toml_cases(rng, quick):
    out = []
    # asymmetric capacities and lifetimes, so that any exchange of two keys shows
    fixed = [(5, 0, 2, 2), (5, 2, 2, 0), (5, 1, 2, 3), (5, 3, 2, 1), (2, 0, 5, 0), (5, 0, 2, 0), (4, -1, 3, 2), (4, 2, 3, -1),
             (None, 0, 3, 2), (4, 2, None, 0), (None, 3, 2, 1), (5, 1, None, 3), (None, 0, None, 0), (None, 2, None, 1)]
    for c in fixed:
        out.append((toml_cfg(rng, *c), fill_history(), "toml"))
    for _ in range(12 if quick else 120):
        tl, tn = rng.sample([2, 3, 4, 5, 6], 2)
        cl, cn = rng.sample([0, 1, 2, 3, 4, -1], 2)
        out.append((toml_cfg(rng, tl, cl, tn, cn), rand_history(rng, rng.choice([30, 100]), tl, tn, naddr=8), "toml"))
    return out


def enum_histories(length, ttl_l, ttl_n):
    """all histories of exactly `length` over 3 addresses (every shorter one is a prefix)"""
    advs = sorted({1, max(1, min(x for x in (ttl_l, ttl_n) if x is not None) if (ttl_l or ttl_n) else 1)})
    alpha = [q(a, pl) for a in range(3) for pl in (True, False)] + [adv(d) for d in advs] + [CLR]
    for h in itertools.product(alpha, repeat=length):
        yield list(h)


def rand_history(rng, n, ttl_l, ttl_n, naddr=3):
    ttls = [t for t in (ttl_l, ttl_n) if t is not None] or [3]
    bnd = sorted({max(0, t + d) for t in ttls for d in (-1, 0, 1)} | {0, 1, 2})
    h = []
    flip = rng.random() < 0.5
    state = [rng.random() < 0.5 for _ in range(naddr)]     # hosts that change state from time to time
    for _ in range(n):
        r = rng.random()
        if r < 0.62:
            a = rng.randrange(naddr)
            if flip and rng.random() < 0.2:
                state[a] = not state[a]
            h.append(dict(q(a, state[a] if rng.random() < 0.9 else not state[a], rng.choice(ERRS)), p=rng.choice([0, 0, 443, 80, 8443])))
        elif r < 0.9:
            h.append(adv(rng.choice(bnd)))
        else:
            h.append(CLR)
    return h


def gen_cases(ctx):
    rng = ctx.rng
    quick = ctx.tier == "quick"
    cases = []          # (cfg, history, tag)
    rp = ctx.replay or {}
    for c in rp.get("failures", []) + rp.get("broken", []) + rp.get("theorem_or_correspondence", []):
        cc = c.get("case") or {}
        if "cfg" in cc and "ops" in cc:
            cases.append((cc["cfg"], cc["ops"], "replay"))
    # corpus: minimised inputs of past findings, always first
    cases.append(((3, 0, 2, 1), [q(0, False), q(1, False), q(2, False), q(0, False)], "corpus"))     # #15: non-live capacity ignored
    cases.append(((3, 1, 2, 0), [q(0, False), q(1, False), q(0, True), q(1, True)], "corpus"))        # #15, the other direction
    cases.append(((3, 0, 2, 0), [q(0, True), adv(3), q(0, False, 2), q(0, True), CLR, adv(1), CLR], "corpus"))   # boundary instants
    cases.append(((2, 2, 2, 1), [q(0, True), q(1, True), q(0, True), q(2, True), q(0, False), q(1, False), adv(3), CLR], "corpus"))
    # the configuration space: live-only / non-live-only / both / none, map and LRU, capacities 1..3 and negative
    ttls = [(3, 2), (2, 5), (4, 4)]
    caps = [0, 1, 2, 3, -1]
    cfgs = []
    for (tl, tn) in ttls:
        for cl in caps:
            for cn in caps:
                for mode in ("both", "live", "nonlive"):
                    cfgs.append(((tl if mode != "nonlive" else None), cl, (tn if mode != "live" else None), cn))
    cfgs.append((None, 0, None, 0))
    cfgs.append((None, 2, None, 2))
    cfgs += [(0, 0, 3, 0), (3, 2, 0, 2), (-1, 1, 2, 1), (3, 0, -2, 0)]     # "0s" and negative lifetimes
    # exhaustive enumeration (bounded length) on a few configurations
    L = 3 if quick else 5
    exh_cfgs = [(3, 0, 2, 0), (3, 1, 2, 2), (2, 2, 2, 1)] if quick else \
               [(3, 0, 2, 0), (3, 1, 2, 2), (2, 2, 2, 1), (3, 2, None, 0), (None, 0, 2, 1), (3, 0, 2, 1), (2, 1, 3, 0)]
    for (tl, cl, tn, cn) in exh_cfgs:
        for h in enum_histories(L if (quick or (tl, cl, tn, cn) in exh_cfgs[:2]) else 4, tl, tn):
            cases.append(((tl, cl, tn, cn), h, "exh"))
    # long random histories on every configuration
    per = 1 if quick else 12
    for c in cfgs:
        for _ in range(per):
            n = rng.choice([12, 40, 120]) if quick else rng.choice([12, 40, 120, 400])
            cases.append((c, rand_history(rng, n, c[0], c[2]), "rand"))
    # more addresses than any capacity (eviction pressure), 8 addresses
    for _ in range(20 if quick else 300):
        c = (rng.choice([2, 3, 6]), rng.choice([0, 1, 2, 3, 5]), rng.choice([2, 3, 6]), rng.choice([0, 1, 2, 3, 5]))
        cases.append((c, rand_history(rng, rng.choice([30, 100]), c[0], c[2], naddr=8), "rand8"))
    # the same bound / staleness cases with the configuration written as station TOML and decoded by the station's library
    cases += toml_cases(rng, quick)
    return cases


def dur_str(t, mode):
    if t is None:
        return ""
    return ("%dns" % t) if mode == "fake" else ("%dh" % t)


# ------------------------------------------------------------------ oracle (independent of the Coq model)
def oracle(ctx, c, h, res, scale, tick):
    """evaluate the property's own statement on the observed trace"""
    (tl, cl, tn, cn) = c
    lm = {}                     # address -> [verdict, age]   (last measurement, from the observed trace)
    cfgd = {"cfg": list(c), "ops": h}
    lane = ""
    if getattr(c, "toml", None):
        # the configuration was written as TOML: c holds the values written under the documented keys
        cfgd["toml"] = c.toml
        lane = "toml/"
    for i, (o, st) in enumerate(zip(h, res["steps"])):
        for a in lm:
            lm[a][1] += tick
        if o["k"] == "a":
            for a in lm:
                lm[a][1] += o["d"] * scale
        elif o["k"] == "q":
            a = o["a"]
            if st["calls"] == 0:
                ttl = (tl if st["live"] else tn)
                if st["err"] != 1:
                    ctx.fail("served:not-marked-cached", "query answered without a probe but not reported as cached", dict(cfgd, step=i))
                if a not in lm:
                    ctx.fail("served:never-measured", "verdict served from cache for an address that was never measured", dict(cfgd, step=i))
                elif lm[a][0] != st["live"]:
                    ctx.fail("served:flipped-verdict/%s" % ("live" if st["live"] else "nonlive"),
                             "cached verdict differs from the most recent measurement of that address (step %d)" % i, dict(cfgd, step=i))
                elif ttl is None or not (lm[a][1] < ttl * scale):
                    ctx.fail("served:%sstale/%s" % (lane, "live" if st["live"] else "nonlive"),
                             "verdict served from cache %d units after its measurement, lifetime %s%s (step %d)"
                             % (lm[a][1], ttl, (" written under %s" % TOML_KEYS["dl" if st["live"] else "dn"]) if lane else "", i), dict(cfgd, step=i))
            else:
                if st["calls"] != 1:
                    ctx.fail("probe:calls!=1", "one query issued %d probes" % st["calls"], dict(cfgd, step=i))
                if st["live"] != o["pl"] or st["err"] != o["pe"]:
                    ctx.fail("probe:result-altered", "the probe's verdict/error was not returned unchanged", dict(cfgd, step=i))
                lm[a] = [st["live"], 0]
        else:
            if st["calls"] != 0:
                ctx.fail("probe:outside-query", "probe issued by a non-query operation", dict(cfgd, step=i))
        # bounds after every operation
        for side, cp, ln, d in (("live", cl, st["ll"], tl), ("nonlive", cn, st["ln"], tn)):
            if cp != 0 and d is not None:
                bound = cp if cp > 0 else DEFAULT_LRU
                if ln > bound and lane:
                    ctx.fail("bound:toml/%s/cap=%d" % (side, cp),
                             "%s cache holds %d entries although the station TOML says %s = %d (step %d, after %d queries); TOML:\n%s"
                             % (side, ln, TOML_KEYS["cl" if side == "live" else "cn"], cp, i,
                                sum(1 for x in h[:i + 1] if x["k"] == "q"), c.toml), dict(cfgd, step=i, cache_len=ln))
                elif ln > bound:
                    other = cn if side == "live" else cl
                    ctx.fail("bound:%s/own_cap=%s,other_cap=%s" % (side, "n" if cp > 0 else "neg", "0" if other == 0 else "n"),
                             "%s cache holds %d entries with capacity %d configured (other side's capacity %d), step %d"
                             % (side, ln, cp, other, i), dict(cfgd, step=i))


# ------------------------------------------------------------------ Gallina emission
def g_op(o, scale):
    if o["k"] == "q":
        return "Query %s %s %s" % (gN(o["a"]), gbool(o["pl"]), gN(o["pe"]))
    if o["k"] == "a":
        return "Adv %s" % gN(o["d"] * scale)
    return "ClearExpired"


def g_out(o, st):
    if o["k"] != "q":
        return "NoOut"
    if st["calls"] == 0 and st["err"] == 1:
        return "Cached %s" % gbool(st["live"])
    if st["calls"] == 1:
        return "Probed %s %s" % (gbool(st["live"]), gN(st["err"]))
    return "Probed %s %s" % (gbool(st["live"]), gN(1000 + 10 * st["calls"] + st["err"]))   # never matches the model


def kind_code(kind, size):
    return {"nil": 0, "map": 1}.get(kind, 2 + size)


def g_toml(c, scale):
    """the written document as ModelToml.toml, in file order"""
    it = []
    for k, v in c.items:
        if k in ("dl", "dn"):
            it.append('("%s"%%string, TDur %s)' % (TOML_KEYS[k], gopt(None if v is None else v * scale, gZ)))
        else:
            it.append('("%s"%%string, TInt %s)' % (TOML_KEYS[k], gZ(v)))
    return "(decode %s)" % glist(it)


def g_case(c, h, res, scale, tick):
    (tl, cl, tn, cn) = c
    ops, obs = [], []
    probes = 0
    ll = ln = 0
    for o, st in zip(h, res["steps"]):
        if tick:
            ops.append("Adv %s" % gN(tick))
            obs.append("(NoOut, %s, %s, %s)" % (gN(probes), gN(ll), gN(ln)))
        probes += st["calls"]
        ll, ln = st["ll"], st["ln"]
        ops.append(g_op(o, scale))
        obs.append("(%s, %s, %s, %s)" % (g_out(o, st), gN(probes), gN(ll), gN(ln)))
    cf = "(mkCfg %s %s %s %s)" % (gopt(None if tl is None else tl * scale, gZ), gZ(cl),
                                  gopt(None if tn is None else tn * scale, gZ), gZ(cn))
    if getattr(c, "toml", None):
        cf = g_toml(c, scale)        # the model decodes the written document itself (ModelToml.decode)
    return "(%s, (%s, %s), %s, %s)" % (cf, gN(kind_code(res["kl"], res["sl"])), gN(kind_code(res["kn"], res["sn"])),
                                        glist(ops), glist(obs))


# ------------------------------------------------------------------ run
def run_seq(ctx, cases, mode):
    for (c, _, _) in cases:
        if isinstance(c, TCfg):
            c.toml = toml_text(c, mode)
    js = [dict({"dl": dur_str(c[0], mode), "cl": c[1], "dn": dur_str(c[2], mode), "cn": c[3], "ops": h},
               **({"toml": c.toml} if getattr(c, "toml", None) else {})) for (c, h, _) in cases]
    tags = "verif,faketime" if mode == "fake" else "verif"
    env = {"VERIF_C18_MODE": mode}
    if mode == "fake":
        # the fake clock only advances when every thread is idle; a cgo binary keeps an extra thread, so build without cgo.
        # (go test's own -timeout runs on the fake clock; the real-time limit below is what ends a stuck run -> fallback)
        env["CGO_ENABLED"] = "0"
        env["GOMAXPROCS"] = "1"      # with several Ps the fake clock can stall while GC workers come and go (observed)
    rc, out, res = ctx.go_inpkg(".", "pkg/station/liveness", {"zz_verif_driver_test.go": "c18/liveness_driver_test.go"},
                                "^TestVerifC18Seq$", js, tags=tags, env=env, timeout=(400 if mode == "fake" else 1200))
    return rc, out, res


def check_seq(ctx, cases, res, mode):
    scale, tick = (1, 0) if mode == "fake" else (UNIT, 1)
    terms, keep = [], []
    for (c, h, tag), r in zip(cases, res):
        hk = (c, tuple(tuple(sorted(o.items())) for o in h))
        if r["panic"] or r["init_err"] or len(r["steps"]) != len(h):
            ctx.count(hk, kind="%s/%s/abnormal" % (mode, tag))
            ctx.fail("tester:panic-or-init-error", "tester construction or a query failed: panic=%r init_err=%s" % (r["panic"], r["init_err"]),
                     {"cfg": list(c), "ops": h})
            continue
        nq = sum(1 for o in h if o["k"] == "q")
        served = sum(1 for o, st in zip(h, r["steps"]) if o["k"] == "q" and st["calls"] == 0)
        ctx.count(hk, nontrivial=nq > 0, kind="%s/%s" % (mode, tag))
        kinds = "%s+%s" % (r["kl"], r["kn"])
        ctx.cov["histogram"]["kinds/" + kinds] = ctx.cov["histogram"].get("kinds/" + kinds, 0) + 1
        if served:
            ctx.cov["histogram"]["with-cache-hit"] = ctx.cov["histogram"].get("with-cache-hit", 0) + 1
        if any(st["ll"] + st["ln"] < pst["ll"] + pst["ln"] for st, pst in zip(r["steps"][1:], r["steps"])):
            ctx.cov["histogram"]["with-shrink"] = ctx.cov["histogram"].get("with-shrink", 0) + 1
        oracle(ctx, c, h, r, scale, tick)
        terms.append(g_case(c, h, r, scale, tick))
        keep.append((c, h, r))
    mm = ctx.coq_mismatches("seq_" + mode, HEADER, terms, "chk", shard=max(60, len(terms) // 15 + 1), need_vo=["C18/Run.vo"])
    if mm:
        ctx.cov["mismatches"] += len(mm)
        # report the shortest mismatching history
        i = min(mm, key=lambda j: len(keep[j][1]))
        c, h, r = keep[i]
        ctx.broken("correspondence", "model C18.Run and the implementation disagree on %d histories (%s clock); shortest: cfg=%s, %d ops"
                   % (len(mm), mode, list(c), len(h)), {"cfg": list(c), "ops": h, "observed": r})
    return keep


def conc_cases(ctx, race):
    rng = ctx.rng
    cases = []
    sd = lambda: rng.randrange(1 << 30)
    if not race:
        # quick: a few seconds, no race detector. Add-heavy rounds on fresh testers (distinct addresses per goroutine,
        # so nearly every query probes and adds) and overlapping addresses (lookups refresh recency while others add).
        for cp in (1, 2, 3):
            for g in (8, 16, 32):
                cases.append({"dl": "1h", "cl": cp, "dn": "1h", "cn": cp, "g": g, "n": 120, "addrs": 0, "distinct": True,
                              "rounds": 40, "seed": sd(), "clearer": False})
        for cp in (1, 2, 3):
            cases.append({"dl": "1h", "cl": cp, "dn": "1h", "cn": 4 - cp, "g": 16, "n": 200, "addrs": 3 * cp + 2, "distinct": False,
                          "rounds": 40, "seed": sd(), "clearer": cp == 2})
        cases.append({"dl": "40us", "cl": 2, "dn": "20us", "cn": 1, "g": 8, "n": 400, "addrs": 9, "distinct": False,
                      "rounds": 20, "seed": sd(), "clearer": True})
        return cases
    for g in (2, 8, 32):
        for (cl, cn) in ((1, 1), (2, 3), (5, 4), (0, 3), (3, 0)):
            for clearer in (False, True):
                cases.append({"dl": "1h", "cl": cl, "dn": "1h", "cn": cn, "g": g, "n": 400, "addrs": 12, "distinct": False,
                              "rounds": 3, "seed": sd(), "clearer": clearer})
    for cp in (1, 2, 3):
        for g in (8, 32):
            cases.append({"dl": "1h", "cl": cp, "dn": "1h", "cn": cp, "g": g, "n": 150, "addrs": 0, "distinct": True,
                          "rounds": 60, "seed": sd(), "clearer": False})
    # lifetimes short enough that entries expire while the workers run
    for g in (4, 16):
        cases.append({"dl": "50us", "cl": 3, "dn": "20us", "cn": 2, "g": g, "n": 2000, "addrs": 10, "distinct": False,
                      "rounds": 2, "seed": sd(), "clearer": True})
    return cases


def run_conc(ctx, race):
    cases = conc_cases(ctx, race)
    rc, out, res = ctx.go_inpkg(".", "pkg/station/liveness", {"zz_verif_driver_test.go": "c18/liveness_driver_test.go"},
                                "^TestVerifC18Conc$", cases, race=race, timeout=900)
    if "DATA RACE" in out:
        ctx.fail("race:liveness-cache", "the race detector reports a data race in concurrent PhantomIsLive/ClearExpiredCache",
                 {"output": out[out.find("DATA RACE") - 200:][:1500]})
    if res is None or len(res) != len(cases):
        if "DATA RACE" not in out:
            ctx.broken("driver", "concurrent driver produced no results: " + out[-800:])
        return
    tag = "conc-race" if race else "conc"
    for c, r in zip(cases, res):
        ctx.count((tag, tuple(sorted(c.items()))), kind="%s/%s" % (tag, "distinct" if c["distinct"] else "overlap"))
        inflight = c["g"] + (1 if c["clearer"] else 0)
        if r["panic"]:
            ctx.fail("conc:panic", "panic under concurrent queries: " + r["panic"], c)
        for side, cp, fin, mx in (("live", c["cl"], r["finl"], r["maxl"]), ("nonlive", c["cn"], r["finn"], r["maxn"])):
            if cp > 0 and fin > cp:
                ctx.fail("conc:bound-at-quiescence/%s" % side,
                         "%s cache holds %d > capacity %d verdicts after all of %d goroutines returned (GOMAXPROCS %d)" % (side, fin, cp, c["g"], r["procs"]),
                         dict(c, observed=r))
            # lru_bounded_concurrent: |entries| <= capacity + operations in flight
            if cp > 0 and mx > cp + inflight:
                ctx.fail("conc:bound-in-flight/%s" % side, "%s cache was seen with %d entries > capacity %d + %d operations in flight"
                         % (side, mx, cp, inflight), dict(c, observed=r))
        # no_leak_concurrent at quiescence: every stored verdict is tracked by the recency list; evicted verdicts are not served
        if r["leaked"]:
            ctx.fail("conc:evicted-entry-kept" + ("-and-served" if r["leaked_served"] else ""),
                     "after quiescence %d verdict(s) are stored that the LRU no longer tracks (first: round %d, %s); %d of them were answered "
                     "from the cache without a probe" % (r["leaked"], r["leak_round"], r["leak_key"], r["leaked_served"]), dict(c, observed=r))
        if r["wrong"]:
            ctx.fail("conc:wrong-verdict", "%d queries returned a verdict no measurement of that address produced" % r["wrong"], dict(c, observed=r))
    ctx.cov[tag] = {"cases": len(cases), "queries": sum(r["queries"] for r in res), "procs": res[0]["procs"] if res else None, "sample": res[:2]}


def run_sections(ctx):
    """order of the atomic sections of Add / Lookup / ClearExpired, observed with the map lock held by the driver"""
    rc, out, res = ctx.go_inpkg(".", "pkg/station/liveness", {"zz_verif_driver_test.go": "c18/liveness_driver_test.go"},
                                "^TestVerifC18Sections$", None, timeout=300)
    if res is None or len(res) != 3:
        ctx.broken("driver", "section-order driver produced no results: " + out[-600:])
        return
    terms = []
    for i, r in enumerate(res):
        ctx.count(("sections", r["op"]), kind="sections/" + r["op"])
        terms.append("(%s, (%s, %s, %s), (%s, %s))" % (gN(i), gbool(r["list_changed"]), gbool(r["map_changed"]), gbool(r["returned"]),
                                                     gbool(r["after_in_map"]), gbool(r["after_in_list"])))
    ctx.cov["sections"] = res
    mm = ctx.coq_mismatches("sections", HEADER + "From CJ Require Import C18.ModelConc.\n", terms, "chk_sections", need_vo=["C18/Run.vo"])
    if mm:
        ctx.cov["mismatches"] += len(mm)
        r = res[mm[0]]
        ctx.broken("correspondence", "the order of the atomic sections of lruCache.%s differs from the concurrent model (ModelConc.section_lock: the "
                   "first section takes the verdict-map lock): with that lock held by the driver the operation %s"
                   % ({"add": "Add", "lookup": "Lookup", "clear": "ClearExpired"}[r["op"]],
                      "returned" if r["returned"] else "changed the recency list" if r["list_changed"] else "changed the map" if r["map_changed"] else "ended in an unexpected state"),
                   {"observed": r})


def run(ctx):
    ctx.assumptions += [
        "the probe itself (phantomIsLive: four TCP dials) is outside the model; its verdict and error are inputs of each query",
        "time is an input: the driver controls the clock (Go runtime faketime: the clock moves only when the driver sleeps) "
        "and, as a cross-check with the real clock, shifts the stored cachedTime values; time.Now/time.Since themselves are trusted",
        "hashicorp/golang-lru v1.0.2 is modelled (recency list, eviction of the oldest, callback after the list update), not verified; "
        "the correspondence run exercises it",
        "concurrent theorem: the sections between acquiring and releasing lruCache.m / lru.Cache.lock are atomic (checked by -race only)",
        "the Go in-package driver, the case generator and the JSON->Gallina emitter are trusted",
    ]
    ctx.cov["trusted_base"] = [
        "Coq 8.16.1 kernel (coqc; coqchk in the thorough tier); vm_compute evaluates the model on the recorded histories; no native_compute",
        "no axioms: every theorem prints 'Closed under the global context'",
        "hand-written model coq/C18/Model.v tied to the code by the correspondence run (driver + emitter trusted)",
    ]
    ctx.cov["rule"] = ("histories of Query/Adv/ClearExpired over 3 (and 8) addresses: all histories up to a bounded length on selected "
                       "configurations plus long random ones on every configuration (live-only/non-live-only/both/none x map/LRU x "
                       "capacities 0,1,2,3,-1 x lifetimes incl. 0 and negative); a history is non-trivial if hash-distinct and it "
                       "contains at least one query; every step's verdict, error class, probe calls and both cache sizes are compared")
    ctx.coq_props()
    rc_ex, out_ex = ctx.coq_make(["C18/Examples.vo"])
    if rc_ex != 0:
        ctx.broken("examples", "non-vacuity examples no longer check: " + out_ex[-400:])
    cases = gen_cases(ctx)
    # primary run: exact clock (faketime)
    rc, out, res = run_seq(ctx, cases, "fake")
    fake_ok = res is not None and len(res) == len(cases)
    if not fake_ok:
        ctx.cov["faketime"] = "unavailable: " + out[-300:]
    else:
        ctx.cov["faketime"] = "ok"
        keep = check_seq(ctx, cases, res, "fake")
        for (c, h, r) in keep[:2] + keep[-2:]:
            ctx.sample({"cfg": list(c), "ops": h[:12], "observed_steps": r["steps"][:12], "kinds": [r["kl"], r["kn"]]})
    # cross-check with the real clock and shifted timestamps (all cases if faketime is unavailable)
    sub = cases if not fake_ok else [x for i, x in enumerate(cases) if x[2] != "exh" or i % (7 if ctx.tier == "quick" else 23) == 0]
    rc2, out2, res2 = run_seq(ctx, sub, "shift")
    if res2 is None or len(res2) != len(sub):
        ctx.broken("driver", "Go driver (shift mode) did not produce results: %s" % out2[-800:])
        if not fake_ok:
            return
    else:
        check_seq(ctx, sub, res2, "shift")
    ctx.require_kinds(["kinds/map+map", "kinds/lru+lru", "kinds/map+lru", "kinds/lru+map", "kinds/nil+nil", "kinds/nil+map",
                       "kinds/lru+nil", "with-cache-hit", "with-shrink", "shift/rand", "shift/rand8", "shift/toml"] +
                      (["fake/exh", "fake/rand", "fake/rand8", "fake/corpus", "fake/toml"] if fake_ok else ["shift/exh", "shift/corpus"]))
    run_sections(ctx)
    run_conc(ctx, race=False)
    ctx.require_kinds(["conc/distinct", "conc/overlap", "sections/add", "sections/lookup", "sections/clear"])
    if ctx.tier == "thorough":
        run_conc(ctx, race=True)
