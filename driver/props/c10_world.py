"""C10 world lane: the station's real registration table, the real publish path and the real Rust SessionTracker side by
side over scripted histories (new registrations, duplicates through both ingest entry points, validation, use, the clock,
both sweeps, connection faults during PUBLISH, Cleanup).

Direct oracle (the property's own words): whenever the station accepts a registration (GetRegistrations returns it right after
the station's own sweep), the detector - fed with exactly what the station published - still forwards its session (tracked
right after the detector's sweep at the same instant); an announcement must not be lost to fewer transient connection faults
than the pinned client survives; after Cleanup() the detector holds nothing.
Correspondence: coq/C10/RunWorld.v (C08's table model + C10's publication and detector models) on the same histories.
"""
import json
import os
import re

import lib
from lib import gN, gbool, gopt, glist

HEADER_W = "From CJ Require Import Common.Base C10.Model C10.Run C10.ModelWorld C10.RunWorld.\n"
NS = 10 ** 9
MIN = 60 * NS
BASE = 1000000000000           # the detector harness' epoch (harness.rs NOW); the model's first event advances to it
UNUSED, ACTIVE = 600 * NS, 21600 * NS
# the retry budget of the pinned client (go-redis default: 3 retries after the first attempt).  The property cannot demand
# delivery when redis is down for good; it does demand that an announcement survives the transient faults the pinned code survives.
PINNED_RETRIES = 3
TR = {1: "S.Min", 2: "S.Obfs4", 4: "S.Prefix"}
FAULT = {"before": "FLostBefore", "after": "FLostAfter", "refuse": "FRefused"}

WORLD_FILES = {"zz_verif_c10_world_test.go": "c10/world_driver_test.go",
               "zz_verif_c10_clock_fake_test.go": "c10/clock_fake_test.go",
               "zz_verif_c10_clock_real_test.go": "c10/clock_real_test.go"}


# ------------------------------------------------------------------ generation
def go(op, probe=False, oracle=True, **kw):
    d = {"op": op}
    d.update(kw)
    return {"t": "go", "op": d, "probe": probe, "oracle": oracle}


def det(cmd, key=None):
    return {"t": "det", "cmd": cmd, "key": key}


def adv(ns):
    return go("adv", ns=str(ns))


def probe(oracle=True):
    """the station's sweep and the detector's sweep at the same instant, then the comparison"""
    return [go("sweep"), dict(det("S"), probe=True, oracle=oracle)]


def mk_msg(rng, v4=True, v6=True, transport=1, addr="cb007107"):
    return {"secret": rng.getrandbits(256).to_bytes(32, "big").hex(), "addr": addr, "v4": v4, "v6": v6,
            "transport": transport, "gen": rng.choice([1, 5]), "libver": rng.choice([3, 4])}


def gen_timed(ctx, subnets):
    """fake-clock histories; returns cases"""
    rng = ctx.rng
    quick = ctx.tier == "quick"
    out = []

    def case(cls, msgs, steps):
        out.append({"kind": "world", "mode": "fake", "cls": cls, "msgs": msgs, "steps": steps, "subnets": subnets,
                    "ops": [s["op"] for s in steps if s["t"] == "go"]})

    reps = 2 if quick else 12
    for rep in range(reps):
        fixed = rep == 0
        # --- an unused registration received again (client retry / a second registrar delivering it late)
        td = 8 * MIN if fixed else rng.randrange(1, UNUSED)
        via = ["recv", "track"] if fixed else rng.choice([["recv"], ["track"], ["recv", "track"], ["recv", "recv"], ["add"]])
        m = [mk_msg(rng, transport=1 if fixed else rng.choice([1, 2]), addr=rng.choice(["cb007107", None, "20010db8000000000000000000000009"]) if not fixed else "cb007107")]
        s = [go("recv", msg=0)] + probe() + [adv(td)] + [go(v, msg=0) for v in via] + probe()
        s += [adv(UNUSED - 1 - td)] + probe()                      # one nanosecond before the lifetime ends
        s += [adv(1)] + probe(oracle=False)                        # the boundary instant itself (excluded by the theorem)
        s += [adv(1)] + probe()                                    # one past: the station lets go
        s += [adv(2 * MIN - 1)] + probe()                          # 12 min: nobody holds it
        s += [adv(td)] + probe() + [adv(UNUSED)] + probe()         # within a lifetime restarted at the duplicate, and beyond
        case("duplicate-unused", m, s)
        # --- a used registration received again
        tu = MIN if fixed else rng.randrange(1, UNUSED)
        td = 5 * 3600 * NS if fixed else rng.randrange(tu + 1, ACTIVE)
        m = [mk_msg(rng, transport=1 if fixed else rng.choice([1, 2]))]
        s = [go("recv", msg=0), adv(tu), go("active", msg=0, fam=4), go("active", msg=0, fam=6)] + probe()
        s += [adv(td - tu)] + [go(v, msg=0) for v in (["recv"] if fixed else rng.choice([["recv"], ["track"], ["track", "recv"]]))] + probe()
        s += [adv(ACTIVE - 1 - td)] + probe() + [adv(1)] + probe(oracle=False) + [adv(1)] + probe()
        s += [adv(30 * MIN)] + probe()                             # 6 h 30: within a lifetime restarted at the duplicate
        s += [adv(td)] + probe() + [adv(ACTIVE)] + probe()
        case("duplicate-used", m, s)
    # --- no duplicate at all: New only, New + Update, a second message on the side
    m = [mk_msg(rng), mk_msg(rng, v4=False, transport=2)]
    s = [go("recv", msg=0), adv(3 * MIN), go("recv", msg=1)] + probe() + [adv(4 * MIN), go("active", msg=1, fam=6)] + probe()
    s += [adv(3 * MIN - 1)] + probe() + [adv(2)] + probe() + [adv(ACTIVE - 7 * MIN - 2)] + probe() + [adv(2)] + probe()
    case("no-duplicate", m, s)
    # --- expired, swept, registered again: a new life, announced again
    m = [mk_msg(rng)]
    s = [go("recv", msg=0), adv(11 * MIN)] + probe() + [go("recv", msg=0)] + probe() + [adv(UNUSED - 1)] + probe() + [adv(2)] + probe()
    case("reregistered-after-expiry", m, s)
    # --- tracked but never validated (TrackRegistration only), duplicates arriving, AddRegistration with another object
    m = [mk_msg(rng)]
    s = [go("track", msg=0), adv(3 * MIN), go("recv", msg=0), go("add", msg=0), go("active", msg=0, fam=6)] + probe()
    s += [adv(7 * MIN + 1)] + probe() + [go("add", msg=0)] + probe() + [adv(5 * MIN), go("recv", msg=0), adv(5 * MIN - 1)] + probe() + [adv(2)] + probe()
    case("tracked-unvalidated", m, s)
    # --- packets of the flow keep the detector's session alive, the detector sweeps on its own schedule
    m = [mk_msg(rng, v6=False)]
    s = [go("recv", msg=0), adv(4 * MIN), det("P", 0), det("S"), adv(4 * MIN), det("P", 0), go("recv", msg=0), adv(4 * MIN), det("S")] + probe() + [adv(2 * MIN), det("S")] + probe()
    case("packets", m, s)
    # --- random histories
    deltas = [1, NS, MIN, 3 * MIN, 5 * MIN, UNUSED - 1, UNUSED, UNUSED + 1, 30 * MIN, 3600 * NS, ACTIVE // 2, ACTIVE - 1, ACTIVE + 1]
    for _ in range(6 if quick else 80):
        nm = rng.randrange(1, 4)
        m = [mk_msg(rng, v4=rng.random() < 0.7, v6=True, transport=rng.choice([1, 2])) for _ in range(nm)]
        s = []
        for _ in range(rng.randrange(8, 30)):
            r = rng.random()
            i = rng.randrange(nm)
            if r < 0.3:
                s.append(go(rng.choice(["recv", "recv", "recv", "track", "add"]), msg=i))
            elif r < 0.45:
                s.append(go("active", msg=i, fam=rng.choice([4, 6])))
            elif r < 0.7:
                s.append(adv(rng.choice(deltas) if rng.random() < 0.8 else rng.randrange(1, ACTIVE)))
            elif r < 0.8:
                s.append(det(rng.choice("SSP"), rng.randrange(2 * nm)))
            else:
                s += probe(oracle=False)    # random instants may hit a boundary: compared with the model only
        s += probe(oracle=False)
        case("random", m, s)
    return out


def gen_faults(ctx, subnets):
    """real-clock histories (everything at one virtual instant): connection faults during PUBLISH, duplicates"""
    rng = ctx.rng
    quick = ctx.tier == "quick"
    out = []

    def case(cls, msgs, steps):
        out.append({"kind": "world", "mode": "real", "cls": cls, "msgs": msgs, "steps": steps, "subnets": subnets,
                    "ops": [s["op"] for s in steps if s["t"] == "go"]})

    modes = ["before", "after"]
    for k in range(0, PINNED_RETRIES + 2):
        for mode in modes:
            sc = [mode] * k
            if k >= 2 and mode == "after":
                sc = [rng.choice(modes) for _ in range(k)]
            fam = rng.choice([4, 6])
            one = dict(v4=fam == 4, v6=fam == 6)
            # New lost?  Update lost?  Clear lost?  each on its own registration / station.  Beyond the pinned budget the announcement
            # is lost by the pinned code too (redis-down territory: the open known finding); those are compared with the model only
            orc = k <= PINNED_RETRIES
            case("fault-new:k=%d" % k, [mk_msg(rng, **one)], [go("recv", msg=0, faults=sc, probe=True, oracle=orc), go("recv", msg=0, probe=True, oracle=orc)])
            case("fault-update:k=%d" % k, [mk_msg(rng, **one)],
                 [go("recv", msg=0, probe=True), go("active", msg=0, fam=fam, faults=sc, probe=True, oracle=orc), go("recv", msg=0, probe=True, oracle=orc)])
            case("fault-clear:k=%d" % k, [mk_msg(rng, **one), mk_msg(rng)],
                 [go("recv", msg=0, probe=True), go("recv", msg=1), go("active", msg=1, fam=6), go("cleanup", faults=sc, probe=True, oracle=orc)])
    # an error reply is not retried (the known finding's territory: compared with the model only)
    case("refused", [mk_msg(rng, v4=False)], [go("recv", msg=0, faults=["refuse"], probe=True, oracle=False), go("cleanup", faults=["before", "refuse"], probe=True, oracle=False)])
    for _ in range(3 if quick else 40):
        nm = rng.randrange(1, 3)
        m = [mk_msg(rng, v4=False, v6=True, transport=rng.choice([1, 2])) for _ in range(nm)]
        s = []
        for _ in range(rng.randrange(4, 12)):
            i = rng.randrange(nm)
            sc = [rng.choice(modes) for _ in range(rng.choice([0, 0, 1, 1, 2, 3]))]
            r = rng.random()
            if r < 0.5:
                s.append(go(rng.choice(["recv", "recv", "track", "add"]), msg=i, faults=sc, probe=True))
            elif r < 0.85:
                s.append(go("active", msg=i, fam=6, faults=sc, probe=True))
            else:
                s.append(det("S"))
        s.append(go("cleanup", faults=[rng.choice(modes) for _ in range(rng.randrange(0, 4))], probe=True))
        case("fault-random", m, s)
    return out


# ------------------------------------------------------------------ the fake-clock run (technique of driver/props/c08.py)
def go_run_fake(ctx, cases, real_timeout=600):
    tagid = "%s_world_fake_%d" % (ctx.pid, os.getpid())
    pkgdir = os.path.normpath(os.path.join(lib.REPO, "pkg/station/lib"))
    files = dict(ctx_driver_files())
    repl = {os.path.join(pkgdir, name): os.path.join(lib.INPKG, src) for name, src in files.items()}
    ov = os.path.join(lib.BUILD, "ov_%s.json" % tagid)
    cpath = os.path.join(lib.BUILD, "cases_%s.json" % tagid)
    opath = os.path.join(lib.BUILD, "out_%s.json" % tagid)
    with open(ov, "w") as f:
        json.dump({"Replace": repl}, f)
    with open(cpath, "w") as f:
        json.dump(cases, f)
    if os.path.exists(opath):
        os.remove(opath)
    e = dict(lib.GOENV)
    e.pop("GOFLAGS", None)
    e.update({"VERIF_CASES": cpath, "VERIF_OUT": opath, "VERIF_TIER": ctx.tier, "VERIF_SEED": str(ctx.seed), "GOMAXPROCS": "1"})
    cmd = ["go", "test", "-count=1", "-vet=off", "-overlay", ov, "-run", "^TestVerifC10World$",
           "-tags", "faketime", "-ldflags=-checklinkname=0", "-timeout", "0", "./pkg/station/lib"]
    rc, out = lib.sh(cmd, cwd=lib.REPO, env=e, timeout=real_timeout)
    res = None
    if os.path.exists(opath):
        try:
            with open(opath) as f:
                res = json.load(f)
        except Exception as ex:
            out += "\n[unreadable driver output: %s]" % ex
    for q in (ov, cpath, opath):
        if os.path.exists(q) and os.environ.get("VERIF_KEEP") != "1":
            os.remove(q)
    return rc, "".join(ch for ch in out if ch.isprintable() or ch in "\n\t"), res


_FILES = {}


def ctx_driver_files():
    return _FILES


def set_driver_files(files):
    _FILES.clear()
    _FILES.update(files)


# ------------------------------------------------------------------ evaluation
def g_faults(sc):
    return glist(sc or [], lambda f: FAULT[f])


def evaluate(ctx, E, binary, c, w, retries, classify_new):
    """c: generated case, w: the Go driver's world result.  E: module props.c10 (emitters, run_script, msg_line, ip_value).
    classify_new(msgs) -> dets (the real Rust conversion of each message).
    Returns the Gallina terms of the case; reports oracle failures on ctx."""
    terms = []
    cls = c["cls"]
    keys = w["keys"]
    nk = len(keys)
    steps = c["steps"]
    gsteps = w["steps"]
    if len(gsteps) != sum(1 for s in steps if s["t"] == "go"):
        ctx.broken("driver", "world case %s: the driver ran %d of the steps" % (cls, len(gsteps)))
        return terms
    slim = {k: v for k, v in c.items() if k != "subnets"}
    # every copy published anywhere in the history, classified by the real Rust conversion
    allm = [m for gs in gsteps for m in (gs["msgs"] or [])]
    if any(not m["decoded"] for m in allm):
        ctx.broken("correspondence", "a published payload is not a StationToDetector message", slim)
        return terms
    dets = classify_new(allm) if allm else []
    if dets is None:
        ctx.broken("correspondence", "the Rust harness failed on the messages of a world history")
        return terms
    det_by_line = {E.msg_line(m): d for m, d in zip(allm, dets)}
    # which registration a message belongs to (by the phantom the detector read), the detector's key of each registration
    tag_of = [None] * nk
    line_of = [None] * nk
    for m, d in zip(allm, dets):
        cv = d["conv"]
        if m["op"] in (1, 2) and cv["ok"]:
            for j, k in enumerate(keys):
                if E.ip_value(k["reg"]["phantom"]) == (cv["phantom"][0], int(cv["phantom"][1])) and cv["dst"] == k["reg"]["port"]:
                    if tag_of[j] is None:
                        tag_of[j], line_of[j] = cv["tag"], m
    # the detector's side: one real SessionTracker
    lines = ["R"]
    marks = []          # index into lines of the last command of every step
    vt = 0
    gi = 0
    sem = []            # per step: the model event
    used = [False] * nk
    per_msg = {}
    for j, k in enumerate(keys):
        per_msg.setdefault(k["msg"], []).append(j)

    def rk(j):
        k = keys[j]
        return "(S.Build_regkey %s %s %s)" % (gN(k["msg"]), TR[c["msgs"][k["msg"]]["transport"]], gN(2 * k["msg"] + (1 if k["v6"] else 0)))
    vts = []
    for s in steps:
        lines.append("T %d" % (BASE + vt))
        if s["t"] == "go":
            op, gs = s["op"], gsteps[gi]
            gi += 1
            for m in gs["msgs"] or []:
                lines.append("M " + E.msg_line(m))
            o = op["op"]
            sc = g_faults(op.get("faults"))
            js = per_msg.get(op.get("msg"), [])
            if o == "recv":
                sem.append("(MRecv %s %s)" % (glist(js, rk), sc))
            elif o == "track":
                sem.append("(MSt %s %s)" % (glist(js, lambda j: "(S.Track %s)" % rk(j)), sc))
            elif o == "add":
                sem.append("(MSt %s %s)" % (glist(js, lambda j: "(S.ValidateStale %s)" % rk(j)), sc))
            elif o == "active":
                jj = [j for j in js if keys[j]["v6"] == (op["fam"] == 6)]
                sem.append("(MSt %s %s)" % (glist(jj, lambda j: "(S.MarkActive %s)" % rk(j)), sc))
            elif o == "adv":
                vt += int(op["ns"])
                sem.append("(MSt [S.Advance %s] [])" % gN(int(op["ns"])))
            elif o == "sweep":
                sem.append("(MSt [S.Sweep] [])")
            elif o == "cleanup":
                sem.append("(MCleanup %s)" % sc)
            else:
                sem.append("(MSt [] [])")
        else:
            j = s.get("key")
            if s["cmd"] == "P" and j is not None and j < nk and line_of[j] is not None:
                lines.append("P " + E.msg_line(line_of[j]))
                sem.append("(MDet (EPacket %s))" % E.g_msg(line_of[j], det_by_line[E.msg_line(line_of[j])]))
            elif s["cmd"] == "S":
                lines.append("S")
                sem.append("(MDet ESweep)")
            else:
                sem.append("(MSt [] [])")
        marks.append(len(lines) - 1)
        vts.append(vt)
    outs, err = E.run_script(binary, "--history", lines)
    if outs is None or len(outs) != len(lines):
        ctx.broken("correspondence", "the Rust harness failed on a world history: %s" % err)
        return terms
    # observations after every step
    obs = []
    gi = 0
    served = [k["served"] for k in keys]
    hist_view = []
    for si, s in enumerate(steps):
        if s["t"] == "go":
            served = [k["served"] for k in gsteps[gi]["keys"]]
            if s["op"]["op"] == "active":
                for j in per_msg.get(s["op"].get("msg"), []):
                    if keys[j]["v6"] == (s["op"]["fam"] == 6) and served[j]:
                        used[j] = True
            gi += 1
        tab = {k_: int(e) for k_, e in outs[marks[si]]["map"]}
        exp = [tab.get(tag_of[j]) if tag_of[j] is not None else None for j in range(nk)]
        obs.append("(%s, %s)" % (glist(list(zip(served, exp)), lambda p: "(%s, %s)" % (gbool(p[0]), gopt(p[1], gN))), gN(len(tab))))
        hist_view.append({"step": s["op"] if s["t"] == "go" else {"detector": s["cmd"], "key": s.get("key")}, "served": list(served), "detector_expiry": exp})
        if not (s.get("probe") and s.get("oracle", True)):
            continue
        now = BASE + vts[si]   # real mode: every step happens at one virtual instant; fake mode: exact
        is_cleanup = s["t"] == "go" and s["op"]["op"] == "cleanup"
        if is_cleanup:
            nf = len(s["op"].get("faults") or [])
            if tab and nf <= PINNED_RETRIES:
                ctx.fail("world:clear-lost:%s" % cls,
                         "the station shut down (Cleanup()) while %d connection(s) broke during the PUBLISH; the Clear never reached the detector, "
                         "which keeps %d session(s) a restarted station knows nothing about (the pinned client re-sends on a fresh connection)"
                         % (nf, len(tab)), {"case": slim, "history": hist_view})
                return terms
            continue
        for j in range(nk):
            if not served[j]:
                continue
            what = None
            if exp[j] is None or exp[j] <= now:
                what = "the detector does not forward its session (table entry: %s)" % exp[j]
            elif c["mode"] == "real":
                need = BASE + (ACTIVE if used[j] else UNUSED)
                if exp[j] < need:
                    what = "the detector holds its session only until %+d ns, the station's lifetime for its state (%s) ends at %+d ns" % (
                        exp[j] - BASE, "used" if used[j] else "unused", need - BASE)
            if what:
                ctx.fail("world:accepted-not-forwarded:%s" % cls,
                         "history class %s, %d ns into it: the station accepts the registration of message %d (%s phantom; GetRegistrations "
                         "returns it right after the station's own sweep) but %s" % (cls, now - BASE, keys[j]["msg"], "IPv6" if keys[j]["v6"] else "IPv4", what),
                         {"case": slim, "key": keys[j], "history": hist_view})
                return terms
    kterms = glist(list(range(nk)), lambda j: "(%s, %s)" % (rk(j), E.g_reg(keys[j]["reg"])))
    terms.append("(CWorld %s %s %s %s)" % (kterms, gN(retries), glist(["(MSt [S.Advance %s] [])" % gN(BASE)] + sem),
                                           glist(["(%s, 0)" % glist([(False, None)] * nk, lambda p: "(false, None)")] + obs)))
    # single publications under a fault script: attempts seen and copies delivered
    gi = 0
    for s in steps:
        if s["t"] != "go":
            continue
        gs = gsteps[gi]
        gi += 1
        sc = s["op"].get("faults") or []
        single = s["op"]["op"] in ("active", "cleanup") or (s["op"]["op"] in ("recv", "add") and len(per_msg.get(s["op"].get("msg"), [])) == 1)
        if single and gs["seen"] > 0:
            terms.append("(CPublish %s %s %s %s)" % (gN(retries), g_faults(sc), gN(gs["seen"]), gN(len(gs["msgs"] or []))))
            k = len(sc)
            lost = not (gs["msgs"] or [])
            ctx.count(("publish", s["op"]["op"], tuple(sc)), kind="publish/%s/%s" % ("faults" if sc else "clean", "lost" if lost else "delivered"))
            if lost and "refuse" not in sc and k <= PINNED_RETRIES and s.get("oracle", True):
                ctx.fail("publish:lost-to-transient-fault:%s:k=%d" % ({"recv": "New", "add": "New", "active": "Update", "cleanup": "Clear"}[s["op"]["op"]], k),
                         "%d connection(s) broke while the announcement was in flight (redis reachable again at once): the client built by the station's own "
                         "constructor made %d attempt(s) and gave up, sendToDetector/clearDetector ignored the error, the announcement never reached the detector "
                         "(the pinned client makes %d attempts)" % (k, gs["seen"], PINNED_RETRIES + 1), {"case": slim, "op": s["op"], "client_max_retries": retries})
    ctx.count(("world", cls, json.dumps(slim, sort_keys=True)[:6000]), kind="world/" + re.sub(r":k=\d+", "", cls))
    return terms
