"""C19, enforcement lane: every kind of list entry of an accepted configuration against every kind of covert
host text (names, IPv4 / IPv6 literals, zoned and IPv4-mapped literals), at start-up and across reloads.

Real code: ParseConfig on generated TOML, NewRegistrationManager / OnReload, then ParseOrResolveBlocklisted and
IsBlocklistedPhantom of the manager (harness/inpkg/c19/enforce_driver_test.go; names resolve through a scripted
DNS stub).  Oracle (this file, independent of the Coq model and of Go's regexp / net packages): a usable covert is
admitted iff NO entry of the configuration in force forbids it; patterns are evaluated with Python's `re` on the
subset of syntax the generator emits, subnets with `ipaddress`.  Model: coq/C19/ModelEnforce.v through
C19/RunEnforce.v (chk_enf)."""
import ipaddress
import re as pyre

import lib
from lib import gN, gbool, glist

HEADER = "From CJ Require Import Common.Base C19.ModelEnforce C19.RunEnforce.\n"
BAD_CIDR = ["fc00::/7 ", "198.18.0.0/33", "not-a-subnet", "", "198.18.1.0", " 10.0.0.0/8", "2001:db8::/129", "198.18.3.1/24/1"]
BAD_PATTERN = ["(", "[a-", "*abc", "a{2,1}", "(?P<x", "abc\\"]
NSUBJ = 3


def hx(s):
    return (s if isinstance(s, bytes) else s.encode("latin-1")).hex()


def gb(s):
    return '(unhex "%s")' % hx(s)


# ------------------------------------------------------------------ patterns: AST, three renderings
def esc(ch):
    return ch if ch.isalnum() else "\\" + ch


def ast_txt(a):
    k = a[0]
    if k == "lit":
        return "".join(esc(c) for c in a[1])
    if k == "any":
        return "."
    if k == "cls":
        return "[" + ("^" if a[1] else "") + "".join(esc(chr(lo)) if lo == hi else esc(chr(lo)) + "-" + esc(chr(hi)) for lo, hi in a[2]) + "]"
    if k == "cat":
        return ast_txt(a[1]) + ast_txt(a[2])
    if k == "alt":
        return "(?:" + ast_txt(a[1]) + "|" + ast_txt(a[2]) + ")"
    return "(?:" + ast_txt(a[1]) + ")" + {"star": "*", "plus": "+", "opt": "?"}[k]


def ast_coq(a):
    k = a[0]
    if k == "lit":
        return "(re_lit %s)" % gb(a[1])
    if k == "any":
        return "RAny"
    if k == "cls":
        return "(RCls %s %s)" % (gbool(a[1]), glist(a[2], lambda r: "(%s, %s)" % (gN(r[0]), gN(r[1]))))
    if k in ("cat", "alt"):
        return "(%s %s %s)" % ("RCat" if k == "cat" else "RAlt", ast_coq(a[1]), ast_coq(a[2]))
    return "(%s %s)" % ({"star": "RStar", "plus": "re_plus", "opt": "re_opt"}[k], ast_coq(a[1]))


def pat_go(p):
    return ("^" if p[0] else "") + ast_txt(p[1]) + ("$" if p[2] else "")


def pat_py(p):      # Go's `$` (no (?m)) is the end of the text: Python's \Z
    return ("^" if p[0] else "") + ast_txt(p[1]) + ("\\Z" if p[2] else "")


def pat_coq(p):
    return "(mkPat %s %s %s)" % (gbool(p[0]), ast_coq(p[1]), gbool(p[2]))


def cat(*xs):
    xs = [x for x in xs if not (x[0] == "lit" and x[1] == "")]
    out = xs[-1]
    for x in reversed(xs[:-1]):
        out = ("cat", x, out)
    return out


DIGITS = ("cls", False, [(48, 57)])
HEXLOW = ("cls", False, [(48, 57), (97, 102)])
LITERALCHARS = ("cls", False, [(48, 57), (97, 102), (65, 70), (58, 58), (46, 46), (37, 37)])     # [0-9a-fA-F:.%]
NOTDOT = ("cls", True, [(46, 46)])


def patterns_for(text, rng, other="zz.invalid"):
    """patterns that match the host text `text` (each shape of the emitted syntax); every one is checked with `re`"""
    n = len(text)
    k = max(1, n // 2)
    out = [
        ("exact", (True, ("lit", text), True)),
        ("prefix", (True, ("lit", text[:k]), False)),
        ("suffix", (False, ("lit", text[-k:]), True)),
        ("infix", (False, ("lit", text[1:max(2, n - 1)]), False)),
        ("alt", (True, ("alt", ("lit", other), ("lit", text)), True)),
        ("any", (True, cat(("lit", text[:k]), ("any",), ("lit", text[k + 1:])), True)),
        ("opt", (True, cat(("lit", text[:k]), ("opt", ("lit", "q")), ("lit", text[k:])), True)),
        ("star", (True, cat(("lit", text[:1]), ("star", ("any",))), False)),
    ]
    m = pyre.search(r"[0-9]+$", text)
    if m and m.start() > 0:
        out.append(("digits", (True, cat(("lit", text[:m.start()]), ("plus", DIGITS)), True)))
    m = pyre.search(r"[0-9a-f]+", text)
    if m:
        out.append(("hexrun", (True, cat(("lit", text[:m.start()]), ("plus", HEXLOW), ("lit", text[m.end():])), True)))
    if all(c in "0123456789abcdefABCDEF:.%" for c in text):
        out.append(("all-literals", (True, ("plus", LITERALCHARS), True)))
    if "." in text:
        i = text.index(".")
        if i > 0:
            out.append(("notdot", (True, cat(("plus", NOTDOT), ("lit", text[i:])), True)))
    good = [(name, p) for name, p in out if pyre.search(pat_py(p), text)]
    assert len(good) == len(out), (text, [n_ for n_, p in out if not pyre.search(pat_py(p), text)])
    return good


ALPHABET = "d0s1.example:%f8-DB2c69"


def random_ast(rng, depth=3, star_ok=True):
    """a random expression of the modelled syntax over the alphabet of the host texts (no star directly under a star)"""
    r = rng.random()
    if depth == 0 or r < 0.3:
        return ("lit", "".join(rng.choice(ALPHABET) for _ in range(rng.randrange(1, 4))))
    if r < 0.38:
        return ("any",)
    if r < 0.5:
        rs = []
        for _ in range(rng.randrange(1, 4)):
            lo = ord(rng.choice("0a:.%Ad"))
            rs.append((lo, lo + rng.choice([0, 0, 5, 9])))
        return ("cls", rng.random() < 0.3, rs)
    if r < 0.7:
        return ("cat", random_ast(rng, depth - 1, star_ok), random_ast(rng, depth - 1, star_ok))
    if r < 0.85:
        return ("alt", random_ast(rng, depth - 1, star_ok), random_ast(rng, depth - 1, star_ok))
    if not star_ok:
        return ("lit", rng.choice(ALPHABET))
    return (rng.choice(["star", "plus", "opt"]), random_ast(rng, depth - 1, False))


def random_pattern(rng):
    return (rng.random() < 0.4, random_ast(rng), rng.random() < 0.4)


# ------------------------------------------------------------------ subnets
def net_parsed(cidr):
    """what net.ParseCIDR yields (IPNet.IP, IPNet.Mask) -- the generator's belief, validated by the decisions"""
    n = ipaddress.ip_network(cidr, strict=False)
    return n.network_address.packed, n.netmask.packed


def norm_addr(b):
    a = ipaddress.ip_address(bytes(b))
    if a.version == 6 and a.ipv4_mapped is not None:
        return a.ipv4_mapped
    return a


def net_covers(cidr, addr_bytes):
    """does the written subnet cover the address (IPv4-mapped spellings denote the IPv4 address / subnet)"""
    n = ipaddress.ip_network(cidr, strict=False)
    if n.version == 6 and n.prefixlen >= 96 and n.network_address.ipv4_mapped is not None:
        n = ipaddress.ip_network((int(n.network_address) & 0xffffffff, n.prefixlen - 96))
    a = norm_addr(addr_bytes)
    return a.version == n.version and a in n


# ------------------------------------------------------------------ covert hosts
def a4(i):
    return "198.18.%d.1" % i


def a6(i):
    return "2001:db8:%x::1" % (i + 1)


def subject_hosts(i):
    """every kind of host text for subject i: (hostkind, spelling, host text, address bytes, zone, dns script)"""
    v4 = ipaddress.ip_address(a4(i)).packed
    v6 = ipaddress.ip_address(a6(i)).packed
    zl = ipaddress.ip_address("fe80::%x" % (i + 1)).packed
    mapped = bytes(10) + b"\xff\xff" + v4
    return [
        ("name", "a", "d%d.example" % i, v4, False, {"d%d.example" % i: {"a": [a4(i)], "aaaa": []}}),
        ("name", "aaaa", "s%d.example" % i, v6, False, {"s%d.example" % i: {"a": [], "aaaa": [a6(i)]}}),
        ("v4-literal", "dotted", a4(i), v4, False, {}),
        ("v6-literal", "short", a6(i), v6, False, {}),
        ("v6-literal", "upper", a6(i).upper(), v6, False, {}),
        ("v6-literal", "long", "2001:db8:%x:0:0:0:0:1" % (i + 1), v6, False, {}),
        ("v6-zoned", "zone", "fe80::%x%%eth0" % (i + 1), zl, True, {}),
        ("v4-mapped", "dotted", "::ffff:" + a4(i), mapped, False, {}),
        ("v4-mapped", "hex", "::ffff:c612:%x01" % i if i else "::ffff:c612:1", mapped, False, {}),
    ]


def loopback_hosts():
    lo4 = ipaddress.ip_address("127.0.0.1").packed
    return [
        ("name", "a", "lo4.example", lo4, False, {"lo4.example": {"a": ["127.0.0.1"], "aaaa": []}}),
        ("name", "aaaa", "lo6.example", ipaddress.ip_address("::1").packed, False, {"lo6.example": {"a": [], "aaaa": ["::1"]}}),
        ("v4-literal", "dotted", "127.0.0.1", lo4, False, {}),
        ("v4-literal", "inside", "127.9.9.9", ipaddress.ip_address("127.9.9.9").packed, False, {}),
        ("v6-literal", "short", "::1", ipaddress.ip_address("::1").packed, False, {}),
        ("v6-literal", "long", "0:0:0:0:0:0:0:1", ipaddress.ip_address("::1").packed, False, {}),
        ("v4-mapped", "dotted", "::ffff:127.0.0.1", bytes(10) + b"\xff\xff" + lo4, False, {}),
    ]


def hosts_of(subj):
    return loopback_hosts() if subj == "lo" else subject_hosts(subj)


def covert_of(host, port="443"):
    return ("[%s]:%s" % (host, port)) if ":" in host else "%s:%s" % (host, port)


UNUSABLE = [          # refused whatever the configuration says (no entry involved): (class, covert string, script)
    ("nxdomain", "nx.example:443", {}),
    ("empty-host", ":443", {}),
    ("no-port", "d0.example", {}),
    ("bare-v4", "198.18.0.1", {}),
    ("bare-v6", "2001:db8:1::1", {}),
    ("unbracketed-v6", "2001:db8:1::1:443", {}),
    ("port-range", "198.18.0.1:70000", {}),
    ("port-text", "198.18.0.1:http", {}),
    ("zoned-mapped", "[::ffff:198.18.0.1%eth0]:443", {}),
    ("bracket-junk", "[198.18.0.1]x:443", {}),
    ("leading-zero", "198.018.0.1:443", {}),
]


def subnets_covering(kind, i, rng):
    """CIDR texts that contain subject i's address of the given host kind"""
    if kind in ("v4-literal", "v4-mapped") or kind == ("name", "a"):
        return ["198.18.%d.0/24" % i, "198.18.%d.1/32" % i, "198.18.0.0/16", "::ffff:198.18.%d.0/120" % i]
    if kind == "v6-zoned":
        return ["fe80::/10", "fe80::%x/128" % (i + 1)]
    return ["2001:db8:%x::/48" % (i + 1), "2001:db8:%x::1/128" % (i + 1), "2001:db8::/32"]


def addr_family_kind(hk, spelling):
    return ("name", spelling) if hk == "name" and spelling == "a" else hk


OTHER_NETS = ["203.0.113.0/24", "2001:db8:ffff::/48", "10.0.0.0/8", "::ffff:203.0.113.0/120"]


def phantom_addrs(i):
    v4 = ipaddress.ip_address("198.19.%d.7" % i).packed
    return [("v4", v4), ("mapped", bytes(10) + b"\xff\xff" + v4), ("v6", ipaddress.ip_address("2001:db8:ff%x::7" % i).packed)]


def phantom_nets(i):
    return ["198.19.%d.0/24" % i, "198.19.%d.7/32" % i, "2001:db8:ff%x::/48" % i, "::ffff:198.19.%d.0/120" % i]


# ------------------------------------------------------------------ configurations
def cfg(block=None, allow=None, phantom=None, domains=None, why="", keys=None, public=None):
    """lists: None = key absent; entries of block/allow/phantom: CIDR text or ("bad", text);
    domains: ("pat", (bol, ast, eol)) or ("bad", text); public: covert_blocklist_public_addrs (None = absent)"""
    return {"kind": "lists", "block": block, "allow": allow, "phantom": phantom, "domains": domains, "why": why, "keys": keys or {}, "public": public}


def cfg_loads(c):
    if c["kind"] != "lists":
        return False
    for l in ("block", "allow", "phantom", "domains"):
        if any(isinstance(e, tuple) and e[0] == "bad" for e in (c[l] or [])):
            return False
    return True


def toml_str(s, rng):
    """a TOML string: literal ('...') when possible, else (and at random) basic with escapes"""
    if "'" not in s and "\n" not in s and rng.random() < 0.5:
        return "'%s'" % s
    return '"%s"' % s.replace("\\", "\\\\").replace('"', '\\"')


def cfg_toml(c, rng):
    if c["kind"] == "syntax":
        return {"kind": "text", "text": rng.choice(["covert_blocklist_subnets = [\n", "enable_v4 = = true\n", "covert_blocklist_domains = ['a' 'b']\n"])}
    if c["kind"] == "unreadable":
        return {"kind": "unreadable"}
    if c["kind"] == "typeerr":
        return {"kind": "text", "text": rng.choice(['covert_blocklist_subnets = "198.18.0.0/24"\n', "covert_blocklist_domains = [1, 2]\n", 'ingest_worker_count = "many"\n'])}
    out = []
    for l, key in (("block", "covert_blocklist_subnets"), ("allow", "covert_allowlist_subnets"), ("phantom", "phantom_blocklist"), ("domains", "covert_blocklist_domains")):
        if c[l] is None:
            continue
        items = []
        for e in c[l]:
            if isinstance(e, tuple) and e[0] == "bad":
                items.append(toml_str(e[1], rng))
            elif isinstance(e, tuple):
                items.append(toml_str(pat_go(e[1]), rng))
            else:
                items.append(toml_str(e, rng))
        out.append("%s = [%s]" % (key, ", ".join(items)))
    for k, v in c["keys"].items():
        out.append("%s = %s" % (k, v))
    if c.get("public") is not None:
        out.append("covert_blocklist_public_addrs = %s" % ("true" if c["public"] else "false"))
    rng.shuffle(out)
    return {"kind": "text", "text": "\n".join(out) + "\n"}


def cfg_coq(c):
    if c["kind"] != "lists":
        return "EFail"

    def nets(l):
        return glist(l or [], lambda e: "NBad" if isinstance(e, tuple) else "(NOk (%s, %s))" % tuple(gb(x) for x in net_parsed(e)))

    def pats(l):
        return glist(l or [], lambda e: "PBad" if e[0] == "bad" else "(POk %s)" % pat_coq(e[1]))
    return "(ELists (mkLists %s %s %s %s %s))" % (nets(c["block"]), nets(c["allow"]), nets(c["phantom"]), pats(c["domains"]), gbool(bool(c.get("public"))))


SCALARS = {"enable_v4": "false", "enable_v6": "false", "ingest_worker_count": "0", "enable_share_over_api": "false", "preshare_endpoint": '""'}   # Go zero values


def random_keys(rng):
    ks = {}
    if rng.random() < 0.3:
        ks["ingest_worker_count"] = str(rng.choice([0, 1, 20, 100]))
    if rng.random() < 0.2:
        ks["log_level"] = '"error"'
    for k in ("enable_v4", "enable_v6", "enable_share_over_api"):
        if rng.random() < 0.25:
            ks[k] = rng.choice(["true", "false"])
    if rng.random() < 0.15:
        ks["preshare_endpoint"] = '"http://203.0.113.%d:8080/share"' % rng.randrange(1, 250)
    return ks


def golist(l):
    """fmt.Sprintf("%q", []string) of a written list (patterns are rendered by pat_go)"""
    def q(s):
        return '"' + s.replace("\\", "\\\\").replace('"', '\\"') + '"'
    return "[" + " ".join(q(e if not isinstance(e, tuple) else (e[1] if e[0] == "bad" else pat_go(e[1]))) for e in (l or [])) + "]"


def written_keys(c):
    """the settings a configuration file writes, as the driver renders the manager's fields"""
    w = dict(SCALARS)
    for k, v in c["keys"].items():
        if k in w:
            w[k] = v
    w["covert_blocklist_public_addrs"] = "true" if c.get("public") else "false"
    for l, key in (("block", "covert_blocklist_subnets"), ("allow", "covert_allowlist_subnets"), ("phantom", "phantom_blocklist"), ("domains", "covert_blocklist_domains")):
        w[key] = golist(c[l])
    return w


RELOADED_KEYS = ("covert_blocklist_public_addrs", "covert_blocklist_subnets", "covert_allowlist_subnets", "covert_blocklist_domains", "phantom_blocklist")


# ------------------------------------------------------------------ oracle: does an entry forbid it?
def iface_covers(ipb, maskb, addr):
    """an interface subnet as net.Interfaces reports it (address, mask) against an address"""
    if len(ipb) == 16 and ipb[:12] == bytes(10) + b"\xff\xff":
        ipb, maskb = ipb[12:], (maskb[12:] if len(maskb) == 16 else maskb)
    a = norm_addr(addr)
    if len(ipb) != len(a.packed) or len(maskb) != len(ipb):
        return False
    m = int.from_bytes(maskb, "big")
    return (int.from_bytes(ipb, "big") & m) == (int(a) & m)


def forbidding(c, host_text, addr, ifaces=()):
    """the entries of configuration c that forbid a covert with this host text / address:
    list of (entry kind, entry text); ifaces: the machine's interface subnets (implicit blocklist entries
    when covert_blocklist_public_addrs is on)"""
    out = []
    for e in (c["domains"] or []):
        if pyre.search(pat_py(e[1]), host_text):
            out.append(("pattern", pat_go(e[1])))
    allow = c["allow"] or []
    if allow:
        if not any(net_covers(n, addr) for n in allow):
            out.append(("allowlist", "not in %s" % allow))
    else:
        for n in (c["block"] or []):
            if net_covers(n, addr):
                out.append(("blocklist-subnet", n))
        if c.get("public"):
            for ipb, maskb in ifaces:
                if iface_covers(ipb, maskb, addr):
                    out.append(("public-addrs", "interface %s/%d" % (norm_addr(ipb), bin(int.from_bytes(maskb[-len(norm_addr(ipb).packed):], "big")).count("1"))))
    return out


# ------------------------------------------------------------------ generator
def structured_cases(rng, quick):
    """entry kind x host kind: for each subject host (every kind and spelling) one configuration per entry kind
    in which THAT entry is the only one that forbids the host, plus the controls that admit it"""
    cases = []
    for i in range(NSUBJ):
        hosts = subject_hosts(i)
        for hk, sp, text, addr, zone, script in hosts:
            fam = addr_family_kind(hk, sp)
            cover = subnets_covering(fam, i, rng)
            pats = patterns_for(text, rng, other="d9.example")
            if quick:           # the shapes rotate over subjects and spellings; exact + prefix are always there
                extra = pats[2:]
                rng.shuffle(extra)
                pats = pats[:2] + extra[:3 if i == 0 else 1]
            other_block = [n for n in OTHER_NETS if not net_covers(n, addr)]
            confs = []
            for shape, p in pats:
                confs.append(("pattern-only", cfg(domains=[("pat", p)], why="pattern/%s" % shape)))
                confs.append(("pattern-under-allowlist", cfg(allow=[rng.choice(cover)], domains=[("pat", p)], block=rng.choice([None, [], [cover[0]]]),
                                                             why="pattern/%s inside allowlist" % shape)))
            confs.append(("pattern-beside-subnets", cfg(block=other_block[:2], phantom=phantom_nets(i)[:1], domains=[("pat", pats[0][1])], why="pattern + unrelated subnets")))
            confs.append(("pattern-not-first", cfg(domains=[("pat", (True, ("lit", "zz.invalid"), True)), ("pat", pats[1][1])], why="second pattern of the list")))
            for n in (cover if (i == 0 or not quick) else cover[:2]):
                confs.append(("blocklist-subnet", cfg(block=[other_block[0], n], why="block %s" % n)))
            confs.append(("allowlist-elsewhere", cfg(allow=other_block[:1], why="allowlist without the host")))
            confs.append(("allowlist-covering", cfg(allow=[rng.choice(cover)], block=[cover[0]], why="allowlisted (overrides the blocklist)")))
            confs.append(("no-entry", cfg(block=other_block[:1], domains=[("pat", (True, ("lit", "zz.invalid"), True))], why="nothing applies")))
            for ek, c in confs:
                c["keys"] = random_keys(rng)
                cases.append({"steps": [c], "focus": (i, hk, sp), "ek": ek, "tag": "enforce/structured"})
    # long lists: the one entry that applies is the LAST (or a middle one) of 40 -- every entry counts, wherever it stands
    filler_pats = [("pat", (True, ("lit", "zz%d.invalid" % n), True)) for n in range(39)]
    filler_nets = ["10.%d.0.0/16" % n for n in range(20)] + ["2001:db8:aa%02x::/48" % n for n in range(19)]
    for i in range(NSUBJ):
        for hk, sp, text, addr, zone, script in subject_hosts(i)[i::NSUBJ] if quick else subject_hosts(i):
            cover = subnets_covering(addr_family_kind(hk, sp), i, rng)
            pos = rng.randrange(1, 39)
            confs = [("long-pattern-list", cfg(domains=filler_pats + [("pat", patterns_for(text, rng)[0][1])], why="40 patterns, the last one applies")),
                     ("long-pattern-list", cfg(domains=filler_pats[:pos] + [("pat", patterns_for(text, rng)[1][1])] + filler_pats[pos:], why="40 patterns, number %d applies" % pos)),
                     ("long-blocklist", cfg(block=filler_nets + [cover[0]], why="40 subnets, the last one applies")),
                     ("long-blocklist", cfg(block=filler_nets[:pos] + [cover[-1]] + filler_nets[pos:], why="40 subnets, number %d applies" % pos)),
                     ("long-allowlist", cfg(allow=filler_nets + [cover[0]], why="40 allowlist subnets, the last one covers the host")),
                     ("long-phantom-list", cfg(phantom=filler_nets + [phantom_nets(i)[rng.randrange(4)]], why="40 phantom subnets, the last one applies"))]
            for ek, c in confs:
                cases.append({"steps": [c], "focus": (i, hk, sp), "ek": ek, "tag": "enforce/structured"})
    # covert_blocklist_public_addrs: the interface subnets as implicit blocklist entries, against every spelling of a loopback address
    for hk, sp, text, addr, zone, script in loopback_hosts():
        own = "127.0.0.0/8" if norm_addr(addr).version == 4 else "::1/128"
        confs = [("public-addrs", cfg(public=True, why="interface subnets")),
                 ("public-addrs", cfg(public=True, block=["203.0.113.0/24"], phantom=[], why="interface subnets behind a written blocklist")),
                 ("public-addrs-allowlisted", cfg(public=True, allow=[own], why="the allowlist switches the blocklist off")),
                 ("public-addrs-off", cfg(public=False, block=["203.0.113.0/24"], why="flag off")),
                 ("public-addrs-off", cfg(block=[], why="flag absent")),
                 ("pattern-only", cfg(public=False, domains=[("pat", patterns_for(text, rng)[0][1])], why="pattern on a loopback spelling"))]
        for ek, c in confs:
            cases.append({"steps": [c], "focus": ("lo", hk, sp), "ek": ek, "tag": "enforce/structured"})
    return cases


def random_cfg(rng, subj):
    pool_nets = OTHER_NETS + [n for i in range(NSUBJ) for fam in ("v4-literal", "v6-literal", "v6-zoned") for n in subnets_covering(fam, i, rng)]
    texts = [h[2] for i in range(NSUBJ) for h in subject_hosts(i)]

    def nets(p_none=0.35):
        r = rng.random()
        if r < p_none:
            return None
        if r < p_none + 0.1:
            return []
        return [rng.choice(pool_nets) for _ in range(rng.randrange(1, 4))]
    doms = None
    if rng.random() < 0.7:
        doms = []
        for _ in range(rng.randrange(0, 4)):
            doms.append(("pat", random_pattern(rng) if rng.random() < 0.5 else rng.choice(patterns_for(rng.choice(texts), rng))[1]))
    ph = rng.choice([None, [], [rng.choice(phantom_nets(rng.randrange(NSUBJ))) for _ in range(rng.randrange(1, 3))]])
    return cfg(block=nets(), allow=nets(0.6), phantom=ph, domains=doms, why="random", keys=random_keys(rng), public=rng.choice([None, None, False, True]))


def spoil(c, rng):
    """the same lists with one entry that does not parse (any list, any position)"""
    c = dict(c)
    l = rng.choice(["block", "allow", "phantom", "domains"])
    es = list(c[l] or [])
    es.insert(rng.randrange(len(es) + 1), ("bad", rng.choice(BAD_PATTERN if l == "domains" else BAD_CIDR)))
    c[l] = es
    c["why"] = "unparsable entry in %s" % l
    return c


def reload_cases(rng, quick, structured):
    """start-up, then reloads: to another accepted configuration, to one with an unparsable entry, to a file that
    does not decode -- the enforcement of the configuration in force is observed after every step"""
    cases = []
    pool = [c["steps"][0] for c in structured]
    for _ in range(40 if quick else 600):
        i = rng.randrange(NSUBJ)
        first = rng.choice([rng.choice(pool), random_cfg(rng, i)])
        steps = [first]
        for _ in range(rng.randrange(1, 4)):
            r = rng.random()
            if r < 0.35:
                steps.append(rng.choice([rng.choice(pool), random_cfg(rng, i)]))
            elif r < 0.7:
                steps.append(spoil(rng.choice([rng.choice(pool), random_cfg(rng, i)]), rng))
            else:
                steps.append({"kind": rng.choice(["syntax", "unreadable", "typeerr"]), "why": "does not decode"})
        cases.append({"steps": steps, "focus": (i, None, None), "ek": "reload", "tag": "enforce/reload"})
    for _ in range(10 if quick else 100):        # start-up with an unparsable entry: never accepted
        cases.append({"steps": [spoil(rng.choice(pool), rng)], "focus": (0, None, None), "ek": "bad-start", "tag": "enforce/bad-start"})
    for _ in range(25 if quick else 400):
        i = rng.randrange(NSUBJ)
        cases.append({"steps": [random_cfg(rng, i)], "focus": (i, None, None), "ek": "random", "tag": "enforce/random"})
    return cases


def queries_for(case, rng):
    """all host kinds of the focus subject and of one other subject, plus the unusable strings"""
    i = case["focus"][0]
    j = rng.randrange(NSUBJ) if i == "lo" else rng.choice(["lo", (i + 1 + rng.randrange(NSUBJ - 1)) % NSUBJ])
    qs, script = [], {}
    for subj in (i, j):
        for hk, sp, text, addr, zone, sc in hosts_of(subj):
            script.update(sc)
            qs.append({"s": covert_of(text, rng.choice(["443", "80", "65535", "0", "08080"])), "hk": hk, "sp": sp, "host": text, "addr": addr, "zone": zone,
                       "usable": True, "subj": subj})
    for cls, s, sc in UNUSABLE:
        qs.append({"s": s, "hk": "unusable", "sp": cls, "host": None, "addr": None, "zone": False, "usable": False, "subj": -1})
    ph = []
    for subj in (i, j):
        for fam, b in phantom_addrs(0 if subj == "lo" else subj):
            ph.append({"fam": fam, "ip": b, "subj": subj})
    return qs, script, ph


SUBNETS_TOML = ("[Networks]\n [Networks.1]\n  Generation = 1\n  [[Networks.1.WeightedSubnets]]\n   Weight = 9\n"
                "   Subnets = [\"192.122.190.0/24\", \"2001:48a8:687f:1::/64\"]\n")


def run_enforce(ctx, files):
    rng = ctx.rng
    quick = ctx.tier == "quick"
    structured = structured_cases(rng, quick)
    cases = structured + reload_cases(rng, quick, structured)
    rp = ctx.replay or {}
    for c in rp.get("failures", []) + rp.get("broken", []):
        cc = c.get("case") or {}
        if "enforce_steps" in cc:
            cases.insert(0, {"steps": from_json(cc["enforce_steps"]), "focus": tuple(cc.get("focus") or (0, None, None)), "ek": "replay", "tag": "enforce/replay"})
    js, meta = [], []
    for c in cases:
        qs, script, ph = queries_for(c, rng)
        meta.append((qs, ph))
        js.append({"steps": [cfg_toml(s, rng) for s in c["steps"]], "sub": SUBNETS_TOML, "script": script,
                   "queries": [{"s": hx(q["s"])} for q in qs], "phantoms": [p["ip"].hex() for p in ph]})
    rc, out, res = ctx.go_inpkg(".", "pkg/station/lib", files, "^TestVerifC19Enforce$", js)
    if res is None or len(res) != len(cases):
        ctx.broken("driver", "enforcement driver did not produce results: %s" % out[-1200:])
        return
    terms, keep = [], []
    ncheck = {"decisions": 0, "forbidden": 0, "admitted": 0, "phantom": 0}
    for c, (qs, ph), r, j in zip(cases, meta, res, js):
        steps_json = to_json(c["steps"])
        base_case = {"enforce_steps": steps_json, "focus": list(c["focus"]), "toml": [s.get("text", "<unreadable>") for s in j["steps"]]}
        ctx.count(("enforce", repr(steps_json), c["focus"]), nontrivial=bool(r["steps"]), kind=c["tag"])
        in_force, sterms = None, []
        prev_admit, prev_ph, prev_keys = None, None, None
        ifaces = [(bytes.fromhex(a), bytes.fromhex(b)) for a, b in (r.get("ifaces") or [])]
        for k, (cf, st) in enumerate(zip(c["steps"], r["steps"])):
            case = dict(base_case, step=k)
            where = "start-up" if k == 0 else "reload %d" % k
            loads = cfg_loads(cf)
            if st["parse"] == "panic":
                ctx.fail("panic:ParseConfig/enforce", "ParseConfig panicked at %s: %s" % (where, st["msg"]), case)
                break
            if str(st["stage"]).startswith("panic"):
                ctx.fail("panic:%s" % ("mgr" if k == 0 else "reload"), "%s panicked: %s" % (where, st["stage"]), case)
                break
            accepted = st["parse"] == "ok"
            if accepted and cf["kind"] == "lists" and not loads:
                ctx.fail("enforced:unparsable-entry-dropped", "a configuration with an unparsable list entry (%s) was accepted at %s" % (cf["why"], where), case)
                break
            if not accepted and loads:
                ctx.broken("generator", "a configuration the generator believes well-formed was rejected at %s: %s" % (where, st["msg"]), case)
                break
            if k == 0 and (not accepted or st["stage"] != "ok"):
                ctx.cov["histogram"]["enforce/start-rejected"] = ctx.cov["histogram"].get("enforce/start-rejected", 0) + 1
                sterms.append("(mkS %s %s [] [])" % (cfg_coq(cf), gbool(accepted)))
                break
            failed_reload = k > 0 and not accepted
            if accepted and cf["kind"] == "lists" and loads:
                in_force = cf
            hist = ctx.cov["histogram"]
            # ---- the settings the manager holds: written value after start-up, untouched by a failed reload, and after a
            # reload that loads the policy keys are the new file's (the other keys are by design not replaced by OnReload:
            # recorded in the key table, never alarmed on)
            keys = st.get("keys") or {}
            ktab = ctx.cov.setdefault("enforce_key_table", {})
            if k == 0:
                for kk, want in written_keys(cf).items():
                    row = ktab.setdefault(kk, {"start_ok": 0, "start_differs": 0, "failed_reload_unchanged": 0, "failed_reload_changed": 0, "reload_replaced": 0, "reload_kept": 0})
                    if keys.get(kk) == want:
                        row["start_ok"] += 1
                    else:
                        row["start_differs"] += 1
                        ctx.fail("enforced:key-not-in-force/%s" % kk, "after start-up the manager holds %s = %s, the accepted file wrote %s" % (kk, keys.get(kk), want), case)
            elif failed_reload:
                for kk, v in keys.items():
                    row = ktab.setdefault(kk, {"start_ok": 0, "start_differs": 0, "failed_reload_unchanged": 0, "failed_reload_changed": 0, "reload_replaced": 0, "reload_kept": 0})
                    if prev_keys is not None and prev_keys.get(kk) != v:
                        row["failed_reload_changed"] += 1
                        ctx.fail("reload:failed-load-changed-state/key/%s" % kk, "a reload whose configuration did not load changed %s from %s to %s" % (kk, prev_keys.get(kk), v), case)
                    else:
                        row["failed_reload_unchanged"] += 1
            else:
                want = written_keys(cf)
                for kk, v in keys.items():
                    row = ktab.setdefault(kk, {"start_ok": 0, "start_differs": 0, "failed_reload_unchanged": 0, "failed_reload_changed": 0, "reload_replaced": 0, "reload_kept": 0})
                    if kk in RELOADED_KEYS and v != want[kk]:
                        ctx.fail("enforced:key-not-in-force/%s" % kk, "after a reload that loaded the manager holds %s = %s, the new file wrote %s" % (kk, v, want[kk]), case)
                    if prev_keys is not None and want[kk] != prev_keys.get(kk):
                        row["reload_replaced" if v == want[kk] else "reload_kept"] += 1
            prev_keys = keys
            hist["enforce/step/" + ("failed-reload" if failed_reload else "loaded" if k else "start")] = hist.get("enforce/step/" + ("failed-reload" if failed_reload else "loaded" if k else "start"), 0) + 1
            qterms = []
            cur_admit = [o.get("admit") for o in (st["q"] or [])]
            for qi, (q, o) in enumerate(zip(qs, st["q"] or [])):
                ncheck["decisions"] += 1
                # a failed reload is blamed only for what it CHANGED; a decision that was already wrong keeps its own key
                changed = failed_reload and prev_admit is not None and qi < len(prev_admit) and prev_admit[qi] != o.get("admit")
                if o.get("panic"):
                    ctx.fail("panic:ParseOrResolveBlocklisted", "ParseOrResolveBlocklisted(%r) panicked: %s" % (q["s"], o["panic"]), dict(case, covert=q["s"]))
                    continue
                if q["usable"]:
                    # generator self-check against Go's own view of the string
                    if not o["split_ok"] or bytes.fromhex(o["host"]).decode("latin-1") != q["host"] or not o["res_ok"] or len(o["res_ip"]) not in (8, 32) \
                            or norm_addr(bytes.fromhex(o["res_ip"])) != norm_addr(q["addr"]) or o["res_zone"] != q["zone"]:
                        ctx.broken("generator", "covert %r: the Go library sees host/address %r/%r/%s, the generator %r/%r" %
                                   (q["s"], o.get("host"), o.get("res_ip"), o.get("res_zone"), q["host"], q["addr"].hex()), dict(case, covert=q["s"]))
                        continue
                    fb = forbidding(in_force, q["host"], q["addr"], ifaces)
                    kinds = sorted({e for e, _ in fb})
                    if q["subj"] == c["focus"][0] and c["focus"][1] == q["hk"] and c["focus"][2] == q["sp"] and k == 0:
                        kk = "enforce/%s/%s/%s" % (c["ek"], q["hk"], "admitted" if o["admit"] else "refused")
                        hist[kk] = hist.get(kk, 0) + 1
                        if c["ek"].startswith("long-"):
                            kk = "enforce/%s/*/%s" % (c["ek"], "admitted" if o["admit"] else "refused")
                            hist[kk] = hist.get(kk, 0) + 1
                    if fb:
                        ncheck["forbidden"] += 1
                    else:
                        ncheck["admitted"] += 1
                    if fb and o["admit"]:
                        ek = kinds[0] if len(kinds) == 1 else "+".join(kinds)
                        what = ("the covert %r (host %r, a %s) was admitted (%s) although the configuration in force forbids it: %s"
                                % (q["s"], q["host"], q["hk"], bytes.fromhex(o["out"]).decode("latin-1"), "; ".join("%s %s" % e for e in fb)))
                        if changed:
                            ctx.fail("reload:failed-load-changed-state/policy", "after a reload whose configuration did not load, " + what, dict(case, covert=q["s"]))
                        else:
                            ctx.fail("enforced:%s-not-enforced/%s" % (ek, q["hk"]), "after %s " % where + what, dict(case, covert=q["s"]))
                    elif not fb and not o["admit"]:
                        what = "the covert %r (host %r, a %s) was refused although no entry of the configuration in force forbids it" % (q["s"], q["host"], q["hk"])
                        if changed:
                            ctx.fail("reload:failed-load-changed-state/policy", "after a reload whose configuration did not load, " + what, dict(case, covert=q["s"]))
                        else:
                            ctx.fail("enforced:decision-differs/refused-without-entry/%s" % q["hk"], "after %s " % where + what, dict(case, covert=q["s"]))
                elif o["admit"]:
                    ctx.broken("correspondence", "the unusable covert %r (%s) was admitted as %s" % (q["s"], q["sp"], bytes.fromhex(o["out"]).decode("latin-1")),
                               dict(case, covert=q["s"]))
                split = "(Some (%s, %s))" % (gb(bytes.fromhex(o["host"])), gb(bytes.fromhex(o["port"]))) if o["split_ok"] else "None"
                resd = "(RAddr %s %s)" % (gb(bytes.fromhex(o["res_ip"])), gbool(o["res_zone"])) if o["res_ok"] else "RFail"
                qterms.append("mkQ %s %s %s %s %s %s" % (gb(q["s"]), gbool(o["whole"]), split, resd, glist(o["dom"], gbool), gbool(o["admit"])))
            prev_admit = cur_admit
            phterms = []
            cur_ph = list(st["ph"] or [])
            for pi, (p, v) in enumerate(zip(ph, st["ph"] or [])):
                ncheck["phantom"] += 1
                failed_changed = failed_reload and prev_ph is not None and pi < len(prev_ph) and prev_ph[pi] != v
                if v.startswith("panic"):
                    ctx.fail("panic:IsBlocklistedPhantom", "IsBlocklistedPhantom(%s) panicked: %s" % (p["ip"].hex(), v), case)
                    continue
                want = [n for n in (in_force["phantom"] or []) if net_covers(n, p["ip"])]
                got = v == "true"
                kk = "enforce/phantom/%s/%s" % (p["fam"], "refused" if got else "admitted")
                hist[kk] = hist.get(kk, 0) + 1
                if want and not got:
                    what = "the phantom address %s (%s) is not refused although phantom_blocklist has %s" % (ipaddress.ip_address(p["ip"]), p["fam"], want)
                    ctx.fail("reload:failed-load-changed-state/policy" if failed_changed else "enforced:phantom-entry-not-enforced/%s" % p["fam"], "after %s " % where + what, case)
                elif got and not want:
                    what = "the phantom address %s (%s) is refused although no phantom_blocklist entry contains it" % (ipaddress.ip_address(p["ip"]), p["fam"])
                    ctx.fail("reload:failed-load-changed-state/policy" if failed_changed else "enforced:decision-differs/phantom-refused-without-entry", "after %s " % where + what, case)
                phterms.append("(%s, %s)" % (gb(p["ip"]), gbool(got)))
            prev_ph = cur_ph
            sterms.append("(mkS %s %s %s %s)" % (cfg_coq(cf), gbool(accepted), glist(qterms, lambda t: "(%s)" % t), glist(phterms)))
        if sterms:
            terms.append("(%s, %s)" % (glist(ifaces, lambda n: "(%s, %s)" % (gb(n[0]), gb(n[1]))), glist(sterms)))
            keep.append((c, r, base_case))
    ctx.cov["enforce_lane"] = dict(ncheck, cases=len(cases), compared=len(terms))
    for c, r, bc in keep[:1]:
        ctx.sample({"enforce": bc["toml"], "focus": bc["focus"], "admit": [o["admit"] for o in (r["steps"][0]["q"] or [])]})
    mm = ctx.coq_mismatches("enf", HEADER, terms, "chk_enf", shard=max(40, len(terms) // 14 + 1), need_vo=["C19/RunEnforce.vo"])
    if mm:
        ctx.cov["mismatches"] += len(mm)
        i = min(mm, key=lambda t: len(keep[t][0]["steps"]))
        c, r, bc = keep[i]
        ctx.broken("correspondence", "model C19.RunEnforce (chk_enf) and the implementation disagree on %d enforcement cases; shortest has %d step(s)"
                   % (len(mm), len(c["steps"])), dict(bc, observed=r))
    req = ["enforce/structured", "enforce/reload", "enforce/random", "enforce/bad-start", "enforce/start-rejected",
           "enforce/step/start", "enforce/step/loaded", "enforce/step/failed-reload"]
    for hk in ("name", "v4-literal", "v6-literal", "v6-zoned", "v4-mapped"):
        for ek in ("pattern-only", "pattern-under-allowlist", "pattern-beside-subnets", "pattern-not-first", "blocklist-subnet", "allowlist-elsewhere"):
            req.append("enforce/%s/%s/refused" % (ek, hk))
        for ek in ("allowlist-covering", "no-entry"):
            req.append("enforce/%s/%s/admitted" % (ek, hk))
    req += ["enforce/long-pattern-list/*/refused", "enforce/long-blocklist/*/refused", "enforce/long-allowlist/*/admitted"]
    for fam in ("v4", "v6", "mapped"):
        req += ["enforce/phantom/%s/refused" % fam, "enforce/phantom/%s/admitted" % fam]
    # the interface subnets are the machine's: the loopback classes are required where the machine has them
    all_ifaces = {(bytes.fromhex(a), bytes.fromhex(b)) for r in res for a, b in (r.get("ifaces") or [])}
    ctx.cov["enforce_lane"]["interfaces"] = sorted("%s/%d" % (norm_addr(a), bin(int.from_bytes(b[-len(norm_addr(a).packed):], "big")).count("1")) for a, b in all_ifaces)
    lo4 = any(iface_covers(a, b, ipaddress.ip_address("127.0.0.1").packed) for a, b in all_ifaces)
    lo6 = any(iface_covers(a, b, ipaddress.ip_address("::1").packed) for a, b in all_ifaces)
    for hk, need in (("v4-literal", lo4), ("v4-mapped", lo4), ("name", lo4 or lo6), ("v6-literal", lo6)):
        if need:
            req += ["enforce/public-addrs/%s/refused" % hk, "enforce/public-addrs-allowlisted/%s/admitted" % hk, "enforce/public-addrs-off/%s/admitted" % hk]
    ctx.require_kinds(req)


# ------------------------------------------------------------------ replay (JSON) form of configurations
def to_json(steps):
    def ent(e):
        if isinstance(e, tuple) and e[0] == "pat":
            return ["pat", [e[1][0], e[1][1], e[1][2]]]
        if isinstance(e, tuple):
            return list(e)
        return e
    out = []
    for s in steps:
        if s["kind"] != "lists":
            out.append({"kind": s["kind"], "why": s.get("why", "")})
        else:
            out.append({"kind": "lists", "why": s["why"], "keys": s["keys"], "public": s.get("public"), **{l: (None if s[l] is None else [ent(e) for e in s[l]]) for l in ("block", "allow", "phantom", "domains")}})
    return out


def tup(a):
    if isinstance(a, list):
        if a and a[0] == "cls":
            return ("cls", a[1], [tuple(r) for r in a[2]])
        return tuple(tup(x) for x in a)
    return a


def from_json(steps):
    out = []
    for s in steps:
        if s["kind"] != "lists":
            out.append(dict(s))
            continue
        c = dict(s)
        for l in ("block", "allow", "phantom", "domains"):
            if c.get(l) is not None:
                es = []
                for e in c[l]:
                    if isinstance(e, list) and e[0] == "pat":
                        es.append(("pat", (e[1][0], tup(e[1][1]), e[1][2])))
                    elif isinstance(e, list):
                        es.append(tuple(e))
                    else:
                        es.append(e)
                c[l] = es
        c.setdefault("keys", {})
        out.append(c)
    return out
