"""C07, lifecycle lane: "known ClientConf generation" = known to the phantom subnet file IN FORCE (loaded at start-up or at
the last successful reload).  Histories over ONE real RegistrationManager (real NewRegistrationManager from a temp TOML,
real OnReload after the file was rewritten, real parseRegMessage / ingestRegistration); phantom selection oracle values
come from a reference selector loaded from the file the HISTORY says is in force, never from the manager under test.
Model: coq/C07/ModelLife.v (C07_lifecycle_* theorems): every message step is Model.process under the selector of the
file in force, so the correspondence is Run.chk on the message steps with those oracle values."""
import sys

BOTH = ["192.122.190.0/24", "2001:48a8:687f:1::/64"]
OTHER = ["192.122.190.0/28", "2001:48a8:687f:1::/96"]
MALFORMED = ["[Networks\n  [Networks.1\n Generation = = 1\n", "this is not a phantom subnet file {{{"]


def toml_of(gens):
    """gens: {generation: (subnets, randomize)}"""
    out = ["[Networks]"]
    for g in sorted(gens):
        subnets, rnd = gens[g]
        out += ["    [Networks.%d]" % g, "        Generation = %d" % g, "        [[Networks.%d.WeightedSubnets]]" % g,
                "            Weight = 9", "            RandomizeDstPort = %s" % ("true" if rnd else "false"),
                "            Subnets = [%s]" % ", ".join('"%s"' % s for s in subnets)]
    return "\n".join(out) + "\n"


def F(*gens, alt=()):
    return {g: ((OTHER if g in alt else BOTH), False) for g in gens}


# history templates: start file, then ops ("reload", file | None=malformed) / ("msgs", gens)
TEMPLATES = [
    ("retire", F(1, 2), [("msgs", [1, 2]), ("reload", F(1)), ("msgs", [1, 2, 3])]),
    ("retire-first-use-after", F(1, 2), [("reload", F(1)), ("msgs", [2, 1])]),
    ("add", F(1), [("msgs", [3, 1]), ("reload", F(1, 3)), ("msgs", [1, 3, 2])]),
    ("failed-reload-keeps", F(1, 2), [("reload", None), ("msgs", [1, 2, 3]), ("reload", F(1)), ("msgs", [2, 1])]),
    ("retire-then-failed", F(1, 2), [("reload", F(1)), ("reload", None), ("msgs", [2, 1])]),
    ("retire-then-restore", F(1, 2), [("reload", F(1)), ("msgs", [2]), ("reload", F(1, 2)), ("msgs", [2, 1])]),
    ("changed-subnets", F(1, 2), [("msgs", [2]), ("reload", F(1, 2, alt=(2,))), ("msgs", [2, 1])]),
    ("replace-all", F(1, 2), [("reload", F(3, 4)), ("msgs", [1, 2, 3, 4])]),
    ("two-reloads", F(1, 2, 3), [("reload", F(1, 2)), ("reload", F(1)), ("msgs", [3, 2, 1])]),
    ("same-file", F(1, 2), [("msgs", [1]), ("reload", F(1, 2)), ("msgs", [2, 1])]),
]

ROWS = [   # message shapes that meet every other condition (the generation and the family vary)
    dict(payload=True, v4sup=True, v6sup=False, cf_v4=True, cf_v6=True, regaddr="v4", gen=1, libver=3, transport=0, flags=None,
         params=None, noovr=None, source=2, rr="none", pblock="none", covert="ok", secret="ok", share=True, live=False, geo_fail=False),
    dict(payload=True, v4sup=False, v6sup=True, cf_v4=True, cf_v6=True, regaddr="v6", gen=1, libver=4, transport=2, flags=None,
         params=7, noovr=None, source=2, rr="none", pblock="none", covert="ok6", secret="ok", share=True, live=False, geo_fail=False),
    dict(payload=True, v4sup=True, v6sup=True, cf_v4=True, cf_v6=True, regaddr="v4", gen=1, libver=3, transport=0, flags=False,
         params=7, noovr=False, source=1, rr="none", pblock="none", covert="ok", secret="ok", share=True, live=False, geo_fail=False),
    dict(payload=True, v4sup=True, v6sup=True, cf_v4=True, cf_v6=True, regaddr="v4", gen=1, libver=2, transport=2, flags=True,
         params=None, noovr=None, source=3, rr="none", pblock="none", covert="ok", secret="ok", share=False, live=True, geo_fail=False),
]


def build(base, g, name, start, ops, row):
    files, texts = [start], [toml_of(start)]
    steps, meta = [], []
    force, ever, last_failed, start_gens = 0, set(start), False, set(start)
    for op in ops:
        if op[0] == "reload":
            if op[1] is None:
                texts.append(MALFORMED[g.rng.randrange(len(MALFORMED))])
                files.append(None)
                last_failed = True
            else:
                texts.append(toml_of(op[1]))
                files.append(op[1])
                force = len(files) - 1
                ever |= set(op[1])
                last_failed = False
            steps.append({"kind": "reload", "file": len(files) - 1})
            meta.append({"reload": "failed" if op[1] is None else "ok", "force": force})
        else:
            for gen in op[1]:
                m = g.msg(dict(row, gen=gen))
                steps.append({"kind": "msg", "msg": m, "ref": force})
                cur = set(files[force])
                if gen in cur:
                    status = "kept-by-failed-reload" if last_failed else ("added-by-reload" if gen not in start_gens else
                                                                         "known" if force == 0 else "kept-by-reload")
                else:
                    status = "retired-by-reload" if gen in ever else "never-configured"
                meta.append({"gen": gen, "known": gen in cur, "status": status, "force": force})
    c = g.case(row, steps=steps)
    c.update({"files": texts, "filegens": [sorted(f) if f is not None else None for f in files], "meta": meta, "name": name})
    return c


def gen_cases(ctx, base):
    g = base.Gen(ctx.rng)
    g.tag = 5000000
    cases = []
    for ti, (name, start, ops) in enumerate(TEMPLATES):
        for ri, row in enumerate(ROWS):
            if ctx.tier == "quick" and ri != ti % len(ROWS) and ri != (ti + 1) % len(ROWS) and name not in ("retire", "failed-reload-keeps"):
                continue
            cases.append(build(base, g, name, start, ops, row))
    # random histories
    for k in range(12 if ctx.tier == "quick" else 150):
        pool = [1, 2, 3, 4, 7]
        start = F(*ctx.rng.sample(pool, ctx.rng.randint(1, 3)))
        ops = []
        for _ in range(ctx.rng.randint(2, 5)):
            x = ctx.rng.random()
            if x < 0.15:
                ops.append(("reload", None))
            elif x < 0.5:
                gs = ctx.rng.sample(pool, ctx.rng.randint(1, 3))
                ops.append(("reload", F(*gs, alt=tuple(q for q in gs if ctx.rng.random() < 0.3))))
            else:
                ops.append(("msgs", [ctx.rng.choice(pool) for _ in range(ctx.rng.randint(1, 3))]))
        ops.append(("msgs", ctx.rng.sample(pool, 3)))
        cases.append(build(base, g, "random-%d" % k, start, ops, ROWS[ctx.rng.randrange(len(ROWS))]))
    return cases


def run_life(ctx, base):
    cases = gen_cases(ctx, base)
    payload = [{"cfg": c["cfg"], "live": c["live"], "files": c["files"], "steps": c["steps"]} for c in cases]
    drv = {"zz_verif_driver_test.go": "c07/c07_driver_test.go", "zz_verif_life_test.go": "c07/c07_life_driver_test.go"}
    rc, out, res = ctx.go_inpkg(".", base.PKG, drv, "^TestVerifC07Life$", payload, timeout=600)
    if res is None or len(res.get("results", [])) != len(cases):
        ctx.broken("driver", "Go driver of the lifecycle lane did not produce results: %s" % out[-1200:])
        return
    shares_by_tag = {}
    for s in res["shares"]:
        if s["mask"].isdigit():
            shares_by_tag.setdefault(int(s["mask"]), []).append(s)
        else:
            ctx.fail("share/unattributable", "the peer endpoint received a request that is not a shared registration: %s" % s, {"share": s})
    terms = []
    hist = ctx.cov.setdefault("lifecycle_lane_histogram", {})
    for ci, (c, rr) in enumerate(zip(cases, res["results"])):
        cfg, live = c["cfg"], c["live"]
        info0 = {"lane": "lifecycle", "name": c["name"], "cfg": cfg, "files_generations": c["filegens"],
                 "steps": [("reload->%s" % c["filegens"][s["file"]]) if s["kind"] == "reload" else
                           ("msg gen=%s v4=%s v6=%s" % (s["msg"]["payload"]["gen"], s["msg"]["payload"]["v4"], s["msg"]["payload"]["v6"]))
                           for s in c["steps"]]}
        # generator self-test: the files load (or not) as the history assumes, with the generations it assumes
        ok = True
        for fi, fg in enumerate(c["filegens"]):
            if rr["loadable"][fi] != (fg is not None) or (fg is not None and sorted(rr["gens"][fi]) != fg):
                ctx.broken("generator-selftest", "lifecycle lane: file %d of history %s loads=%s with generations %s, the history assumes %s"
                           % (fi, c["name"], rr["loadable"][fi], sorted(rr["gens"][fi]), fg), info0)
                ok = False
        if not ok:
            continue
        tracked, announced_so_far, steps_terms, bad = {}, set(), [], False
        for si, (st, r, mt) in enumerate(zip(c["steps"], rr["steps"], c["meta"])):
            info = dict(info0, failing_step=si, step_meta=mt)
            if r.get("panic"):
                ctx.count((ci, si, "panic"), kind="panic")
                ctx.fail("life/panic", "lifecycle history step panicked: %s" % r["panic"], info)
                bad = True
                break
            probes = [ev for ev in r["events"] if ev["kind"] == "probe"]
            anns = [ev for ev in r["events"] if ev["kind"] == "announce"]
            if st["kind"] == "reload":
                if r["events"]:
                    ctx.fail("life/reload-had-effects", "a reload produced probes / announcements: %s" % r["events"][:2], info)
                kind = "life/reload:" + mt["reload"]
                shares = []
            else:
                m = st["msg"]
                tag = m["payload"]["tag"]
                shares = sorted(shares_by_tag.get(tag, []), key=lambda s: s["seq"])
                obs = {"err": r["err"], "ndrafts": r["ndrafts"], "probes": [(p["a"], p["port"]) for p in probes],
                       "announced": [a["reg"] for a in anns], "shares": shares, "visible": r["visible"]}
                info = dict(info, observed=obs, in_force=c["filegens"][mt["force"]], generation=mt["gen"])
                # the property's words: a generation absent from the file in force is not a known generation
                if not mt["known"]:
                    if r["sel4"]["ok"] or r["sel6"]["ok"]:
                        ctx.broken("generator-selftest", "reference selector of the file in force selects for an absent generation", info)
                    if anns or probes or shares:
                        ctx.fail("announced-although/generation-not-in-force:" + mt["status"] if anns else
                                 "effects-although/generation-not-in-force:" + mt["status"],
                                 "a registration naming generation %d had effects (announced %d, probes %d, shares %d) although the phantom "
                                 "subnet file in force (generations %s) does not hold it (%s)"
                                 % (mt["gen"], len(anns), len(probes), len(shares), c["filegens"][mt["force"]], mt["status"]), info)
                    if [v for v in r["visible"] if (base.norm_hex(v["phantom"]), v["transport"], v["secret"]) not in announced_so_far
                            and v["secret"] == (m["secret"] or "")]:
                        ctx.fail("connectable-although/generation-not-in-force:" + mt["status"],
                                 "GetRegistrations returns a registration naming generation %d, which the file in force does not hold" % mt["gen"], info)
                e = base.expect_msg(cfg, live, tracked, m, r)
                k0 = base.oracle_msg(ctx, e, obs, m, cfg, live, dict(info, oracle_values={k: r[k] for k in ("sel4", "sel6", "covert_ok", "covert_lit")}))
                if mt["known"] and k0 in ("msg/dropped-error", "msg/no-draft") and e.err and e.why == "generation-unknown-or-no-subnet":
                    ctx.broken("generator-selftest", "reference selector does not select for a generation of the file in force", info)
                kind = "life/%s:%s" % ("announced" if k0.startswith("msg/announced") else "dropped" if not mt["known"] else k0[4:], mt["status"])
            for a in anns:
                announced_so_far.add((base.norm_hex(a["reg"]["phantom"]), a["reg"]["transport"], a["reg"]["secret"]))
            vis = set((base.norm_hex(v["phantom"]), v["transport"], v["secret"]) for v in r["visible"])
            if vis != announced_so_far:
                ctx.fail("life/visible/differs-from-announced", "GetRegistrations returns %s but the announced registrations are %s"
                         % (sorted(vis - announced_so_far), sorted(announced_so_far - vis)), info)
            ctx.count(("life", cfg, c["files"], c["steps"][:si + 1]), nontrivial=True, kind=kind)
            hist[kind] = hist.get(kind, 0) + 1
            if st["kind"] == "msg":
                steps_terms.append("(%s, %s, %s)" % ("(Msg %s)" % base.g_wrapper(st["msg"]), base.g_oracles(r, live, cfg["geo_fail"], False),
                                                     base.g_obs(r, shares, None)))
        if not bad:
            terms.append(("(%s, [%s])" % (base.g_cfg(cfg, res["pblocks"][ci]), "; ".join(steps_terms)), info0))
    ctx.cov["lifecycle_lane"] = {"histories": len(cases)}
    ctx.sample({"lane": "lifecycle", "case": {k: cases[0][k] for k in ("cfg", "filegens", "steps")}, "observed": res["results"][0]})
    ctx.require_kinds(["life/announced:known", "life/announced:kept-by-reload", "life/announced:added-by-reload",
                       "life/announced:kept-by-failed-reload", "life/dropped:retired-by-reload", "life/dropped:never-configured",
                       "life/reload:ok", "life/reload:failed"])
    mm = ctx.coq_mismatches("life", base.HEADER, [t for t, _ in terms], "chk", shard=40 if ctx.tier == "quick" else 200, need_vo=["C07/Run.vo"])
    if mm:
        ctx.cov["mismatches"] += len(mm)
        ctx.broken("correspondence", "model C07 (Model.process under the selector of the file in force, C07_lifecycle_step_is_in_force) and the "
                   "ingest code across reloads disagree on %d histor(ies); first: %s" % (len(mm), terms[mm[0]][1]["name"]), terms[mm[0]][1])
