"""C04 — valid client flights are recognised under any TCP segmentation, data intact.

Real handleNewTCPConn + real client transports through an in-memory pipe whose writer re-segments
the first flight (+ early data); covert side = loopback echo server.  Direct oracle on the
observables, then the handler model (coq/C04) is evaluated on the same connections."""
import itertools
import os
import sys
import time

from lib import gN, gZ, gbool, glist, gopt, hexs, lcg_bytes, bhash

MOD = "cmd/application"
FILES = {"zz_verif_common_test.go": "c04/common_driver_test.go",
         "zz_verif_c04_test.go": "c04/c04_driver_test.go"}
EXTRA = {"pkg/station/lib/zz_verif_export.go": "c04/lib_export.go",
         "pkg/transports/wrapping/obfs4/zz_verif_export.go": "c04/obfs4_export.go"}
TCODE = {"min": 0, "obfs4": 1, "prefix": 2}
CLS = {"again": 0, "not": 1, "found": 2, "err_prefix": 3, "err_transport": 4, "err_other": 5}

OTHERS = [
    [],
    [{"transport": "min", "valid": True}],
    [{"transport": "prefix", "prefix_id": 1, "valid": True}, {"transport": "prefix", "prefix_id": 9, "valid": True}],
    [{"transport": "obfs4", "valid": True}],
    [{"transport": "min", "valid": False}, {"transport": "prefix", "prefix_id": 0, "valid": False}],
    [{"transport": "min", "valid": True}, {"transport": "obfs4", "valid": True}, {"transport": "prefix", "prefix_id": 0, "valid": True},
     {"transport": "prefix", "prefix_id": 4, "valid": True}, {"transport": "obfs4", "valid": False}, {"transport": "min", "valid": True},
     {"transport": "prefix", "prefix_id": 2, "valid": True, "no_params": True}],
]


def nb(b):
    """bytes -> Gallina term (C04.Run.nb): one hexadecimal N literal instead of a string"""
    b = bytes(b)
    if len(b) == 0:
        return "(@nil N)"
    if len(b) > 9000:
        return hexs(b)
    return "(nb %d 0x%s)" % (len(b), b.hex())


def table_term(table):
    rows = ["{| p_id := %s; p_static := %s; p_off := %d%%nat; p_min := %d%%nat; p_max := %d%%nat |}"
            % (gZ(r["id"]), hexs(bytes.fromhex(r["static"])), r["offset"], r["minlen"], r["maxlen"]) for r in table]
    return "[" + ";\n ".join(rows) + "]"


def header(table):
    return ("From CJ Require Import Common.Base C04.Model C04.Run.\n"
            "Definition tbl : list pfx :=\n %s.\nDefinition chk' := chk tbl.\n" % table_term(table))


def data_spec(seed, n):
    if n == 0:
        return "Lit (@nil N)"
    return "Gen %d%%N %d%%N" % (seed, n)


def obs_spec(v):
    if v["len"] == 0:
        return "Lit (@nil N)"
    if v.get("hex"):
        return "Lit %s" % nb(bytes.fromhex(v["hex"]))
    return "Dig %d%%N %s%%N" % (v["len"], v["hash"])


def group_calls(calls):
    its = []
    for c in calls:
        if not its or its[-1][0] != c["n"]:
            its.append((c["n"], []))
        its[-1][1].append(c)
    return its


def conn_term(res, stream_parts, late_spec, cmp_relay, reads=None, iters=None):
    """Gallina term for one recorded connection (shared with C03).
    Revealed identifiers that are not registered on the phantom are dropped: the model only looks
    revealed identifiers up in the registry (first_reg), so they cannot influence it.  Number
    literals are what costs time in coqc, so every identifier is bound once and referred to by
    name, and observed relay bytes are given as (length, hash)."""
    names = {}
    binds = []

    def ref(hx):
        if len(hx) < 32:
            return nb(bytes.fromhex(hx))
        if hx not in names:
            names[hx] = "i%d" % len(names)
            binds.append("let %s := %s in" % (names[hx], nb(bytes.fromhex(hx))))
        return names[hx]
    known = set(r["id"] for r in res["regs"])
    regs = glist(res["regs"], lambda r: "(%s, %s, %s)" % (ref(r["id"]), gN(r["tt"] if 0 <= r["tt"] <= 4 else 9), gopt(r["pid"], gZ)))
    rv = [(r["off"], [i for i in r["ids"] if i in known]) for r in (res.get("reveals") or [])]
    revs = glist([r for r in rv if r[1]], lambda r: "(%s, %s)" % (gN(r[0]), glist(r[1], ref)))
    marks = glist(res.get("marks") or [], lambda m: "(%s, %s)" % (ref(m["id"]), nb(bytes.fromhex(m["mark"]))))
    calls = res.get("calls") or []
    hs = not any(c["t"] == "obfs4" and c["res"] == "err_other" for c in calls)
    its = group_calls(calls) if iters is None else iters
    iters_t = glist(its, lambda it: "(%s, %s)" % (gN(it[0]), glist(it[1], lambda c: "(%s, %s, %s)" % (
        gN(TCODE[c["t"]]), gN(CLS[c["res"]]), gN(c["consumed"] if c["res"] == "found" else 0)))))
    found = None
    for c in calls:
        if c["res"] == "found":
            found = "(%s, %s)" % (gN(TCODE[c["t"]]), ref(c.get("reg_id", "")))
    rd = (res.get("reads") or []) if reads is None else reads
    parts = [("Lit %s" % ref(p[1])) if isinstance(p, tuple) else p for p in stream_parts]
    echo = res.get("echo") or {"len": 0}
    echo_t = "Lit (@nil N)" if echo["len"] == 0 else "Dig %d%%N %s%%N" % (echo["len"], echo["hash"])
    rf = res.get("relay_first")
    replay_t = "None" if not rf else "(Some (%d%%N, %s%%N))" % (rf["len"], rf["hash"])
    used = res.get("status_open", res.get("status")) == 1      # looked at while the tunnel was still open
    return ("(%s Build_conn_case %s %s %s %s %s %s\n   %s %s %s\n   %s %s %s (%s) (%s) %s %s)"
            % (" ".join(binds), regs, revs, marks, gbool(hs), gN(res["tracked"]), glist(res["ts"], lambda t: gN(TCODE[t])),
               glist(parts), glist(rd, gN), iters_t, gopt(found), gbool(used), gbool(cmp_relay),
               late_spec, echo_t, gbool(bool(res.get("mark_first", found is not None))), replay_t))


PEERS = ("v4short", "v4mapped", "v6", "zoned")


def gen_cases(ctx, table, consts=None):
    consts = consts or {}
    rng = ctx.rng
    quick = ctx.tier == "quick"
    cases = []
    flen = {("min", 0): 32}
    for r in table:
        flen[("prefix", r["id"])] = r["offset"] + 64
    sets = [("min", 0)] + [("prefix", r["id"]) for r in table]
    oi = itertools.count()
    ki = itertools.count()

    def mk(tr, pid, **kw):
        c = {"transport": tr, "prefix_id": pid, "flush": 0, "rand_port": False, "cuts": [], "natural": False,
             "data_len": 0, "data_seed": rng.randrange(1, 1 << 30), "late_len": 16, "late_seed": rng.randrange(1, 1 << 30),
             "delay_ms": 0, "banner_len": 0, "banner_seed": rng.randrange(1, 1 << 30), "key": next(ki) % 3, "sweep": False,
             "others": OTHERS[next(oi) % len(OTHERS)], "kind": "?", "pad_len": 0, "peer": ""}
        c.update(kw)
        cases.append(c)

    if ctx.replay:
        # --replay: exactly the recorded failing connections (same parameters, cuts and sizes; the
        # client secret and hence the flight bytes are fresh, as on every run)
        for f in ctx.replay.get("failures", []):
            c = f.get("case") or {}
            if "transport" in c:
                c = {k: v for k, v in c.items() if k not in ("observed", "sent_len")}
                c.setdefault("kind", "replay")
                cases.append(c)
        for b in ctx.replay.get("theorem_or_correspondence", []) + ctx.replay.get("broken", []):
            c = (b.get("case") or {}).get("case") or {}
            if "transport" in c:
                c = dict(c)
                c["kind"] = "replay"
                cases.append(c)
        if cases:
            return cases
    # the client's own segmentation: every prefix id x flush policy x port mode, with and without early data
    for tr, pid in sets:
        for flush in ((0, 1, 2) if tr == "prefix" else (0,)):
            for rp in (False, True):
                for dl in (0, 8):
                    mk(tr, pid, flush=flush, rand_port=rp, natural=True, data_len=dl, kind="natural")
    # the station holds three private keys (rotation): every prefix id with the tag obfuscated to each of them
    for tr, pid in sets:
        if tr == "prefix":
            for key in range(3):
                mk(tr, pid, natural=True, data_len=5, key=key, kind="key%d" % key)
    # while the tunnel is open, 11 minutes pass for the registration and the expiry sweep runs
    for tr, pid in sets:
        L = flen[(tr, pid)]
        mk(tr, pid, cuts=[L // 2], data_len=8, sweep=True, kind="sweep")
    # every 1-cut of flight (+ early data).  Without early data the client then stays silent and the
    # covert speaks first (a banner): the flight alone, exactly at its threshold length, must do.
    for tr, pid in sets:
        L = flen[(tr, pid)]
        for cut in range(1, L + 8):
            mk(tr, pid, cuts=[cut], data_len=8, kind="1cut")
        for cut in range(1, L):
            mk(tr, pid, cuts=[cut], data_len=0, late_len=0, banner_len=24, kind="1cut-banner")
        mk(tr, pid, cuts=[], data_len=0, late_len=0, banner_len=24, kind="1cut-banner")
    # 2-cuts: exhaustive for the chosen sets
    two = sets if not quick else [("min", 0), ("prefix", 1), ("prefix", 9)]
    for tr, pid in two:
        L = flen[(tr, pid)]
        dl = 3
        pairs = list(itertools.combinations(range(1, L + dl), 2))
        if quick and tr == "prefix":
            # all pairs touching a boundary region, plus a sample of the rest
            off = L - 64
            hot = set(range(1, 4)) | set(range(max(1, off - 2), off + 3)) | set(range(off + 30, off + 35)) | set(range(L - 3, L + dl))
            keep = [p for p in pairs if p[0] in hot or p[1] in hot]
            rest = [p for p in pairs if not (p[0] in hot or p[1] in hot)]
            rng.shuffle(rest)
            pairs = keep + rest[:150]
        for a, b in pairs:
            mk(tr, pid, cuts=[a, b], data_len=dl, kind="2cut")
    # early-data sizes with random cuts
    sizes = [0, 1, 31, 64, 100, 1000, 4000, 4096, 5000, 20000, 65536]
    for tr, pid in sets:
        L = flen[(tr, pid)]
        for dl in (sizes if not quick else rng.sample(sizes[:-2], 2) + [65536 if (tr, pid) == ("prefix", 2) else 4096 - L]):
            k = rng.randrange(0, 5)
            cuts = sorted(set(rng.randrange(1, L + max(dl, 1)) for _ in range(k)))
            mk(tr, pid, cuts=cuts, data_len=dl, kind="early")
    # flights whose last segment fills the handler's 4096-byte read buffer exactly (the tag being
    # incomplete before that read), and streams that are an exact multiple of it
    for tr, pid in sets:
        L = flen[(tr, pid)]
        mk(tr, pid, cuts=[], data_len=4096 - L, kind="fill")
        mk(tr, pid, cuts=[], data_len=8192 - L, kind="fill")
        for c in (1, L // 2, L - 1):
            mk(tr, pid, cuts=[c], data_len=4096 + c - L, kind="fill")
        mk(tr, pid, cuts=[L - 1, L - 1 + 4096], data_len=8192, kind="fill")
    # one byte per segment through the whole flight, and slowly paced segments (seconds, not milliseconds)
    for tr, pid in sets:
        L = flen[(tr, pid)]
        mk(tr, pid, cuts=list(range(1, L + 4)), data_len=4, kind="bytewise")
    for tr, pid in (sets if not quick else [("min", 0), ("prefix", 3), ("prefix", 7)]):
        L = flen[(tr, pid)]
        mk(tr, pid, cuts=[L // 3, L - 2, L + 1], data_len=6, delay_ms=400, kind="paced")
    # random k-cuts with pauses between segments
    for _ in range(30 if quick else 200):
        tr, pid = rng.choice(sets)
        L = flen[(tr, pid)]
        dl = rng.choice([0, 5, 200])
        k = rng.randrange(2, 8)
        cuts = sorted(set(rng.randrange(1, L + dl) for _ in range(k))) if L + dl > 1 else []
        mk(tr, pid, cuts=cuts, data_len=dl, delay_ms=rng.choice([1, 5, 20]), kind="paced")
    # obfs4: the handshake has a random length (141..8192) chosen by the client; cuts relative to both ends
    ocuts = [[], [1], [31], [32], [33], [63], [64], [65], [108], [109], [110], [140], [141], [-33], [-32], [-31], [-17], [-16], [-15],
             [-1], [64, -32], [32, 109, -32, -16], [4096], [4095, 4097], [100, 4096, -1]]
    for cs in ocuts:
        for dl in ((0, 50) if quick else (0, 50, 3000)):
            mk("obfs4", 0, cuts=cs, data_len=dl, rand_port=rng.random() < 0.5, kind="obfs4")
    for cs in ocuts[::3]:
        mk("obfs4", 0, cuts=cs, data_len=0, late_len=0, banner_len=24, kind="obfs4")
    mk("obfs4", 0, cuts=[100], data_len=20, sweep=True, kind="sweep")
    for _ in range(20 if quick else 300):
        k = rng.randrange(1, 7)
        cs = sorted(set(rng.choice([rng.randrange(1, 8192), -rng.randrange(1, 140)]) for _ in range(k)))
        mk("obfs4", 0, cuts=cs, data_len=rng.choice([0, 10, 2000]), delay_ms=rng.choice([0, 0, 3]), kind="obfs4")
    # obfs4: hand-built valid client handshakes X'|pad|mark|MAC for the padding lengths the real client
    # practically never draws (both ends of the legal range and the values next to them), under several
    # segmentations: every legal padding length (flight of at most MaxHandshakeLength bytes) must be recognised
    lo, hi = consts.get("min_pad", 77), consts.get("max_pad", 8128)
    pads = [("min", lo), ("min+1", lo + 1), ("mid", (lo + hi) // 2), ("max-32", hi - 32), ("max-31", hi - 31), ("max-1", hi - 1), ("max", hi),
            ("rand", rng.randrange(lo, hi + 1)), ("rand-top", rng.randrange(hi - 64, hi + 1))]
    psegs = [[], [1400 * k for k in range(1, 6)], [32, -32], [-1], [4096, -16], [1]]
    for j, (lab, pl) in enumerate(pads):
        for cs in (psegs[:2] + [psegs[2 + j % 4]] + [sorted(set(rng.randrange(1, pl + 64) for _ in range(rng.randrange(1, 5))))]):
            mk("obfs4", 0, cuts=cs, data_len=0, late_len=0, pad_len=pl, pad_class=lab, kind="obfs4-pad")
    # the client's source address as the accepted socket reports it (*net.TCPAddr): 4-byte IPv4, v4-mapped,
    # global IPv6, link-local IPv6 with a zone - a registered client is recognised whatever IP address it comes from
    for tr, pid in [("min", 0), ("obfs4", 0)] + [("prefix", r["id"]) for r in table]:
        for peer in PEERS:
            if tr == "obfs4":
                mk(tr, pid, cuts=[64, -32], data_len=20, peer=peer, kind="peer-" + peer)
            else:
                mk(tr, pid, cuts=[flen[(tr, pid)] // 2], data_len=8, peer=peer, kind="peer-" + peer)
    for _ in range(12 if quick else 100):
        tr, pid = rng.choice(sets)
        L = flen[(tr, pid)]
        peer = rng.choice(PEERS)
        mk(tr, pid, cuts=sorted(set(rng.randrange(1, L + 5) for _ in range(rng.randrange(0, 4)))), data_len=5, peer=peer, kind="peer-" + peer)
    only = os.environ.get("VERIF_C04_ONLY")      # debugging aid: restrict the run to one transport
    if only:
        cases = [c for c in cases if c["transport"] == only]
    return cases


def oracle(ctx, c, r):
    """the property's own statement on the implementation's observables"""
    tr = c["transport"]
    base = tr + ("/p%d" % c["prefix_id"] if tr == "prefix" else "")
    if c.get("pad_len"):
        base += "/pad-" + c.get("pad_class", "n")
    if c.get("peer"):
        base += "@peer-" + c["peer"]
    want = bytes(lcg_bytes(c["data_seed"], c["data_len"])) + bytes(lcg_bytes(c["late_seed"], c["late_len"]))
    want_reply = bytes(lcg_bytes(c.get("banner_seed", 1), c.get("banner_len", 0))) + want
    brief = {k: c[k] for k in ("transport", "prefix_id", "flush", "rand_port", "cuts", "natural", "data_len", "data_seed",
                               "late_len", "late_seed", "delay_ms", "banner_len", "banner_seed", "key", "sweep", "others")}
    for k in ("pad_len", "pad_class", "peer"):
        if c.get(k):
            brief[k] = c[k]
    brief["observed"] = {k: r.get(k) for k in ("err", "found", "found_t", "status", "updates", "segs", "reads", "echo_conns", "returned", "early_answered", "status_open", "updates_open", "swept", "mark_first", "flight_len", "hs_reply")}
    brief["observed"]["echo_len"] = (r.get("echo") or {}).get("len")
    brief["observed"]["reply_len"] = (r.get("reply") or {}).get("len")
    brief["sent_len"] = len(want)

    def same(v, w=None):
        w = want if w is None else w
        return v and v["len"] == len(w) and int(v["hash"]) == bhash(w)
    bad = False
    if not r.get("found") or r.get("found_t") != tr:
        ctx.fail(base + ":not-recognised", "a registered %s client's first flight%s was not recognised by the handler (segments %s)"
                 % (base, " (%s bytes, %d of padding)" % (r.get("flight_len"), c["pad_len"]) if c.get("pad_len") else "", r.get("segs")), brief)
        return True
    if c.get("pad_len") and r.get("hs_reply", 0) < c.get("server_min", 1):
        ctx.fail(base + ":no-server-handshake", "the station recognised the hand-built obfs4 handshake but answered with %s bytes "
                 "(a server handshake has at least %s)" % (r.get("hs_reply"), c.get("server_min")), brief)
        bad = True
    if r.get("found_id") != r.get("own_id"):
        ctx.fail(base + ":wrong-registration", "the handler found another registration than the client's", brief)
        bad = True
    if not same(r.get("echo")):
        ctx.fail(base + ":data-not-intact", "covert side received %s bytes, client sent %d after the handshake material (segments %s)"
                 % ((r.get("echo") or {}).get("len"), len(want), r.get("segs")), brief)
        bad = True
    elif not same(r.get("reply"), want_reply):
        ctx.fail(base + ":reply-not-intact", "the covert's reply did not reach the client intact (%s of %d bytes)"
                 % ((r.get("reply") or {}).get("len"), len(want_reply)), brief)
        bad = True
    if not bad and not r.get("early_answered", True):
        ctx.fail(base + ":early-data-stalled", "the covert's answer to the client's early data (or its banner) only arrived after the client "
                 "sent more: bytes that came with the flight were not relayed until then (segments %s)" % r.get("segs"), brief)
        bad = True
    if r.get("status_open") != 1 or r.get("updates_open", 0) < 1:
        ctx.fail(base + ":not-marked-used", "while its tunnel was open (the client had its answers and had not closed) the registration was "
                 "not marked as used / no Update had been published (status %s, updates %s; after the session: status %s, updates %s)"
                 % (r.get("status_open"), r.get("updates_open"), r.get("status"), r.get("updates")), brief)
        bad = True
    elif r.get("swept") != 1 and (r.get("status") != 1 or r.get("updates", 0) < 1):
        ctx.fail(base + ":not-marked-used", "registration not marked as used after its connection (status %s, updates %s)"
                 % (r.get("status"), r.get("updates")), brief)
        bad = True
    if r.get("swept") == 1:
        ctx.fail(base + ":swept-under-open-tunnel", "the expiry sweep removed the registration of an open tunnel 11 minutes after it was "
                 "registered (an unused registration lives 10 minutes, a used one 6 hours)", brief)
        bad = True
    if r.get("echo_conns") != 1:
        ctx.fail(base + ":covert-dials", "covert destination dialled %s times" % r.get("echo_conns"), brief)
        bad = True
    if not r.get("returned"):
        ctx.fail(base + ":handler-hangs", "handler did not return after the client closed", brief)
        bad = True
    return bad


def scope_checks(ctx, r):
    """assumptions about what lies outside the model, checked on every recorded connection"""
    h = ctx.cov["histogram"]
    fam = "phantom:v6" if r.get("v6") else "phantom:v4"
    h[fam] = h.get(fam, 0) + 1
    if any(cl["res"] == "found_foreign" for cl in (r.get("calls") or [])):
        ctx.broken("model-scope", "a transport returned a registration that is not a *DecoyRegistration: the handler's type-assertion "
                   "branch (delete the transport, keep going on a buffer the transport may already have consumed from) is outside the model",
                   {"calls": r.get("calls")})
        for cl in r["calls"]:
            if cl["res"] == "found_foreign":
                cl["res"] = "found"


def table_obligation(ctx, table, consts, props="C04.Props", inst="C04_segmentation_invariance reveal mark hs dumped"):
    """prefix_table_wf re-checked by the kernel on the table dumped from the running code"""
    txt = ("From CJ Require Import Common.Base C04.Model %s.\n" % props +
           "Definition dumped : list pfx :=\n %s.\n"
           "Lemma dumped_table_wf : prefix_table_wfb dumped = true.\nProof. vm_compute. reflexivity. Qed.\n"
           "Lemma dumped_consts : (obfs4_min_handshake, obfs4_mark_start, N.of_nat obfs4_max_handshake, obfs4_mark_len, obfs4_mac_len) = "
           "(%d, %d, %d%%N, %d, %d)%%nat.\nProof. vm_compute. reflexivity. Qed.\n"
           "Definition dumped_instance := fun reveal mark hs => %s.\n"
           "Print Assumptions dumped_table_wf.\n"
           % (table_term(table), consts["min_handshake"], consts["mark_start"], consts["max_handshake"], consts["mark_len"], consts["mac_len"], inst))
    if "min_pad" in consts:
        # the padding range C04_obfs4_every_padding_length quantifies over is the running code's
        txt += ("From CJ Require Import C04.ProofsPad.\n"
                "Lemma dumped_pad_range : (obfs4_min_pad, N.of_nat obfs4_max_pad) = (%d%%nat, %d%%N).\nProof. vm_compute. reflexivity. Qed.\n"
                % (consts["min_pad"], consts["max_pad"]))
    rc, out = ctx.coq_eval("table_%s" % ctx.pid, txt)
    ctx.cov["obligations"] += 1
    ctx.cov["theorems"].append("dumped_table_wf (prefix_table_wf on the table of the running code)")
    if rc == 0 and "Closed under the global context" in out:
        ctx.cov["discharged"] += 1
        return True
    ctx.broken("proof-obligation", "prefix_table_wf / transport constants no longer hold for the values dumped from the running code: "
               + " ".join(out.split())[-400:], {"table": table, "obfs4": consts})
    return False


def coq_mismatches_retry(ctx, tag, hdr, terms, chk, shard, targets):
    """ctx.coq_mismatches with the terms dealt round-robin over the shards (expensive cases - 64 KiB of
    early data, 8 KiB obfs4 handshakes - are generated next to each other and would otherwise all land
    in one coqc process), retried once after a rebuild: C03 and C04 share coq/C04, and a clean rebuild
    by the other check (thorough tier) can remove a .vo while the generated case files are compiled."""
    n = len(terms)
    nsh = max(1, -(-n // shard))
    order = [i for k in range(nsh) for i in range(k, n, nsh)]
    dealt = [terms[i] for i in order]
    nb0 = len(ctx.brokens)
    mm = ctx.coq_mismatches(tag, hdr, dealt, chk, shard=shard)
    if mm is None:
        del ctx.brokens[nb0:]
        time.sleep(5)
        ctx.coq_make(targets)
        mm = ctx.coq_mismatches(tag + "r", hdr, dealt, chk, shard=shard)
    return None if mm is None else sorted(order[j] for j in mm)


def c05_not_ready():
    """why coq/C05's compiled relay model cannot be used as it is (None if it can)"""
    import lib
    d = os.path.join(lib.COQ, "C05")
    newest_src = 0
    for f in ("Model", "Proofs", "Sched", "Props"):
        v, vo = os.path.join(d, f + ".v"), os.path.join(d, f + ".vo")
        if not os.path.exists(v):
            return "coq/C05/%s.v does not exist" % f
        if not os.path.exists(vo):
            return "coq/C05/%s.vo is not built (building coq/C05 is property C05's job)" % f
        newest_src = max(newest_src, os.path.getmtime(v))
    base = os.path.join(lib.COQ, "Common", "Base.vo")
    for f in ("Model", "Proofs", "Sched", "Props"):
        vo = os.path.join(d, f + ".vo")
        if os.path.getmtime(vo) < os.path.getmtime(os.path.join(d, f + ".v")):
            return "coq/C05/%s.v is newer than its .vo (being edited; building coq/C05 is property C05's job)" % f
        if os.path.exists(base) and os.path.getmtime(vo) < os.path.getmtime(base):
            return "coq/C05/%s.vo is older than Common/Base.vo" % f
    order = ["Model", "Proofs", "Sched", "Props"]
    for a, b in zip(order, order[1:]):
        if os.path.getmtime(os.path.join(d, b + ".vo")) < os.path.getmtime(os.path.join(d, a + ".vo")):
            return "coq/C05/%s.vo is older than %s.vo it depends on" % (b, a)
    return None


def run_go(ctx, cases, test="^TestVerifC04$", files=None, timeout=1500):
    return ctx.go_inpkg(MOD, ".", files or FILES, test, cases, extra_overlay=EXTRA, timeout=timeout)


def run(ctx):
    ctx.assumptions += [
        "cryptography is a parameter of the model: TryReveal, the obfs4 mark and the obfs4 library handshake are supplied per case as observed on the real code",
        "a collision of a registered identifier with unrelated bytes (HMAC / revealed window / mark) is excluded by the hypothesis `unambiguous`",
        "kernel TCP behaviour is replaced by an in-memory pipe whose writer decides the segmentation; every Read returns one segment (<= 4096 bytes of it)",
        "the Go drivers, the case generator and the JSON->Gallina emitter are trusted",
    ]
    ctx.cov["trusted_base"] = [
        "Coq 8.16.1 kernel (coqc; coqchk in the thorough tier); vm_compute for evaluating the model on cases; no native_compute",
        "no axioms: every theorem prints 'Closed under the global context'",
        "hand-written model coq/C04/Model.v (handler loop, min/prefix/obfs4 WrapConnection) tied to /repo by the correspondence run",
        "obfs4 library (handshake, framing) and X25519/Elligator/AES-CTR/HMAC are assumed, exercised for real by the tie",
    ]
    ctx.cov["rule"] = ("every enabled wrapping transport and prefix id; the client's own write boundaries for every flush policy and port mode; "
                       "every 1-cut of flight+8 bytes and of the bare flight with a banner-first covert; every 2-cut (quick: min exhaustively, two prefix "
                       "sets around their boundaries + sample; thorough: all eleven sets exhaustively); early data 0..64 KiB; paced random k-cuts; obfs4 "
                       "handshakes cut at both ends; other registrations on the phantom. The oracle judges every connection; the model is evaluated by "
                       "coqc on every connection in the thorough tier and on a boundary-biased subset in the quick tier. Non-trivial = hash-distinct "
                       "(parameters, segment sizes, early-data size, registry) connection that was recognised by the real read loop and relayed")
    t0 = time.time()

    def lap(what):
        print("[C04 %5.1fs] %s" % (time.time() - t0, what), file=sys.stderr)
    # one build under the tree lock: theorems, the evaluator used by the correspondence, the examples
    # coq/C05 (the relay model, another builder's directory) is part of this property's project: it is
    # required by C04/PropsRelay.v (relay_gets_rest); it is cleaned and re-checked by C05's own run, not here.
    # If coq/C05 itself does not compile (its builder is mid-edit, or a change broke it) that is C05's alarm:
    # this check then re-verifies everything that does not depend on it and says so in the evidence.
    base_files = ["C04/Props.v", "C04/Run.v", "C04/Examples.v"]
    relay_files = ["C04/PropsRelay.v", "C04/ExamplesRelay.v"]
    stale = c05_not_ready()
    if stale:
        # never build another property's directory from here (a non-terminating proof attempt in it
        # would run under the shared lock): use coq/C05's compiled files only when they are current
        ctx.cov["relay_composition"] = "NOT re-checked in this run: " + stale
        ctx.coq_props(props_files=base_files)
    else:
        ctx.extra_dirs = ["C05"]
        nb0 = len(ctx.brokens)
        ctx.coq_props(props_files=base_files[:1] + relay_files[:1] + base_files[1:] + relay_files[1:])
        c05_err = [b for b in ctx.brokens[nb0:] if b["kind"] == "proof-obligation" and "C05/" in b["what"]]
        if c05_err:
            del ctx.brokens[nb0:]
            for k in ("obligations", "discharged"):
                ctx.cov[k] = 0
            ctx.cov["theorems"] = []
            ctx.cov["assumptions_printed"] = {}
            ctx.cov["relay_composition"] = ("NOT re-checked in this run: coq/C05 (owned by property C05) does not compile: "
                                            + c05_err[0]["what"][-300:])
            ctx.extra_dirs = []
            ctx.coq_props(props_files=base_files)
        else:
            ctx.cov["relay_composition"] = "re-checked: C04_relay_gets_rest, C04_relay_direction_faultfree (over coq/C05's relay model)"
            bad_h = ctx.hygiene(["C05"])
            if bad_h:
                ctx.broken("hygiene", "forbidden constructs in coq/C05: %s" % bad_h[:5])
    lap("coq props")
    rc, out, res = run_go(ctx, [])
    lap("go table dump")
    if not res or "table" not in res:
        ctx.broken("driver", "Go driver did not start: " + out[-1500:])
        return
    table, consts = res["table"], res["obfs4"]
    table_obligation(ctx, table, consts)
    lap("table obligation")
    cases = gen_cases(ctx, table, consts)
    for c in cases:
        if c.get("pad_len"):
            c["server_min"] = consts.get("server_min", 1)
    rc, out, res = run_go(ctx, cases)
    lap("go run of %d cases" % len(cases))
    if not res or len(res.get("results", [])) != len(cases):
        ctx.broken("driver", "Go driver did not produce results: " + out[-1500:])
        return
    results = res["results"]
    terms, idx = [], []
    # quick tier: the oracle looks at every connection; the model is evaluated (coqc costs ~40 ms of
    # CPU per connection, mostly for elaborating the byte literals) on all natural / early-data / paced /
    # obfs4 connections, on the 1-cuts at and around every boundary of the flight plus every third other
    # 1-cut, on the banner cases whose cut falls in the last bytes of the flight, and on a sample of
    # the 2-cuts.  The thorough tier sends every connection through coqc.
    skip = set()
    if ctx.tier == "quick":
        two = [i for i, c in enumerate(cases) if c.get("kind") == "2cut"]
        ctx.rng.shuffle(two)
        skip = set(two[600:])
        phase = ctx.rng.randrange(3)
        for i, c in enumerate(cases):
            fl = len(results[i].get("flight") or "") // 2
            if not fl or not c.get("cuts"):
                continue
            cut = c["cuts"][0]
            if c.get("kind") == "1cut-banner" and cut < fl - 8 and cut % 3 != phase:
                skip.add(i)
    for i, (c, r) in enumerate(zip(cases, results)):
        bad = oracle(ctx, c, r)
        scope_checks(ctx, r)
        kind = "%s/%s/%s" % (c["transport"], c.get("kind", "replay"), "ok" if not bad else "bad")
        ctx.count((c["transport"], c["prefix_id"], c["flush"], c["rand_port"], tuple(r.get("segs") or []), c["data_len"],
                   len(c["others"]), c["natural"]), nontrivial=bool(r.get("found")), kind=kind)
        if r.get("flight") is None or r.get("echo") is None or (i in skip and not bad):
            continue
        cmp_relay = c["transport"] != "obfs4"
        parts = [("hex", r["flight"])]
        if cmp_relay:
            parts.append(data_spec(c["data_seed"], c["data_len"]))
            late = data_spec(c["late_seed"], c["late_len"])
        else:
            late = "Lit (@nil N)"
        terms.append(conn_term(r, parts, late, cmp_relay))
        idx.append(i)
    for i in (0, len(cases) // 2, len(cases) - 1):
        r = results[i]
        ctx.sample({"case": {k: cases[i][k] for k in ("transport", "prefix_id", "cuts", "data_len", "natural", "kind")},
                    "observed": {k: r.get(k) for k in ("found_t", "segs", "reads", "status", "updates")}})
    kinds = ["obfs4/obfs4-pad/ok"] + ["%s/peer-%s/ok" % (t, p) for t in ("min", "prefix", "obfs4") for p in PEERS] + ["phantom:v4", "phantom:v6", "prefix/key0/ok", "prefix/key1/ok", "prefix/key2/ok", "min/sweep/ok", "prefix/sweep/ok", "obfs4/sweep/ok", "min/natural/ok", "min/1cut/ok", "min/1cut-banner/ok", "prefix/1cut-banner/ok", "min/2cut/ok", "prefix/natural/ok", "prefix/1cut/ok", "prefix/2cut/ok",
             "prefix/early/ok", "prefix/paced/ok", "obfs4/obfs4/ok", "min/fill/ok", "prefix/fill/ok", "min/bytewise/ok", "prefix/bytewise/ok", "min/paced/ok"]
    if not ctx.known and not os.environ.get("VERIF_C04_ONLY") and not ctx.replay:
        ctx.require_kinds(kinds)
    lap("oracle + emit")
    mm = coq_mismatches_retry(ctx, "conn", header(table), terms, "chk'", max(40, len(terms) // 16 + 1), ["C04/Run.vo"])
    lap("coq evaluation of %d cases" % len(terms))
    if mm:
        ctx.cov["mismatches"] += len(mm)
        i = idx[mm[0]]
        ctx.broken("correspondence", "handler model (coq/C04) and the implementation disagree on %d connection(s); first: %s cuts=%s"
                   % (len(mm), cases[i]["transport"], cases[i]["cuts"]),
                   {"case": cases[i], "observed": {k: results[i].get(k) for k in ("calls", "reads", "segs", "found_t", "status", "echo")}})
