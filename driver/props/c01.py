"""C01 — client and station derive the same phantom, port and transport secrets."""
import os
import re

from lib import gN, gbool, hexs, glist, gZ
from props import c14
from props import c14_ref as ref

HEADER = "From CJ Require Import Common.Base C14.Model C14.Run C01.Model C01.Run.\n"
TRS = {"min": 0, "obfs4": 1, "prefix": 2, "dtls": 3}


# ---------------------------------------------------------------- cases
def rand_secret(rng):
    r = rng.random()
    if r < 0.55:
        return bytes(rng.getrandbits(8) for _ in range(32))
    if r < 0.65:
        return bytes(32)
    if r < 0.75:
        return b"\xff" * 32
    if r < 0.85:
        return bytes(rng.getrandbits(8) for _ in range(rng.choice([0, 1, 16, 31, 33, 64, 65, 100])))
    return bytes([rng.choice([0x00, 0x7f, 0x80, 0xff])] * 32)


def rand_params(rng, tr):
    k = rng.choice(["absent", "default", "explicit", "explicit", "explicit"])
    p = {"kind": k, "rand": None, "prefix": None}
    if k == "explicit":
        p["rand"] = rng.choice([True, True, False, None])
        if tr == "prefix":
            p["prefix"] = rng.choice(list(range(10)) * 3 + [10, 22, None])
    return p


def gen_cases(ctx):
    rng = ctx.rng
    quick = ctx.tier == "quick"
    cases = []

    def add(secret, client_gen, lv, cfg, v6, tr, params, tag):
        cases.append({"secret": secret, "client_gen": client_gen, "lv": lv, "cfg": cfg, "v6": v6, "transport": tr,
                      "params": params, "tag": tag})

    for d in c14.replay_cases(ctx.replay):
        if "transport" in d:
            cfg = c14.from_json({"op": "select", "cfg": d.get("cfg"), "lv": 0, "v6": False})["cfg"]
            add(bytes.fromhex(d.get("secret", "")), False, d["lv"], cfg, d["v6"], d["transport"], d["params"], "replay")
            if d.get("dual"):
                cases[-1]["dual"] = d["dual"]
            if d.get("gens"):
                cases[-1]["gens"] = {g: c14.from_json({"op": "select", "cfg": cf, "lv": 0, "v6": False})["cfg"] for g, cf in d["gens"].items()}
                cases[-1]["gen"] = d["gen"]
    # the two checked-in subnet files, as the suite uses them
    w9, w1 = 9, 1
    shipped = {"groups": [{"w": w9, "nets": [c14.net(4, 0xC07ABE00, 24), c14.net(6, 0x200148A8687F0001 << 64, 64)], "rp": True},
                          {"w": w1, "nets": [c14.net(4, 0x8DDB0000, 16), c14.net(4, 0x23080000, 16)], "rp": False}]}
    # 1. every transport x every prefix id x randomise on/off/absent x libver 0-4, on the shipped-like configuration
    for tr in ("min", "obfs4", "prefix", "dtls"):
        for lv in (4, 3, 2, 1, 0):
            plist = [{"kind": "absent", "rand": None, "prefix": None}, {"kind": "default", "rand": None, "prefix": None},
                     {"kind": "explicit", "rand": True, "prefix": 0 if tr == "prefix" else None},
                     {"kind": "explicit", "rand": False, "prefix": 0 if tr == "prefix" else None}]
            if lv < 3:
                plist = plist[:1] + (plist[2:3] if quick else plist[1:])
            for p in plist:
                add(b"", lv >= 4, lv, shipped, rng.random() < 0.3, tr, p, "grid")
                if lv < 4:
                    cases[-1]["secret"] = rand_secret(rng)
    for pid in range(10):
        for rnd in (True, False):
            add(b"", True, 4, shipped, False, "prefix", {"kind": "explicit", "rand": rnd, "prefix": pid}, "prefix-ids")
    # 2. generated configurations (C14's generator: ties, one-address subnets, mixed families, leading zeros, ...)
    n = 40 if quick else 900
    for i in range(n):
        tr = rng.choice(["min", "obfs4", "prefix", "dtls"])
        lv = rng.choice([0, 1, 2, 3, 4, 4, 4, 3])
        clean = rng.random() < 0.7
        cfg = c14.rand_cfg(rng, clean=clean)
        cg = lv >= 4 and rng.random() < 0.6
        add(b"" if cg else rand_secret(rng), cg, lv, cfg if rng.random() < 0.96 else None, rng.random() < 0.35, tr,
            rand_params(rng, tr), "rand")
    # 3. legacy: seeds whose varint overflows (searched with the Python HKDF), groups without subnets
    nil_cfg = {"groups": [{"w": 5, "nets": None, "rp": False},
                          {"w": 1, "nets": [c14.net(4, 0x0A000000, 8), c14.net(6, 0xFD << 120, 8)], "rp": True},
                          {"w": 5, "nets": [c14.net(4, 0xAC100000, 12), c14.net(6, 0xFC << 120, 8)], "rp": False}]}
    for i in range(6 if quick else 60):
        for lv in (0, 1):
            add(rand_secret(rng), False, lv, nil_cfg, bool(i & 1), "min", {"kind": "absent", "rand": None, "prefix": None},
                "legacy-nil-group")
    simple = {"groups": [{"w": 1, "nets": [c14.net(4, 0x0A000000, 8), c14.net(6, 0xFD << 120, 8)], "rp": True}]}
    # 5. ONE dual-stack message through the real parseRegMessage (v4 and v6 support, both enable flags, IPv4/IPv6
    #    registrant): every registration it yields is compared with the client and the model for its family
    both = {"v4sup": True, "v6sup": True, "en4": True, "en6": True, "client6": False}
    duals = []
    for tr in ("obfs4", "min", "prefix", "dtls"):
        for lv in ((4, 3, 0) if quick else (4, 3, 2, 1, 0)):
            if tr == "prefix" and lv < 3:
                continue
            p = {"kind": "explicit", "rand": True, "prefix": 2 if tr == "prefix" else None} if lv >= 3 else \
                {"kind": "absent", "rand": None, "prefix": None}
            duals.append((tr, lv, p, dict(both)))
    duals.append(("obfs4", 4, {"kind": "default", "rand": None, "prefix": None}, dict(both, en4=False)))
    duals.append(("obfs4", 4, {"kind": "default", "rand": None, "prefix": None}, dict(both, client6=True)))
    duals.append(("min", 4, {"kind": "default", "rand": None, "prefix": None}, dict(both, en6=False)))
    if not quick:
        for i in range(40):
            tr = rng.choice(["obfs4", "obfs4", "min", "prefix", "dtls"])
            lv = rng.choice([0, 1, 2, 3, 4, 4])
            duals.append((tr, lv, rand_params(rng, tr), {"v4sup": rng.random() < 0.9, "v6sup": rng.random() < 0.9,
                                                        "en4": rng.random() < 0.9, "en6": rng.random() < 0.9,
                                                        "client6": rng.random() < 0.2}))
    for tr, lv, p, d in duals:
        cg = lv >= 4
        add(b"" if cg else rand_secret(rng), cg, lv, shipped if rng.random() < 0.5 else simple, False, tr, p, "dual")
        cases[-1]["dual"] = d
    # 4. port-range boundaries (corpus/C01/port_boundary.json, found offline): secrets whose first 16-bit draw of the
    #    port selector is max-min-1 (accepted: port 65534), max-min and max-min+1 (the published algorithm rejects both
    #    and draws again), for each transport's range and for library versions 3 and 4
    import json
    from lib import VERIF
    pb_path = os.path.join(VERIF, "corpus", "C01", "port_boundary.json")
    for e in json.load(open(pb_path))["port_boundary"] if os.path.exists(pb_path) else []:
        for tr in e["transports"]:
            if quick and tr == "dtls" and e["lv"] == 3:
                continue
            add(bytes.fromhex(e["secret"]), False, e["lv"], simple, False, tr,
                {"kind": "explicit", "rand": True, "prefix": 3 if tr == "prefix" else None},
                "port-top" if e["first_draw"] == e["span"] - 1 else "port-reject")
            cases[-1]["expect_port"] = 65534 if e["first_draw"] == e["span"] - 1 else None
    found = 0
    for i in range(200000):
        sec = bytes(rng.getrandbits(8) for _ in range(32))
        sd = station_seed(sec, 0)
        if ref.varint(sd)[1] < 0:
            for lv in (0, 1):
                add(sec, False, lv, simple, False, "min", {"kind": "absent", "rand": None, "prefix": None}, "varint-overflow")
            found += 1
            if found >= (2 if quick else 8):
                break
    # 7. two registrations in a row for two generations of ONE selector that list the same CIDR strings with opposite
    #    port-randomisation flags (the shape of generations 1 and 957 of the checked-in subnet files), both orders,
    #    libver 3/4, randomising transports: the port is part of the statement
    for k in range(4 if quick else 24):
        n4 = c14.net(4, rng.getrandbits(32) | (1 << 31), rng.choice([16, 20, 24]))
        n6 = c14.net(6, rng.getrandbits(128) | (1 << 127), rng.choice([48, 64, 96]))
        first = bool(k & 1)
        gens = {"1": {"groups": [{"w": 1, "nets": [dict(n4), dict(n6)], "rp": first}]},
                "957": {"groups": [{"w": 1, "nets": [dict(n4), dict(n6)], "rp": not first}]}}
        tr = ["min", "obfs4", "dtls", "prefix"][k % 4]
        for gen in ("1", "957", "1"):
            lv = rng.choice([3, 4])
            add(rand_secret(rng), False, lv, gens[gen], bool(k & 2), tr,
                {"kind": "explicit", "rand": True, "prefix": 4 if tr == "prefix" else None}, "gen-seq")
            cases[-1]["gens"] = gens
            cases[-1]["gen"] = int(gen)
    # 6. legacy (libver 0/1) and current derivations from concurrent station workers on ONE registration manager:
    #    "for any registration" includes registrations ingested at the same time
    items = []
    for k in range(16):
        items.append({"secret": rand_secret(rng) if k % 4 else bytes(rng.getrandbits(8) for _ in range(32)),
                      "lv": [0, 1, 1, 0, 4, 1, 0, 2][k % 8], "v6": bool(k & 1)})
    cases.append({"conc": {"workers": 8 if quick else 32, "rounds": 40 if quick else 400, "items": items}, "secret": b"",
                  "client_gen": False, "lv": 1, "cfg": shipped, "v6": False, "transport": "min",
                  "params": {"kind": "absent", "rand": None, "prefix": None}, "tag": "conc"})
    return cases


def to_json(c):
    d = {"secret": c["secret"].hex(), "client_gen": c["client_gen"], "lv": c["lv"], "cfg": c14.cfg_json(c["cfg"]),
         "v6": c["v6"], "transport": c["transport"], "params": c["params"]}
    if c.get("dual"):
        d["dual"] = c["dual"]
    if c.get("gens"):
        d["gens"] = {g: c14.cfg_json(cf) for g, cf in c["gens"].items()}
        d["gen"] = c["gen"]
    if c.get("conc"):
        d["conc"] = {"workers": c["conc"]["workers"], "rounds": c["conc"]["rounds"],
                     "items": [{"secret": it["secret"].hex(), "lv": it["lv"], "v6": it["v6"]} for it in c["conc"]["items"]]}
    return d


def brief(c, r=None):
    d = to_json(c)
    d["tag"] = c.get("tag")
    if r is not None:
        d["secret"] = r["secret"]
        d["client_gen"] = False
    return d


# ---------------------------------------------------------------- Gallina
def parse_wire(w):
    if not w or w == "absent":
        return None
    a, b = w.split(",")
    return (a.split("=")[1] == "true", int(b.split("=")[1]))


def hx(s):
    return hexs(bytes.fromhex(s or ""))


OUT = {"ok": 0, "err": 1, "panic": 2, "": 1}


def g_case(c, r):
    st, cl = r["station"], r["client"]
    wire = parse_wire(cl["wire"])
    gw = "None" if wire is None else "(Some (%s, %s))" % (gbool(wire[0]), gZ(wire[1]))
    obfs = c["transport"] == "obfs4"
    station = "(%s, %s, %s, %s, %s, %s)" % (gN(OUT[st["out"]]), hx(st["ip"]), gN(st["port"]),
                                            hx("" if obfs else st["tag"]), hx(st["priv"]), hx(st["node"]))
    ckeys = "None"
    if cl["seed"] and cl["reader"]:
        ckeys = "(Some (%s, %s))" % (hx(cl["seed"]), hx(cl["reader"]))
    cph = "(%s, %s, %s, %s)" % (gN(0 if cl["ip"] or (not cl["iperr"]) else (2 if cl["iperr"].startswith("panic") else 1)),
                                hx(cl["ip"]), gbool(cl["rp"]), gbool(cl["has_rp"]))
    cport = "(%s, %s)" % (gN(0 if not cl["perr"] else (2 if cl["perr"].startswith("panic") else 1)), gN(cl["port"]))
    cid = "None"
    if cl["tag"] or cl["priv"]:
        cid = "(Some (%s, %s, %s))" % (hx(cl["tag"]), hx(cl["priv"]), hx(cl["node"]))
    return ("{| v_secret := %s; v_lv := %s; v_cfg := %s; v_fam := %s; v_tr := %s; v_wire := %s; v_s_seed := %s; "
            "v_s_reader := %s; v_station := %s; v_c_keys := %s; v_c_phantom := %s; v_c_port := %s; v_c_ident := %s |}"
            % (hx(r["secret"]), gN(c["lv"]), c14.g_cfg(c["cfg"]), gN(6 if c["v6"] else 4), gN(TRS[c["transport"]]), gw,
               hx(st["seed"]), hx(st["reader"]), station, ckeys, cph, cport, cid))


# ---------------------------------------------------------------- direct oracle
def strip0(b):
    return b.lstrip(b"\0")


def legacy_excuse(c, seed):
    """the one constraint under which the version-0 client and the station differ (open known finding)"""
    if c["lv"] == 0 and ref.varint(seed)[1] < 0:
        return ["varint-overflow"]
    return []


def station_seed(secret, lv):
    h = ref.Hkdf(secret, b"conjure" * 4, b"")
    if lv < 4:
        h.read(104)
    return h.read(16)


def oracle(ctx, c, r):
    st, cl = r["station"], r["client"]
    lv = c["lv"]
    if st["out"] == "panic":
        ctx.fail("station-panic/%s" % c["transport"], "the station panicked while deriving the registration: " + st["err"][:160], brief(c, r))
        return "panic"
    if cl["seed"] and lv >= 4 and cl["seed"] != st["seed"]:
        ctx.fail("seed/libver>=4", "ConjureSeed differs: station %s, client %s" % (st["seed"], cl["seed"]), brief(c, r))
    if cl["seed"] and lv >= 4 and cl["reader"] and c["transport"] != "obfs4" and cl["reader"] != st["reader"]:
        ctx.fail("transport-reader/libver>=4", "transport reader streams differ after the seed", brief(c, r))
    if st["out"] != "ok":
        return "station-err"
    seed = bytes.fromhex(st["seed"])
    sip = bytes.fromhex(st["ip"])
    # phantom
    if not cl["ip"] and cl["iperr"]:
        ex = legacy_excuse(c, seed) if lv < 2 else []
        if ex:
            ctx.fail("legacy-v0/varint-overflow", "the version-0 client cannot select a phantom for a seed whose varint "
                     "overflows, the station selects %s" % st["ip"], brief(c, r))
            return "legacy-divergence/" + "+".join(ex)
        ctx.fail("phantom/client-cannot-select/libver=%d" % min(lv, 4), "the station derived phantom %s but the client entry point "
                 "failed: %s" % (st["ip"], cl["iperr"][:120]), brief(c, r))
        return "client-err"
    cip = bytes.fromhex(cl["ip"])
    same = (cip == sip) if lv >= 2 else (strip0(cip) == strip0(sip))
    if not same:
        ex = legacy_excuse(c, seed) if lv < 2 else []
        if ex:
            return "legacy-divergence/" + "+".join(ex)
        ctx.fail("phantom/libver=%d" % min(lv, 4), "phantom differs: station %s, client %s" % (st["ip"], cl["ip"]), brief(c, r))
        return "diff"
    # port: the dialer's policy on top of the transport's choice
    flag = cl["rp"] if cl["has_rp"] else False
    if c.get("gens") and c["cfg"] and len({bool(g["rp"]) for g in c["cfg"]["groups"]}) == 1:
        # the client's ClientConf says what this generation's subnets allow; a flag observed in this process may
        # come from another generation that lists the same CIDR string
        conf_flag = bool(c["cfg"]["groups"][0]["rp"])
        if cl["has_rp"] and cl["rp"] != conf_flag:
            ctx.fail("flag/client-entry-point/other-generation", "SelectPhantom grants port randomisation=%s for generation %d whose "
                     "subnets say %s (another generation lists the same CIDR string with the other flag and was used earlier)"
                     % (cl["rp"], c["gen"], conf_flag), brief(c, r))
        flag = conf_flag
    if lv < 3 or not flag:
        cport = 443
    elif cl["perr"]:
        cport = None
    else:
        cport = cl["port"]
    if cport is not None and cport != st["port"]:
        ctx.fail("port/%s/libver=%d" % (c["transport"], min(lv, 4)), "destination port differs: station %d, client %d (transport "
                 "choice %d, subnet allows randomisation: %s, wire params %s)" % (st["port"], cport, cl["port"], flag, cl["wire"]),
                 brief(c, r))
        return "diff"
    if lv >= 3 and flag and st["port"] >= 65535:
        ctx.fail("port-range/max-exclusive/%s" % c["transport"], "port %d: the range of a randomised port is [min, 65535), the "
                 "released clients never derive 65535 (they reject that draw and draw again)" % st["port"], brief(c, r))
    if c.get("tag") == "port-top" and st["port"] != 65534:
        ctx.fail("port-top/%s" % c["transport"], "the secret's first port draw is the largest of the transport's range, "
                 "expected port 65534, station chose %d" % st["port"], brief(c, r))
    if lv >= 3 and flag and not cl["perr"] and not (0 < st["port"] < 65536):
        ctx.fail("port-range", "port %d out of range" % st["port"], brief(c, r))
    # identification secrets
    if c["transport"] in ("min", "prefix") and cl["tag"] and cl["tag"] != st["tag"]:
        ctx.fail("tag/%s" % c["transport"], "connection tag differs: station %s, client %s" % (st["tag"], cl["tag"]), brief(c, r))
        return "diff"
    if c["transport"] == "obfs4" and cl["priv"] and (cl["priv"], cl["pub"], cl["node"]) != (st["priv"], st["pub"], st["node"]):
        ctx.fail("obfs4-keys", "obfs4 node keys differ between station and client", brief(c, r))
        return "diff"
    return "agree"


def dual_check(ctx, c, r, terms, tcases):
    """a dual-stack message through parseRegMessage: every registration it yields must be the single-family derivation
    (station), must agree with the client, and is handed to the model as a case of its own"""
    tw = r.get("twin")
    regs = r.get("dual_regs") or []
    kind = "dual/%s/%d-regs" % (c["transport"], len(regs)) if not r.get("dual_err") else "dual/%s/message-rejected" % c["transport"]
    ctx.cov["histogram"][kind] = ctx.cov["histogram"].get(kind, 0) + 1
    if tw is not None:
        c6 = dict(c, v6=True, client_gen=False, tag="dual-twin")
        c6.pop("dual", None)
        oracle(ctx, c6, tw)
        terms.append(g_case(c6, tw))
        tcases.append((c6, tw))
    for st, v6 in zip(regs, r.get("dual_v6") or []):
        single = tw if v6 else r
        if single is None:
            continue
        ref_st, cl = single["station"], r["client"]
        fam = "v6" if v6 else "v4"
        cf = dict(c, v6=v6, tag="dual-reg")
        cf["dual_reg_family"] = fam
        for k in ("ip", "port", "tag", "priv", "pub", "node"):
            if ref_st["out"] == "ok" and st[k] != ref_st[k]:
                ctx.fail("dual-stack/%s/%s" % (c["transport"], k), "the %s registration of a dual-stack message (through "
                         "parseRegMessage) has %s=%s, the same secret derived for that family alone gives %s"
                         % (fam, k, st[k], ref_st[k]), brief(c, r))
                break
        if c["transport"] == "obfs4" and cl["priv"] and (cl["priv"], cl["pub"], cl["node"]) != (st["priv"], st["pub"], st["node"]):
            ctx.fail("dual-stack/obfs4-keys/%s" % fam, "obfs4 node keys of the %s registration of a dual-stack message differ from the "
                     "client's: station priv %s node %s, client priv %s node %s" % (fam, st["priv"], st["node"], cl["priv"], cl["node"]),
                     brief(c, r))
        if c["transport"] in ("min", "prefix") and cl["tag"] and cl["tag"] != st["tag"]:
            ctx.fail("dual-stack/tag/%s" % fam, "connection tag of the %s registration of a dual-stack message differs from the client's" % fam,
                     brief(c, r))
        # the model: the registration of family f of a message is station(secret, f), nothing else
        rr = dict(single, station=dict(single["station"], **{k: st[k] for k in ("out", "ip", "port", "tag", "priv", "pub", "node")}))
        terms.append(g_case(cf, rr))
        tcases.append((cf, rr))


# ---------------------------------------------------------------- run
def run(ctx):
    ctx.assumptions += [
        "clients older than this tree (library versions 0-3 key schedule, the dialer's '443 unless the phantom subnet allows "
        "randomisation' policy of gotapdance) are modelled, not executed; their selectors (internal/compatability/v0|v1) are executed",
        "X25519 (obfs4 public key) and ECDSA/x509 (DTLS certificate from its HKDF stream) are outside the model: the obfs4 private "
        "key and node id are compared, the public key is compared station-vs-client on the Go side only",
        "SHA-256/HMAC/HKDF, crypto/rand.Int, math/rand, varint, sort.Slice (<= 12 elements): hand models shared with C14",
    ]
    ctx.cov["trusted_base"] = [
        "Coq 8.16.1 kernel (coqc; coqchk in the thorough tier); vm_compute for model evaluation; no native_compute",
        "no axioms: every theorem prints 'Closed under the global context'",
        "hand-written models coq/C01/Model.v and coq/C14/*.v tied to the code by the correspondence run",
        "Go overlay driver harness/inpkg/c01 (+ two export shims for unexported client state), case generator and emitter driver/props/c01.py",
    ]
    ctx.cov["rule"] = ("every transport x parameter form (absent/default/explicit, randomise on/off, every prefix id) x libver 0-4 on the "
                       "shipped-style configuration, plus generated configurations (C14's generator) x random and structured secrets "
                       "(client-generated through GenerateClientSharedKeys where the library version allows); a case is non-trivial "
                       "if hash-distinct; the histogram lists transport/libver/verdict classes")
    ctx.coq_props(extra_dirs=["C14"])
    rc, out = ctx.coq_make(["C01/Examples.vo", "C01/Refuted.vo"])
    if rc != 0:
        ctx.broken("examples", "coq/C01/Examples.v or Refuted.v no longer check: " + out[-500:])
    cases = gen_cases(ctx)
    js = [to_json(c) for c in cases]
    rc, out, res = ctx.go_inpkg(".", "pkg/station/lib", {"zz_verif_driver_test.go": "c01/derive_driver_test.go"},
                                "^TestVerifC01Derive$", js, timeout=900,
                                extra_overlay={"pkg/transports/wrapping/obfs4/zz_verif_export.go": "c01/obfs4_export.go",
                                               "pkg/transports/connecting/dtls/zz_verif_export.go": "c01/dtls_export.go"})
    if res is None or len(res) != len(js):
        ctx.broken("driver", "Go driver did not produce results (rc=%s): %s" % (rc, out[-1500:]))
        return
    terms = []
    tcases = []
    for c, r in zip(cases, res):
        if c.get("conc"):
            ctx.count(("conc", r.get("conc_runs")), nontrivial=True, kind="conc/station")
            if r.get("conc_diffs"):
                legacy = "libver 0" in r["conc_diff"] or "libver 1" in r["conc_diff"]
                ctx.fail("concurrent-station-differs-from-serial/%s" % ("libver<2" if legacy else "libver>=2"),
                         "%d of %d registrations built by concurrent station workers differ from the serial derivation (which is "
                         "what the client computes); first: %s" % (r["conc_diffs"], r["conc_runs"], r["conc_diff"]), brief(c))
            continue
        if c.get("dual"):
            dual_check(ctx, c, r, terms, tcases)
        verdict = oracle(ctx, c, r)
        tcases.append((c, r))
        ctx.count((to_json(c), r["secret"]), nontrivial=True, kind="%s/lv%d/%s" % (c["transport"], c["lv"], verdict))
        tk = "tag:%s/%s" % (c.get("tag"), verdict.split("/")[0])
        ctx.cov["histogram"][tk] = ctx.cov["histogram"].get(tk, 0) + 1
        pk = "params:%s/%s" % (c["transport"], c["params"]["kind"])
        ctx.cov["histogram"][pk] = ctx.cov["histogram"].get(pk, 0) + 1
        terms.append(g_case(c, r))
    for c, r in list(zip(cases, res))[:2]:
        ctx.sample({"case": brief(c, r), "station": {k: r["station"][k] for k in ("out", "ip", "port", "tag", "seed")},
                    "client": {k: r["client"][k] for k in ("ip", "port", "tag", "seed", "wire")}})
    need = ["%s/lv%d/agree" % (t, lv) for t in ("min", "obfs4", "dtls") for lv in range(5)]
    need += ["prefix/lv3/agree", "prefix/lv4/agree", "prefix/lv1/station-err", "min/lv0/legacy-divergence/varint-overflow",
             "tag:varint-overflow/agree", "tag:legacy-nil-group/agree", "tag:port-top/agree", "tag:port-reject/agree", "tag:gen-seq/agree", "conc/station", "dual/obfs4/2-regs",
             "dual/min/2-regs", "dual/prefix/2-regs", "dual/dtls/2-regs", "dual/obfs4/1-regs"]
    need += ["params:%s/%s" % (t, k) for t in TRS for k in ("absent", "default", "explicit")]
    ctx.require_kinds(need)
    mm = ctx.coq_mismatches("der", HEADER, terms, "chk", shard=max(4, (len(terms) + 15) // 16), need_vo=["C01/Run.vo"])
    if mm:
        ctx.cov["mismatches"] += len(mm)
        c, r = tcases[mm[0]]
        shown = ctx.coq_show("mm", HEADER, "show %s" % g_case(c, r))
        flags = re.findall(r"\b(true|false)\b", shown)[:4]
        parts = [n for n, f in zip(("station-key-schedule", "station-derivation", "client-key-schedule", "client-derivation"), flags)
                 if f == "false"] or ["unknown"]
        what = ("the derivation no longer matches the reference for client library versions 0-4 (%s) on %d case(s): deployed "
                "clients computing the published algorithm are stranded; first: station %s, client ip=%s port=%s ; model: %s"
                % (", ".join(parts), len(mm), {k: r["station"][k] for k in ("out", "ip", "port", "err")}, r["client"]["ip"],
                   r["client"]["port"], shown[-260:]))
        # the reference for deployed versions IS the model: the mismatching registration is the failing input
        ctx.fail("derivation-moved/" + "+".join(parts), what, brief(c, r))
        ctx.broken("correspondence", what, {"cases": [brief(c, r)], "observed": r})
