"""C09 — concurrent ingest, lookup, activation and expiry behave like some serial order;
overload drops instead of blocking; bounded shutdown."""
import ipaddress
import itertools
import os
import re
import time
import traceback
from concurrent.futures import ThreadPoolExecutor

from lib import gN, gbool, gnat, glist, gopt, hexs

HEADER = "From CJ Require Import Common.Base C09.Model C09.Run.\n"
DRIVER = {"zz_verif_driver_test.go": "c09/sched_driver_test.go", "zz_verif_reload_test.go": "c09/reload_driver_test.go"}
HEADER_R = "From CJ Require Import Common.Base C09.Model C09.ModelR C09.RunR.\n"
PKG = "pkg/station/lib"

# ---------------------------------------------------------------- menus
POLICIES = [
    {"covert_block": [], "covert_allow": [], "phantom_block": []},
    {"covert_block": ["10.0.0.0/8"], "covert_allow": [], "phantom_block": ["192.0.2.64/26"]},
    {"covert_block": [], "covert_allow": ["8.8.8.0/24"], "phantom_block": []},
]
# raw form as the client sends it, resolved form as ParseOrResolveBlocklisted rewrites it (None: rejected)
COVERTS = [("[10.1.1.1]:80", "10.1.1.1:80"), ("[8.8.8.8]:53", "8.8.8.8:53"),
           ("[192.0.2.77]:443", "192.0.2.77:443"), ("8.8.8.8", None)]
PHANTOMS = ["192.0.2.1", "2001:db8::1", "192.0.2.66"]
POINTS = {"ingest:after-exists": 1, "ingest:after-track": 2, "ingest:after-covert": 3, "probe": 4, "end": 5,
          "sweep:collected": 6, "sweep:before-remove": 7, "sweep:idle": 8, "handler:found": 9, "disabled": 10,
          "age": 11, "publish": 14}
AGES = [299 * 10**9, 660 * 10**9, 25200 * 10**9]


def cov_ok(ci, pol):
    raw, res = COVERTS[ci]
    if res is None:
        return False
    ip = ipaddress.ip_address(res.rsplit(":", 1)[0])
    if pol["covert_allow"]:
        return any(ip in ipaddress.ip_network(n) for n in pol["covert_allow"])
    return not any(ip in ipaddress.ip_network(n) for n in pol["covert_block"])


def ph_blocked(ph, pol):
    ip = ipaddress.ip_address(ph)
    return any(ip.version == ipaddress.ip_network(n).version and ip in ipaddress.ip_network(n)
               for n in pol["phantom_block"])


def mk_reg(secret, phi, ci, source, prescanned, live, transport=0):
    return {"secret": secret, "phi": phi, "ci": ci, "source": source, "prescanned": prescanned, "live": live,
            "transport": transport}


def finish_regs(regs):
    """assign key indices: (secret, phantom) -> key"""
    keys = {}
    for r in regs:
        k = (r["secret"], r["phi"])
        r["key"] = keys.setdefault(k, len(keys))
    return regs


def reg_json(r):
    return {"key": r["key"], "secret": r["secret"], "phantom": PHANTOMS[r["phi"]], "port": 443,
            "covert": COVERTS[r["ci"]][0], "source": r["source"], "prescanned": r["prescanned"],
            "live": r["live"], "transport": r["transport"]}


def pols_of(c):
    return (c or {}).get("policies") or POLICIES


def msg_term(r, pols=None):
    pols = pols or POLICIES
    v4 = ":" not in PHANTOMS[r["phi"]]
    return "(mkMsg %s %s %s %s %s %s %s %s)" % (
        gnat(r["key"]), gnat(r["ci"]), gbool(r["transport"] == 0), gbool(r["source"] == "detector"),
        glist([gbool(ph_blocked(PHANTOMS[r["phi"]], p)) for p in pols]),
        glist([gbool(cov_ok(r["ci"], p)) for p in pols]),
        gbool((not r["prescanned"]) and v4), gbool(r["live"]))


# ---------------------------------------------------------------- scenario construction
def scenario(regs, extra_threads, schedule, share=False, tag=""):
    regs = finish_regs([dict(r) for r in regs])
    threads = [{"kind": "worker", "reg": i, "to": 0} for i in range(len(regs))] + extra_threads
    return {"mode": "sched", "regs": regs, "threads": threads, "schedule": schedule, "share": share, "tag": tag}


def interleavings(counts):
    """all sequences over thread ids where thread i occurs counts[i] times"""
    pool = []
    for t, n in enumerate(counts):
        pool += [t] * n
    seen = set()

    def rec(prefix, rem):
        if not any(rem):
            yield list(prefix)
            return
        for t in range(len(rem)):
            if rem[t]:
                rem[t] -= 1
                prefix.append(t)
                yield from rec(prefix, rem)
                prefix.pop()
                rem[t] += 1
    yield from rec([], list(counts))


def random_interleaving(rng, counts):
    pool = []
    for t, n in enumerate(counts):
        pool += [t] * n
    rng.shuffle(pool)
    return pool


def steps_of(th):
    return {"worker": 5, "handler": 2, "reload": 1}.get(th["kind"], 0)


def sched_json(seq):
    out = []
    for x in seq:
        if isinstance(x, tuple):
            out.append({"t": -1, "age_key": x[1], "age_ns": x[2]})
        else:
            out.append({"t": x})
    return out


def random_reg(rng, secrets, phis):
    src = rng.choice(["detector", "api", "api", "prescan"])
    return mk_reg(rng.choice(secrets), rng.choice(phis), rng.choice([0, 1, 1, 2, 3]), src,
                  rng.random() < (0.8 if src == "prescan" else 0.2), rng.random() < 0.2,
                  9 if rng.random() < 0.05 else 0)


def gen_sched_cases(ctx):
    rng = ctx.rng
    quick = ctx.tier == "quick"
    cases = []
    # (1) two workers, the same key, every interleaving — the check-then-track window
    pairs = [
        (mk_reg(1, 0, 0, "detector", False, False), mk_reg(1, 0, 1, "detector", False, False)),  # blocked covert vs good
        (mk_reg(1, 0, 1, "api", False, False), mk_reg(1, 0, 1, "api", False, False)),            # true duplicates
        (mk_reg(1, 0, 1, "api", False, True), mk_reg(1, 0, 2, "prescan", True, False)),          # live vs prescanned
        (mk_reg(1, 1, 2, "detector", False, False), mk_reg(1, 1, 1, "api", False, False)),       # v6: no probe
        (mk_reg(1, 0, 1, "api", False, False), mk_reg(2, 0, 0, "api", False, False)),            # different keys
    ]
    for pi, (a, b) in enumerate(pairs):
        ils = list(interleavings([5, 5]))
        if quick and pi >= 3:
            ils = rng.sample(ils, 80)
        for il in ils:
            cases.append(scenario([a, b], [], sched_json(il), share=(pi == 0 and len(cases) % 7 == 0), tag="pair%d" % pi))
    # (2) two workers of one key and a connection handler: exhaustive in thorough, sampled in quick
    a, b = pairs[0]
    h = [{"kind": "handler", "reg": 0, "to": 0}]
    alls = list(interleavings([5, 5, 2]))
    if quick:
        alls = rng.sample(alls, 250)
    for il in alls:
        cases.append(scenario([a, b], h, sched_json(il), tag="pair+handler"))
    # (3) three workers (two share a key), sampled; exhaustive over 4 steps each in thorough
    trio = [mk_reg(1, 0, 1, "api", False, False), mk_reg(1, 0, 0, "detector", True, False), mk_reg(2, 0, 1, "prescan", True, False)]
    if quick:
        for _ in range(150):
            cases.append(scenario(trio, [], sched_json(random_interleaving(rng, [5, 5, 5])), tag="trio"))
    else:
        for il in interleavings([4, 4, 4]):
            cases.append(scenario(trio, [], sched_json(il), tag="trio"))
    # (4) workers against the sweeper with ageing, a handler and a reload (random)
    for _ in range(400 if quick else 6000):
        n = rng.choice([2, 2, 3])
        regs = [random_reg(rng, [1, 2], [0, 0, 1, 2]) for _ in range(n)]
        if rng.random() < 0.6:
            regs[1]["secret"], regs[1]["phi"] = regs[0]["secret"], regs[0]["phi"]
        regs = finish_regs(regs)
        extra = []
        kinds = rng.choice([["sweeper"], ["sweeper", "handler"], ["handler", "reload"], ["sweeper", "handler", "reload"],
                            ["reload"], ["handler", "handler"]])
        counts = [5] * n
        for kd in kinds:
            if kd == "sweeper":
                extra.append({"kind": "sweeper", "reg": 0, "to": rng.choice([1, 2])})
                counts.append(rng.choice([4, 6, 8]))
            elif kd == "handler":
                extra.append({"kind": "handler", "reg": rng.randrange(n), "to": 0})
                counts.append(2)
            else:
                extra.append({"kind": "reload", "reg": 0, "to": rng.choice([1, 2])})
                counts.append(1)
        seq = random_interleaving(rng, counts)
        if "sweeper" in kinds:
            nk = len({r["key"] for r in regs})
            for _ in range(rng.choice([1, 2, 3])):
                seq.insert(rng.randrange(len(seq) + 1), ("age", rng.randrange(nk), rng.choice(AGES)))
        cases.append(scenario(regs, extra, sched_json(seq), share=rng.random() < 0.05, tag="mixed"))
    # (5) targeted: a registration is swept while its worker is still in flight, a second worker re-tracks it
    a, b = mk_reg(1, 0, 1, "api", False, False), mk_reg(1, 0, 2, "api", False, False)
    sw = [{"kind": "sweeper", "reg": 0, "to": 2}, {"kind": "handler", "reg": 0, "to": 0}]
    base = [0, ("age", 0, AGES[1]), 2, 2, 2, 1, 1, 0, 0, 0, 0, 3, 1, 1, 1, 3, ("age", 0, AGES[2]), 2, 2, 2, 2]
    cases.append(scenario([a, b], sw, sched_json(base), tag="swept-in-flight"))
    for _ in range(30 if quick else 300):
        seq = list(base)
        for _ in range(rng.choice([1, 2, 3])):
            i, j = rng.randrange(len(seq)), rng.randrange(len(seq))
            seq[i], seq[j] = seq[j], seq[i]
        cases.append(scenario([a, b], sw, sched_json(seq), tag="swept-in-flight"))
    # the same with the second delivery carrying a covert the policy rejects, looked up right after the first ingest completes
    b2 = mk_reg(1, 0, 3, "api", False, False)
    base2 = [0, ("age", 0, AGES[1]), 2, 2, 2, 1, 0, 0, 0, 0, 3, 3, 1, 1, 1, 2, 2]
    cases.append(scenario([a, b2], sw, sched_json(base2), tag="swept-in-flight"))
    for _ in range(20 if quick else 200):
        seq = list(base2)
        i, j = rng.randrange(5, len(seq)), rng.randrange(5, len(seq))
        seq[i], seq[j] = seq[j], seq[i]
        cases.append(scenario([a, b2], sw, sched_json(seq), tag="swept-in-flight"))
    # (6) the window between "valid" and "announced": the validating worker is given extra turns (it has
    #     none left if validate+announce is one critical section), a handler looks up and activates, or the
    #     registration expires and is received again, in between
    pa, pb2 = mk_reg(1, 0, 1, "api", True, False), mk_reg(1, 0, 2, "api", True, False)
    hw = [{"kind": "handler", "reg": 0, "to": 0}]
    t1 = [0, 0, 0, 1, 1, 0, 0]
    cases.append(scenario([pa], hw, sched_json(t1), tag="publish-window"))
    sw1 = [{"kind": "sweeper", "reg": 0, "to": 1}, {"kind": "handler", "reg": 0, "to": 0}]
    t2 = [0, 0, 0, ("age", 0, AGES[1]), 2, 2, 2, 1, 1, 1, 0, 0, 3, 3, 1]
    cases.append(scenario([pa, pb2], sw1, sched_json(t2), tag="publish-window"))
    for _ in range(12 if quick else 100):
        seq = list(t2)
        i, j = rng.randrange(3, len(seq)), rng.randrange(3, len(seq))
        seq[i], seq[j] = seq[j], seq[i]
        cases.append(scenario([pa, pb2], sw1, sched_json(seq), tag="publish-window"))
    # (7) reload as an operation: every interleaving of one ingest with two reloads, sampled for two ingests;
    #     menu X toggles the covert allowlist but judges the registrations the same way in every section,
    #     menu Y (the open finding) refuses one registration by covert address in one policy and by phantom in the other
    menu_x = [{"covert_block": ["10.0.0.0/8"], "covert_allow": [], "phantom_block": ["192.0.2.64/26"]},
              {"covert_block": [], "covert_allow": ["8.8.8.0/24", "192.0.2.0/24"], "phantom_block": ["192.0.2.64/26"]},
              {"covert_block": ["10.0.0.0/8", "172.16.0.0/12"], "covert_allow": [], "phantom_block": ["192.0.2.64/26"]}]
    menu_y = [{"covert_block": [], "covert_allow": [], "phantom_block": ["192.0.2.64/26"]},
              {"covert_block": ["10.0.0.0/8"], "covert_allow": [], "phantom_block": []},
              {"covert_block": [], "covert_allow": [], "phantom_block": ["192.0.2.64/26"]}]   # = entry 0 (the driver's manager owns entry 0's object)
    rl = [{"kind": "reload", "reg": 0, "to": 1}, {"kind": "reload", "reg": 0, "to": 2}]
    singles = [mk_reg(1, 1, 1, "detector", True, False), mk_reg(1, 1, 0, "api", True, False), mk_reg(1, 2, 1, "detector", True, False),
               mk_reg(1, 0, 2, "api", False, False)]
    for si, a in enumerate(singles):
        ils = list(interleavings([5, 1, 1]))
        if quick and si >= 2:
            ils = rng.sample(ils, 14)
        for il in ils:
            cs = scenario([a], rl, sched_json(il), tag="reload-window")
            cs["policies"] = menu_x
            cases.append(cs)
    for _ in range(120 if quick else 2000):
        a, b = rng.choice(singles), rng.choice(singles)
        b = dict(b, secret=rng.choice([1, 2]))
        cs = scenario([a, b], rl, sched_json(random_interleaving(rng, [5, 5, 1, 1])), tag="reload-window")
        cs["policies"] = menu_x
        cases.append(cs)
    ry = [{"kind": "reload", "reg": 0, "to": 1}, {"kind": "reload", "reg": 0, "to": 2}]
    for a in (mk_reg(1, 2, 0, "detector", True, False), mk_reg(1, 2, 0, "api", True, False)):
        for il in interleavings([5, 1, 1]):
            cs = scenario([a], ry, sched_json(il), tag="reload-cross-section")
            cs["policies"] = menu_y
            cases.append(cs)
    # (8) three-way: lookup, expiry + re-delivery and a reload between a handler's lookup and its activation
    ta, tb = mk_reg(1, 0, 1, "api", True, False), mk_reg(1, 0, 2, "detector", True, False)
    tw = [{"kind": "sweeper", "reg": 0, "to": 1}, {"kind": "handler", "reg": 0, "to": 0}, {"kind": "reload", "reg": 0, "to": 1}]
    base3 = [0, 0, 0, 0, 3, ("age", 0, AGES[1]), 2, 2, 2, 4, 1, 1, 1, 1, 3, 2]
    cases.append(scenario([ta, tb], tw, sched_json(base3), tag="three-way"))
    for _ in range(25 if quick else 400):
        seq = list(base3)
        for _ in range(rng.choice([1, 2])):
            i, j = rng.randrange(3, len(seq)), rng.randrange(3, len(seq))
            seq[i], seq[j] = seq[j], seq[i]
        cases.append(scenario([ta, tb], tw, sched_json(seq), tag="three-way"))
    for c in (ctx.replay or {}).get("sched_cases", []):
        cases.insert(0, c)
    return cases


# ---------------------------------------------------------------- observation -> Gallina
def thread_term(c, th):
    if th["kind"] == "worker":
        return "(TWorker %s W0)" % msg_term(c["regs"][th["reg"]], pols_of(c))
    if th["kind"] == "sweeper":
        return "(TSweeper (S0 %s))" % gnat(max(1, th["to"]))
    if th["kind"] == "handler":
        return "(THandler %s H0)" % gnat(c["regs"][th["reg"]]["key"])
    return "(TReload %s false)" % gnat(th["to"])


def covert_state(c, entry):
    """is the covert string of the tracked object its resolved form?"""
    if entry["obj"] < 0:
        return False
    raw, res = COVERTS[c["regs"][entry["obj"]]["ci"]]
    if entry["covert"] == raw:
        return False
    if res is not None and entry["covert"] == res:
        return True
    return None


def key_of_obj(c, o):
    return c["regs"][o]["key"] if 0 <= o < len(c["regs"]) else 999


def case_term(c, r, split):
    nkeys = len({x["key"] for x in c["regs"]})
    events_by_step = {}
    for e in r["events"]:
        events_by_step.setdefault(e["step"], []).append(e)
    steps = []
    for i, (st, ob) in enumerate(zip(c["schedule"], r["steps"])):
        if st["t"] < 0:
            act = "Age %s %s" % (gnat(st["age_key"]), gN(st["age_ns"]))
        else:
            act = "Run %s %s" % (gnat(st["t"]), gnat(ob["removed"] if ob["removed"] >= 0 else 999))
        pt = POINTS.get(ob["point"], 12 if ob["point"].startswith("panic") else 13)
        snaps = []
        for e in ob["snap"]:
            cs = covert_state(c, e)
            snaps.append("(%s, %s, %s, %s, %s, %s)" % (gopt(e["obj"] if e["obj"] >= 0 else None, gnat) if e["obj"] >= -1 else "(Some 998%nat)",
                                                       gbool(e["valid"]), gnat(e["regcount"]),
                                                       gbool(bool(cs)) if cs is not None else "false",
                                                       gbool(e["timeout"]), gbool(e["used"])))
        evs = []
        kind = c["threads"][st["t"]]["kind"] if 0 <= st["t"] < len(c["threads"]) else ""
        if kind == "handler" and ob.get("found"):
            hk = c["regs"][c["threads"][st["t"]]["reg"]]["key"]
            for o, cv in zip(ob["found"], ob["found_covert"]):
                if key_of_obj(c, o) == hk:
                    res = COVERTS[c["regs"][o]["ci"]][1]
                    evs.append("(2%%nat, %s, %s, %s)" % (gnat(hk), gnat(o), gbool(res is not None and cv == res)))
        for e in events_by_step.get(i, []):
            o = e["obj"]
            if e["kind"] == "announce":
                res = COVERTS[c["regs"][o]["ci"]][1] if 0 <= o < len(c["regs"]) else None
                evs.append("(0%%nat, %s, %s, %s)" % (gnat(key_of_obj(c, o)), gnat(o if o >= 0 else 998),
                                                gbool(res is not None and e["covert"] == res)))
            else:
                evs.append("(1%%nat, %s, 0%%nat, false)" % gnat(key_of_obj(c, o)))
        steps.append("(%s, %s, %s, %s)" % (act, gnat(pt), glist(snaps), glist(evs)))
    s = r["stats"]
    return "(%s, %s, %s, %s, %s, (%s, %s, %s, %s, (%d)%%Z), %s)" % (
        gbool(split), gbool(c["share"]), glist([thread_term(c, t) for t in c["threads"]]),
        glist([gnat(k) for k in range(nkeys)]), glist(steps),
        gnat(s["dup"]), gnat(s["err"]), gnat(s["blocked"]), gnat(s["new"]), s["active"], gnat(r["shares"]))



# ---------------------------------------------------------------- compact byte encoding (decoded by C09.Run.dec_case)
def _b(x):
    return max(0, min(255, int(x)))


def enc_thread(c, th):
    if th["kind"] == "worker":
        r = c["regs"][th["reg"]]
        v4 = ":" not in PHANTOMS[r["phi"]]
        pols = pols_of(c)
        out = [0, r["key"], r["ci"], int(r["transport"] == 0), int(r["source"] == "detector"), len(pols)]
        out += [int(ph_blocked(PHANTOMS[r["phi"]], p)) for p in pols]
        out += [int(cov_ok(r["ci"], p)) for p in pols]
        out += [int((not r["prescanned"]) and v4), int(r["live"])]
        return out
    if th["kind"] == "sweeper":
        return [1, max(1, th["to"])]
    if th["kind"] == "handler":
        return [2, c["regs"][th["reg"]]["key"]]
    return [3, th["to"]]


def enc_case(c, r, split):
    nkeys = len({x["key"] for x in c["regs"]})
    out = [int(split), int(c["share"]), len(c["threads"])]
    for th in c["threads"]:
        out += enc_thread(c, th)
    events_by_step = {}
    for e in r["events"]:
        events_by_step.setdefault(e["step"], []).append(e)
    steps = list(zip(c["schedule"], r["steps"]))
    out += [nkeys, len(steps)]
    for i, (st, ob) in enumerate(steps):
        if st["t"] < 0:
            out += [1, st["age_key"], AGES.index(st["age_ns"])]
        else:
            out += [0, st["t"], ob["removed"] if ob["removed"] >= 0 else 255]
        out.append(POINTS.get(ob["point"], 12 if ob["point"].startswith("panic") else 13))
        for e in ob["snap"]:
            cs = covert_state(c, e)
            flags = (1 if e["valid"] else 0) | (2 if cs else 0) | (4 if e["timeout"] else 0) | (8 if e["used"] else 0)
            out += [e["obj"] + 1 if e["obj"] >= 0 else (0 if e["obj"] == -1 else 250), flags, _b(e["regcount"])]
        evs = []
        kind = c["threads"][st["t"]]["kind"] if 0 <= st["t"] < len(c["threads"]) else ""
        if kind == "handler" and ob.get("found"):
            hk = c["regs"][c["threads"][st["t"]]["reg"]]["key"]
            for o, cv in zip(ob["found"], ob["found_covert"]):
                if key_of_obj(c, o) == hk:
                    res = COVERTS[c["regs"][o]["ci"]][1]
                    evs += [2, hk, o, int(res is not None and cv == res)]
        for e in events_by_step.get(i, []):
            o = e["obj"]
            if e["kind"] == "announce":
                res = COVERTS[c["regs"][o]["ci"]][1] if 0 <= o < len(c["regs"]) else None
                evs += [0, _b(key_of_obj(c, o)), o if o >= 0 else 250, int(res is not None and e["covert"] == res)]
            else:
                evs += [1, _b(key_of_obj(c, o)), 0, 0]
        out.append(len(evs) // 4)
        out += evs
    s = r["stats"]
    out += [_b(s["dup"]), _b(s["err"]), _b(s["blocked"]), _b(s["new"]), _b(s["active"]) if s["active"] >= 0 else 255, _b(r["shares"])]
    return bytes(_b(x) for x in out)

# ---------------------------------------------------------------- direct oracle on the observables
def passes0(r, pol=None):
    pol = pol or POLICIES[0]
    return r["transport"] == 0 and not (r["source"] != "detector" and ph_blocked(PHANTOMS[r["phi"]], pol))


def admitted0(r, pe=None, pc=None, pl=None):
    """admission with the policy of each section given separately (serial: all three the same)"""
    pc = pc or POLICIES[0]
    pl = pl or pc
    v4 = ":" not in PHANTOMS[r["phi"]]
    needs = (not r["prescanned"]) and v4
    return cov_ok(r["ci"], pc) and (not needs or not r["live"]) and \
        not (r["source"] == "detector" and ph_blocked(PHANTOMS[r["phi"]], pl))


def _spec_run(regs, order, pol_of):
    """the 10-line sequential specification; pol_of(w) -> (early, covert, late) policies of worker w's sections"""
    table, ann = {}, []
    for w in order:
        r = regs[w]
        pe, pc, pl = pol_of(w)
        if not passes0(r, pe):
            continue
        k = r["key"]
        if k in table:
            table[k][2] += 1
            continue
        ok = admitted0(r, pe, pc, pl)
        table[k] = [ok, r["ci"] if cov_ok(r["ci"], pc) else None, 1]
        if ok:
            ann.append((k, r["ci"]))
    return (tuple(sorted((k, v[0], v[1], v[2]) for k, v in table.items())), tuple(sorted(ann)))


def serial_outcomes(regs, reloads=(), pols=None):
    """every serial order of the ingests AND the reloads (each ingest entirely under the policy in force) -> outcome"""
    pols = pols or POLICIES
    outs = set()
    ops = [("w", i) for i in range(len(regs))] + [("r", t) for t in reloads]
    for perm in set(itertools.permutations(ops)):
        cur, at = 0, {}
        for kind, x in perm:
            if kind == "r":
                cur = x
            else:
                at[x] = cur
        order = [x for kind, x in perm if kind == "w"]
        outs.add(_spec_run(regs, order, lambda w: (pols[at[w]],) * 3))
    return outs


def section_mixed_outcomes(regs, reloads, pols):
    """superset the model allows: every read section of every ingest under any policy of the history"""
    outs = set()
    idx = sorted({0} | set(reloads))
    per = list(itertools.product(idx, repeat=3))
    for perm in itertools.permutations(range(len(regs))):
        for assign in itertools.product(per, repeat=len(regs)):
            outs.add(_spec_run(regs, perm, lambda w: tuple(pols[i] for i in assign[w])))
    return outs


def oracle(ctx, c, r, idx):
    kinds = [t["kind"] for t in c["threads"]]
    tag = c.get("tag", "")
    brief = {"tag": tag, "regs": [reg_json(x) for x in c["regs"]], "threads": c["threads"], "schedule": c["schedule"], "share": c["share"]}
    replay = {"sched_cases": [c]}
    if r.get("error"):
        ctx.fail("sched:hang", "a thread of the pipeline did not reach its next schedule point (deadlock): %s" % r["error"], replay)
    ann_live = {}     # key -> announced in the current lifetime
    ever_new = set()
    removed_ever = set()
    events_by_step = {}
    for e in r["events"]:
        events_by_step.setdefault(e["step"], []).append(e)
    for i, (st, ob) in enumerate(zip(c["schedule"], r["steps"])):
        if ob["point"].startswith("panic"):
            who = kinds[st["t"]] if 0 <= st["t"] < len(kinds) else "?"
            ctx.fail("sched:panic/" + who, "%s thread panicked: %s" % (who, ob["point"][:200]), replay)
        if ob["removed"] >= 0:
            ann_live[ob["removed"]] = False
            removed_ever.add(ob["removed"])
        if ob["point"] == "publish":
            # a publication outside the registration lock is a schedule point of its own; what matters is the order below
            ctx.cov["histogram"]["point/publish-outside-lock"] = ctx.cov["histogram"].get("point/publish-outside-lock", 0) + 1
        for e in events_by_step.get(i, []):
            k = key_of_obj(c, e["obj"])
            if e["kind"] == "announce":
                if ann_live.get(k):
                    ctx.fail("announce-twice", "registration key %d announced to the detector twice within one lifetime "
                             "(schedule step %d)" % (k, i), replay)
                ann_live[k] = True
                ever_new.add(k)
                cur = [x for x in ob["snap"] if x["key"] == k]
                if not cur or cur[0]["obj"] != e["obj"] or not cur[0]["valid"]:
                    ctx.fail("new-for-untracked", "New published for registration object %d of key %d which is not the tracked, "
                             "valid object of that key at that moment (step %d): the announcement belongs to an earlier lifetime"
                             % (e["obj"], k, i), replay)
            elif e["kind"] == "update" and k not in ever_new:
                ctx.fail("update-before-new", "the detector received Update for key %d before any New for it (step %d)" % (k, i), replay)
        if 0 <= st["t"] < len(kinds) and kinds[st["t"]] == "handler" and ob.get("found"):
            for o, cv in zip(ob["found"], ob["found_covert"]):
                k = key_of_obj(c, o)
                if not ann_live.get(k):
                    ctx.fail("seen-unannounced", "a connection handler was given registration object %d (key %d) that was "
                             "not announced/validated in its current lifetime (step %d)" % (o, k, i), replay)
                res = COVERTS[c["regs"][o]["ci"]][1] if 0 <= o < len(c["regs"]) else None
                pols = [0] + [t["to"] for t in c["threads"] if t["kind"] == "reload"]
                if res is None or cv != res or not any(cov_ok(c["regs"][o]["ci"], pols_of(c)[p]) for p in pols):
                    ctx.fail("seen-unchecked-covert", "a connection handler was given a registration whose covert address %r was "
                             "never checked against the covert policy (step %d; two ingests of one key raced)" % (cv, i), replay)
    # terminal, sweeper-free: the outcome must be one a serial order of the ingests and the reloads produces
    finished = all(any(ob["point"] in ("end", "disabled") and st["t"] == t for st, ob in zip(c["schedule"], r["steps"]))
                   for t in range(len(c["threads"])) if kinds[t] == "worker")
    reloads = [t["to"] for t in c["threads"] if t["kind"] == "reload"]
    reloads_done = all(any(st["t"] == t for st in c["schedule"]) for t in range(len(c["threads"])) if kinds[t] == "reload")
    if finished and reloads_done and "sweeper" not in kinds and r["steps"]:
        final = r["steps"][-1]["snap"]
        view = []
        for e in final:
            if e["obj"] >= 0:
                cs = covert_state(c, e)
                view.append((e["key"], e["valid"], c["regs"][e["obj"]]["ci"] if cs else None, e["regcount"]))
        ann = sorted((key_of_obj(c, e["obj"]), c["regs"][e["obj"]]["ci"]) for e in r["events"] if e["kind"] == "announce" and e["obj"] >= 0)
        got = (tuple(sorted(view)), tuple(ann))
        if reloads:
            ctx.cov["histogram"]["sched/serial-with-reload"] = ctx.cov["histogram"].get("sched/serial-with-reload", 0) + 1
        if got not in serial_outcomes(c["regs"], reloads, pols_of(c)):
            if not reloads:
                ctx.fail("not-serializable", "final table / announcements %r are not the outcome of any serial order of the same ingests" % (got,), replay)
            elif len(c["regs"]) <= 3 and got in section_mixed_outcomes(c["regs"], reloads, pols_of(c)):
                ctx.cov["histogram"]["sched/cross-section-witnessed"] = ctx.cov["histogram"].get("sched/cross-section-witnessed", 0) + 1
                ctx.fail("reload-serial:cross-section/covert+phantom", "controlled schedule: final table / announcements %r are not the outcome of any "
                         "serial order of the ingests and the reload(s); every read section saw one policy in full, but the covert check "
                         "and the phantom blocklist check of one ingest ran under different configurations" % (got,), replay)
            else:
                ctx.fail("not-serializable/reload", "final table / announcements %r are not the outcome of any serial order of the same ingests "
                         "and configuration reloads, nor of any assignment of complete policies to the read sections" % (got,), replay)
        # shares and counters: one share per detector-sourced owner that got past the probe, no double counting
        owners = sum(1 for e in final if e["obj"] >= 0 and e["valid"])
        if r["stats"]["new"] > owners + 0 and r["stats"]["new"] > len([1 for e in final if e["obj"] >= 0]):
            ctx.fail("double-count", "registration stats counted %d validated registrations but only %d keys are tracked"
                     % (r["stats"]["new"], len([1 for e in final if e["obj"] >= 0])), replay)
        if c["share"]:
            det_keys = {x["key"] for x in c["regs"] if x["source"] == "detector"}
            if r["shares"] > len(det_keys):
                ctx.fail("share-twice", "%d registrations shared over the API for %d detector-sourced keys" % (r["shares"], len(det_keys)), replay)


# ---------------------------------------------------------------- part B
def pcase_term(fixed, nw, cap, work, m, obs):
    acts = []
    for _ in range(m):
        acts.append("PArrive")
        acts += ["PDistr false"] * 3
        acts += ["PWork %s false" % gnat(j) for j in range(nw)]
    return "(%s, %s, %s, %s, %s, (%s, %s, %s, %s, %s))" % (
        gbool(fixed), gnat(nw), gnat(cap), gnat(work), glist(acts),
        gnat(obs["received"]), gnat(obs["taken"] + obs["buffered"]), gnat(obs["dropped"]), gnat(obs["buffered"]), gnat(obs["taken"]))


def run_distrib(ctx, split):
    quick = ctx.tier == "quick"
    cases = [{"mode": "distrib", "scenario": "idle", "workers": 20, "trials": 2},
             {"mode": "distrib", "scenario": "busy", "workers": 20, "trials": 12 if quick else 60},
             {"mode": "distrib", "scenario": "overload", "workers": 20, "messages": 40},
             {"mode": "distrib", "scenario": "overload", "workers": 10, "messages": 25},
             # fewer than 10 workers: the hand-off channel is unbuffered
             {"mode": "distrib", "scenario": "overload", "workers": 1, "messages": 5},
             {"mode": "distrib", "scenario": "overload", "workers": 2, "messages": 7},
             {"mode": "distrib", "scenario": "overload", "workers": 9, "messages": 14},
             {"mode": "distrib", "scenario": "idle", "workers": 2, "trials": 2},
             {"mode": "distrib", "scenario": "busy", "workers": 2, "trials": 6 if quick else 20}]
    # lock-trace probes: the sweeper is held inside its read section until a writer is queued for the lock
    lt_regs = [reg_json(r) for r in finish_regs([mk_reg(1, 0, 1, "api", True, False), mk_reg(2, 0, 1, "api", True, False),
                                                  mk_reg(3, 1, 2, "api", False, False), mk_reg(4, 0, 1, "api", True, False)])]
    for kind in ("track", "dup", "activate"):
        cases.append({"mode": "locktrace", "scenario": kind, "regs": lt_regs})
    # stop request while the worker pool is still starting (run in a child process: a late worker that panics kills it)
    su = []
    for nw in (4, 20, 300):
        for timing, y in (("before", 0), ("after", 0), ("yield", 1), ("yield", 8)):
            for busy in (False, True):
                su.append({"workers": nw, "timing": timing, "yields": y, "busy": busy,
                           "trials": (2 if nw == 300 else 6) * (1 if quick else 4)})
    cases.append({"mode": "startup", "scenario": "startup", "startup": su})
    rc, out, res = ctx.go_inpkg(".", PKG, DRIVER, "^(TestVerifC09)$", cases, timeout=300)
    if res is None or len(res) != len(cases):
        ctx.broken("driver", "Go driver (distrib) produced no results: %s" % out[-800:])
        return
    terms = []
    for c, r in zip(cases, res):
        sc = c["scenario"]
        for fld in ("returned", "after_cancel", "return_ms", "startup_res"):
            r[fld] = r.get(fld) or []
        if c["mode"] == "startup":
            for j, x in enumerate(c["startup"]):
                ctx.count(("startup", j, x["workers"], x["timing"], x["busy"]), kind="startup/" + x["timing"])
            last = r.get("child_last", -1)
            at = c["startup"][last] if 0 <= last < len(c["startup"]) else None
            if r.get("child_panic"):
                ctx.fail("startup-cancel:panic", "a goroutine of the ingest pipeline panicked after a stop request that arrived while the worker "
                         "pool was starting (scenario %s): %s" % (at, r["child_panic"][:500]),
                         {"startup": at, "panic": r["child_panic"]})
            elif r.get("error") or not r.get("child_done"):
                ctx.broken("driver", "startup child process: %s" % (r.get("error") or "no result"), {"startup": at})
            else:
                for x, y in zip(c["startup"], r["startup_res"] or []):
                    if y["not_returned"]:
                        ctx.fail("startup-cancel:hang", "HandleRegUpdates did not return within 4 s of a stop request during start-up (%s)" % x,
                                 {"startup": x, "observed": y})
                    elif y["max_alive"] >= 2:
                        ctx.fail("startup-cancel:returned-before-workers", "HandleRegUpdates returned while %d of its %d ingest workers were "
                                 "still alive (stop request during start-up, %s)" % (y["max_alive"], x["workers"], x), {"startup": x, "observed": y})
            continue
        if c["mode"] == "locktrace":
            ctx.count(("locktrace", sc, r["depth_at_scan"], r["writer_queued"]), kind="locktrace/" + sc)
            replay = {"locktrace": c, "observed": {k: v for k, v in r.items() if v not in (None, [], "", 0, False)}}
            if r.get("error"):
                ctx.broken("driver", "locktrace driver error: %s" % r["error"], replay)
            elif r["deadlock"]:
                ctx.fail("deadlock:sweep-read-section/" + sc, "deadlock: with the expiry sweeper inside its read section "
                         "(getExpiredRegistrations) and a writer (%s) queued for the registration lock, neither finished - the "
                         "section takes the read lock again behind the waiting writer. %s" % (sc, r["progress"]), replay)
            elif r["depth_at_scan"] != 1:
                ctx.fail("lock-depth:sweep-read-section", "the sweeper holds %d read locks at its scan point (expected 1)" % r["depth_at_scan"], replay)
            elif r.get("writer_ran") and not r["writer_queued"]:
                ctx.fail("lock-kind:writer-not-exclusive/" + sc, "a section that writes the registration table (%s) ran to completion while "
                         "the expiry sweeper held the table's read lock inside its scan: it does not take the write lock, so its writes are "
                         "not synchronised with the readers" % {"activate": "MarkActive: timeout status", "dup": "duplicate ingest: regCount",
                                                               "track": "ingest: track"}.get(sc, sc), replay)
            elif not r["writer_queued"]:
                ctx.broken("driver", "locktrace: the writer never queued for the lock (probe ineffective)", replay)
            continue
        replay = {"distrib": c, "observed": {k: v for k, v in r.items() if v not in (None, [], "", 0, False)}}
        if r.get("error"):
            ctx.broken("driver", "distrib driver error: %s" % r["error"], replay)
            continue
        if sc == "idle":
            for ok in r["returned"]:
                ctx.count((sc, ok), kind="distrib/idle")
            if not all(r["returned"]):
                ctx.fail("shutdown:idle-input", "HandleRegUpdates did not return within 4 s of the stop request while no "
                         "registrations were arriving (the distributor only wakes up on a message)", replay)
        elif sc == "busy":
            for n in r["after_cancel"]:
                ctx.count((sc, n), kind="distrib/busy")
            if not all(r["returned"]):
                ctx.fail("shutdown:busy-input-hang", "HandleRegUpdates did not return within 4 s of the stop request with a busy input", replay)
            elif max(r["after_cancel"]) > 1:
                ctx.fail("shutdown:busy-input", "after the stop request the distributor kept taking registrations from a busy input "
                         "(%s further messages in %d trials; bounded only in expectation)" % (sorted(set(r["after_cancel"])), len(r["after_cancel"])), replay)
        else:
            ctx.count((sc, c["workers"], r["received"], r["dropped"]), kind="distrib/overload")
            if r["send_blocked"]:
                ctx.fail("overload:receiver-blocked", "with every worker busy the distributor stopped receiving (a send into the pipeline blocked for 4 s)", replay)
            elif r["received"] != c["messages"] or r["received"] != r["taken"] + r["buffered"] + r["dropped"] or r["dropped"] != r["total_dropped"]:
                ctx.fail("overload:lost-count", "received=%d but taken=%d buffered=%d dropped=%d (counted %d)" %
                         (r["received"], r["taken"], r["buffered"], r["dropped"], r["total_dropped"]), replay)
            # an unbuffered hand-off only succeeds if the worker already waits in its select; when one was still
            # starting the message is (correctly) dropped instead, which the paced model schedule does not mirror
            if not r["send_blocked"] and (r["cap"] > 0 or r["taken"] == min(c["workers"], c["messages"])):
                terms.append((pcase_term(not split, c["workers"], r["cap"], 30000 // 20, c["messages"], r), replay))
            if r["cap"] == 0:
                ctx.cov["histogram"]["distrib/unbuffered"] = ctx.cov["histogram"].get("distrib/unbuffered", 0) + 1
            if r["returned"] and not all(r["returned"]):
                ctx.fail("shutdown:idle-input", "HandleRegUpdates did not return within 4 s of the stop request after the overload run", replay)
    if terms:
        mm = ctx.coq_mismatches("distrib", HEADER, [t for t, _ in terms], "pchk", need_vo=["C09/Run.vo"])
        if mm:
            ctx.cov["mismatches"] += len(mm)
            ctx.broken("correspondence", "distributor model and HandleRegUpdates disagree on the overload counters", terms[mm[0]][1])
    ctx.sample({"distrib": [{k: v for k, v in r.items() if v not in (None, [], "", 0, False)} for r in res]})


# ---------------------------------------------------------------- stress (race detector)
def stress_cases(ctx):
    regs = [mk_reg(1, 0, 1, "api", False, False), mk_reg(1, 0, 0, "detector", True, False), mk_reg(2, 0, 1, "prescan", True, False),
            mk_reg(3, 1, 2, "api", False, False), mk_reg(2, 0, 2, "api", False, False)]
    regs = finish_regs(regs)
    js = [reg_json(r) for r in regs]
    n = 6 if ctx.tier == "quick" else 30
    return [{"mode": "stress", "regs": js, "policies": POLICIES, "goroutines": 8, "rounds": n, "ageing": False, "reloads": False},
            {"mode": "stress", "regs": js, "policies": POLICIES, "goroutines": 8, "rounds": n, "ageing": True, "reloads": False},
            {"mode": "stress", "regs": js, "policies": POLICIES, "goroutines": 8, "rounds": n, "ageing": True, "reloads": True, "stats": True}], regs


RACE_RE = re.compile(r"WARNING: DATA RACE\n(.*?)\n==================", re.S)


def race_key(block):
    """a stable name for a race report: for the reload, the field it writes; otherwise the two innermost conjure functions"""
    import lib
    m = re.search(r"\(\*RegistrationManager\)\.OnReload\(\)\n\s+(\S+\.go):(\d+)", block)
    if m:
        try:
            path = m.group(1)
            if not os.path.exists(path):
                path = os.path.join(lib.REPO, "pkg/station/lib", os.path.basename(path))
            line = open(path).read().splitlines()[int(m.group(2)) - 1]
        except Exception:
            line = ""
        low = line.lower()
        if "phantom" in low and "selector" in low:
            return "OnReload/PhantomSelector"
        if "geoip" in low:
            return "OnReload/GeoIP"
        return "OnReload/policy-lists"
    names = []
    for para in block.split("\n\n")[:2]:
        fns = re.findall(r"^\s+(\S+)\(\S*\)\s*\n\s+(\S+?):\d+", para, flags=re.M)
        pick = [f for f, fl in fns if "conjure/" in f and "zz_verif" not in fl and ".c9" not in f]
        names.append(pick[0].split("/")[-1] if pick else "driver")
    return "+".join(sorted(set(names))) or "unknown"


def run_stress(ctx, race):
    cases, regs = stress_cases(ctx)
    rc, out, res = ctx.go_inpkg(".", PKG, DRIVER, "^((TestVerifC09))$" if race else "^(((TestVerifC09)))$", cases, race=race, timeout=900)
    label = "stress-race" if race else "stress"
    if res is None or len(res) != len(cases):
        ctx.broken("driver", "Go driver (%s) produced no results: %s" % (label, out[-800:]))
        return
    for c, r in zip(cases, res):
        kind = "%s/%s%s" % (label, r["stress_kind"], "+reload" if c["reloads"] else "")
        ctx.count((kind, r["ann_per_key"], r["valid_keys"]), kind=kind)
        replay = {"stress": {k: v for k, v in c.items() if k != "policies"}, "observed": r}
        if r.get("error"):
            ctx.broken("driver", "stress driver error: %s" % r["error"], replay)
        if r.get("deadlock"):
            ctx.fail("deadlock:stress", "deadlock: the free-running pipeline (ingest workers, sweeper, connection handlers%s) stopped "
                     "making progress: %s" % (", reloads" if c["reloads"] else "", r["progress"]), replay)
            continue
        for p in r.get("panics") or []:
            ctx.fail("stress:panic", "a pipeline goroutine panicked under stress: %s" % p[:200], replay)
        if not r["maps_in_sync"]:
            ctx.fail("stress:maps-out-of-sync", "registration table and timeout table differ in size after the run", replay)
        if not c["ageing"]:
            for k, n in r["ann_per_key"].items():
                if n > 1:
                    ctx.fail("announce-twice", "key %s announced %d times although nothing expired" % (k, n), replay)
            if r["adds"] != len(r["valid_keys"]) or sum(r["ann_per_key"].values()) != len(r["valid_keys"]):
                ctx.fail("double-count", "free-running ingest of duplicate registrations: %d validated registrations counted, %d announced, "
                         "%d keys valid" % (r["adds"], sum(r["ann_per_key"].values()), len(r["valid_keys"])), replay)
    if race:
        seen = set()
        for m in RACE_RE.finditer(out):
            k = race_key(m.group(1))
            if k in seen:
                continue
            seen.add(k)
            ctx.fail("race:" + k, "the race detector reported unsynchronised access: " + " | ".join(
                l.strip() for l in m.group(1).splitlines()[:14] if l.strip())[:900], {"stress": "race detector", "report": m.group(1)[:3000]})
        if rc != 0 and not seen and "DATA RACE" not in out and res is None:
            ctx.broken("driver", "race stress run failed: %s" % out[-600:])
        ctx.cov["race_detector"] = {"ran": True, "reports": sorted(seen)}


# ---------------------------------------------------------------- reload as an operation of the history
V4_POOL = ["10.0.0.0/8", "10.1.0.0/16", "10.2.0.0/16", "127.0.0.0/8", "192.0.2.0/24", "192.0.2.64/26", "198.51.100.0/24",
           "203.0.113.0/25", "8.8.8.0/24", "172.16.0.0/12", "100.64.0.0/10", "0.0.0.0/1", "169.254.0.0/16"]
V4_HOSTS = ["10.1.2.3", "10.2.3.4", "10.200.0.9", "192.0.2.77", "192.0.2.5", "198.51.100.9", "203.0.113.200", "8.8.8.8",
            "172.20.1.1", "100.70.0.1", "127.0.0.1", "169.254.1.1", "1.1.1.1", "224.0.0.5"]
PH_POOL = ["2001:db8:bad::/48", "2001:db8::/64", "2001:db8:5::/64", "2001:db8:5:6::/64"]
PH_BASES = ["2001:db8::", "2001:db8:1::", "2001:db8:bad:7::", "2001:db8:5:6::", "2001:db8:5:7::"]
DOM_POOL = [r"^10\.", r"\.77$", r"^192\.0\.2\.", r"8\.8", r"^172\.2"]


def r_sections(conf, probe):
    """the decision of every policy section for one probe under one configuration (True = refused there)"""
    host = probe["covert"].rsplit(":", 1)[0]
    ip = ipaddress.ip_address(host)
    ph = ipaddress.ip_address(probe["phantom"])
    phb = any(ph.version == ipaddress.ip_network(n).version and ph in ipaddress.ip_network(n) for n in conf.get("phantom_block", []))
    dom = any(re.search(pat, host) for pat in conf.get("covert_domains", []))
    if conf.get("covert_allow"):
        ad = not any(ip in ipaddress.ip_network(n) for n in conf["covert_allow"])
    else:
        ad = any(ip in ipaddress.ip_network(n) for n in conf.get("covert_block", []))
    return [phb, dom, ad]


def r_probe(host, phantom, source):
    return {"covert": host + ":443", "phantom": phantom, "source": source}


def rser_case(tag, confs, probes, workers, reloads, lineup):
    confs = [dict({"covert_block": [], "covert_allow": [], "phantom_block": [], "covert_domains": []}, **c) for c in confs]
    return {"mode": "rser", "tag": tag, "confs": confs, "probes": probes, "workers": workers, "reloads": reloads, "lineup": lineup}


def gen_rser_cases(ctx):
    rng = ctx.rng
    quick = ctx.tier == "quick"
    n = 1200 if quick else 8000
    cases = []
    for c in (ctx.replay or {}).get("rser_cases", []):
        cases.append(c)
    # (1) blocklist-only <-> allowlist: the allowlist switch toggles with every reload; one probe both
    #     configurations refuse, one both accept (each in every section), one they judge differently
    cases.append(rser_case("block<->allow", [{"covert_block": ["10.0.0.0/8", "127.0.0.0/8"]}, {"covert_allow": ["192.0.2.0/24"]}],
                           [r_probe("10.1.2.3", "2001:db8::", "api"), r_probe("192.0.2.77", "2001:db8::", "detector"),
                            r_probe("8.8.8.8", "2001:db8:1::", "api")], 4, n, 5))
    # (2) the same toggle with phantom blocklist and domain patterns that stay the same across the reload
    same = {"phantom_block": ["2001:db8:bad::/48"], "covert_domains": [r"^203\."]}
    cases.append(rser_case("allow<->block+same", [dict(same, covert_allow=["192.0.2.0/24", "10.1.0.0/16"]), dict(same, covert_block=["10.2.0.0/16"])],
                           [r_probe("10.2.3.4", "2001:db8::", "detector"), r_probe("10.1.2.3", "2001:db8:1::", "api"),
                            r_probe("192.0.2.5", "2001:db8:bad:7::", "detector"), r_probe("203.0.113.200", "2001:db8::", "api"),
                            r_probe("8.8.8.8", "2001:db8::", "prescan")], 6, n, 4))
    # (3) three configurations in a cycle: allowlist, blocklist, allowlist + blocklist (the allowlist takes precedence)
    cases.append(rser_case("cycle3", [{"covert_allow": ["8.8.8.0/24", "198.51.100.0/24"]}, {"covert_block": ["10.0.0.0/8", "192.0.2.0/24"]},
                                      {"covert_allow": ["8.8.8.0/24", "172.16.0.0/12"], "covert_block": ["8.8.8.0/24"]}],
                           [r_probe("8.8.8.8", "2001:db8::", "api"), r_probe("10.1.2.3", "2001:db8::", "api"),
                            r_probe("192.0.2.77", "2001:db8::", "detector"), r_probe("198.51.100.9", "2001:db8::", "api")], 4, n, 3))
    # (4) random pairs: lists drawn from the pools; probes sorted into "same in every section" / "judged differently"
    for k in range(2 if quick else 8):
        for _ in range(50):
            kinds = rng.choice([("block", "allow"), ("allow", "block"), ("allow", "allow"), ("block", "block"), ("block", "both")])
            confs = []
            keep_ph = rng.sample(PH_POOL, rng.choice([0, 1, 2]))
            keep_dom = rng.sample(DOM_POOL, rng.choice([0, 0, 1]))
            for kd in kinds:
                c = {"phantom_block": list(keep_ph), "covert_domains": list(keep_dom)}
                if kd in ("block", "both"):
                    c["covert_block"] = rng.sample(V4_POOL, rng.choice([1, 2, 3]))
                if kd in ("allow", "both"):
                    c["covert_allow"] = rng.sample(V4_POOL, rng.choice([1, 2, 3]))
                confs.append(c)
            probes, classes = [], set()
            hosts = list(V4_HOSTS)
            rng.shuffle(hosts)
            for h in hosts:
                pr = r_probe(h, rng.choice(PH_BASES), rng.choice(["api", "detector", "prescan"]))
                secs = [r_sections(c, pr) for c in confs]
                cl = ("same-refused" if any(secs[0]) else "same-accepted") if all(x == secs[0] for x in secs) else "differs"
                if cl not in classes or (len(probes) < 5 and cl != "differs"):
                    classes.add(cl)
                    probes.append(pr)
            if {"same-refused", "same-accepted"} <= classes and kinds[0] != kinds[1] or len(classes) == 3:
                cases.append(rser_case("random/%s<->%s" % kinds, confs, probes[:6], rng.choice([3, 4, 8]), n, rng.choice([2, 4, 7])))
                break
    # (5) the open finding: configurations that refuse the same registration in DIFFERENT read sections of the ingest
    cases.append(rser_case("cross-section/domain+address", [{"covert_block": ["10.0.0.0/8"]}, {"covert_domains": [r"^10\."]}],
                           [r_probe("10.1.2.3", "2001:db8::", "api")], 4, n, 3))
    cases.append(rser_case("cross-section/covert+phantom", [{"covert_block": ["10.0.0.0/8"]}, {"phantom_block": ["2001:db8::/64"]}],
                           [r_probe("10.1.2.3", "2001:db8::", "detector"), r_probe("10.1.2.3", "2001:db8::", "api")], 4, n, 3))
    return cases


def g_ip(s):
    ip = ipaddress.ip_address(s)
    return "(mkIp %s %s)" % (gN(32 if ip.version == 4 else 128), gN(int(ip)))


def g_cidr(s):
    nw = ipaddress.ip_network(s)
    return "(mkCidr %s %s %s)" % (gN(32 if nw.version == 4 else 128), gN(int(nw.network_address)), gN(nw.prefixlen))


def g_pol(conf, hosts):
    hit = [i for i, h in enumerate(hosts) if any(re.search(pat, h) for pat in conf["covert_domains"])]
    return "(mkPol %s %s %s %s %s)" % (gbool(bool(conf["covert_allow"])), glist([g_cidr(x) for x in conf["covert_allow"]]),
                                       glist([g_cidr(x) for x in conf["covert_block"]]), glist([gnat(i) for i in hit]),
                                       glist([g_cidr(x) for x in conf["phantom_block"]]))


def conf_kind(c):
    return ("allowlist" if c["covert_allow"] else "blocklist" if c["covert_block"] else "open")


def run_rser(ctx):
    cases = gen_rser_cases(ctx)
    rc, out, res = ctx.go_inpkg(".", PKG, DRIVER, "^TestVerifC09Reload$", cases, timeout=600)
    if res is None or len(res) != len(cases):
        ctx.broken("driver", "Go driver (reload lane) produced no results: %s" % out[-800:])
        return
    terms, term_case = [], []
    hist = ctx.cov["histogram"]
    for c, r in zip(cases, res):
        replay = {"rser_cases": [c], "observed": r}
        if r.get("error"):
            if "did not return" in r["error"] or "did not finish" in r["error"]:
                ctx.fail("reload-serial:hang", "ingest workers against configuration reloads: %s" % r["error"], replay)
            else:
                ctx.broken("driver", "reload lane driver error: %s" % r["error"], replay)
            continue
        for p in r.get("panics") or []:
            ctx.fail("reload-serial:panic", "a goroutine panicked while the configuration was being reloaded: %s" % p[:300], replay)
        if r["lineups"] and r["lineup_queued"] > 0 and r["lineup_writer"] > 0:
            hist["rser/lineup"] = hist.get("rser/lineup", 0) + 1
        hosts = [p["covert"].rsplit(":", 1)[0] for p in c["probes"]]
        kinds = "+".join(sorted({conf_kind(x) for x in c["confs"]}))
        for pi, (pr, ob) in enumerate(zip(c["probes"], r["probes"])):
            parts = ob["solo_parts"]
            agree = all(x == parts[0] for x in parts)
            solo = set(ob["solo"])
            if not ob["solo_coherent"] or ob["incoherent"]:
                ctx.fail("reload-serial:incoherent", "valid / announced exactly once / visible to a lookup disagree for an ingested registration "
                         "(probe %s; %s)" % (pr, ob.get("first_incoherent") or "ingested alone"), replay)
            seen = set()
            if ob["accepted"]:
                seen.add(True)
            if ob["rejected"]:
                seen.add(False)
            cross = c["tag"].startswith("cross-section/")
            cls = ("forbidden-by-all" if solo == {False} else "allowed-by-all" if solo == {True} else "differs")
            ctx.count(("rser", c["tag"], pr, c["confs"], sorted(seen)), nontrivial=ob["accepted"] + ob["rejected"] > 0,
                      kind="rser/" + ("cross-section" if cross else cls if agree or cls == "differs" else "sections-differ"))
            if cls == "differs" and len(seen) == 2:
                hist["rser/flip-observed"] = hist.get("rser/flip-observed", 0) + 1
            extra = seen - solo
            if extra and len(solo) == 1:
                n_bad = ob["accepted"] if True in extra else ob["rejected"]
                what = ("%d of %d ingests of covert %s (phantom %s.., source %s) were %s while the configuration was reloaded between %s "
                        "although EVERY one of these configurations %s it when it is in force alone (sections [phantom, domain, address] "
                        "refused per configuration: %s); first: %s" %
                        (n_bad, ob["accepted"] + ob["rejected"], pr["covert"], pr["phantom"], pr["source"],
                         "accepted, announced to the detector and visible to connection handlers" if True in extra else "refused",
                         " / ".join(conf_kind(x) + ":" + json_brief(x) for x in c["confs"]),
                         "refuses" if True in extra else "accepts", parts,
                         ob["first_accepted"] if True in extra else ob["first_rejected"]))
                if agree:
                    ctx.fail("reload-serial:mixed-view/%s/%s" % ("accepted-forbidden-by-all" if True in extra else "refused-allowed-by-all", kinds),
                             "no serial order of ingest and reload: " + what, replay)
                else:
                    differing = [n for n, col in zip(("phantom", "domain", "address"), zip(*parts)) if len(set(col)) > 1]
                    sect = "domain+address" if set(differing) == {"domain", "address"} else \
                        "covert+phantom" if "phantom" in differing else "+".join(differing)
                    ctx.fail("reload-serial:cross-section/" + sect, "an ingest reads the policy in separate read sections; a reload between two of "
                             "them: " + what, replay)
            # model: same solo tables, observed outcomes among those the theorem allows
            m = "(mkRmsg %s %s %s %s)" % (gnat(pi), g_ip(hosts[pi]), g_ip(pr["phantom"]), gbool(pr["source"] == "detector"))
            terms.append("(%s, %s, %s, %s, %s, %s)" % (
                glist([g_pol(x, hosts) for x in c["confs"]]), m,
                glist(["(%s, %s, %s)" % tuple(gbool(b) for b in x) for x in parts]), glist([gbool(b) for b in ob["solo"]]),
                gbool(True in seen), gbool(False in seen)))
            term_case.append((c, r, pi))
    if res:
        ctx.sample({"reload_lane": {"case": cases[0], "observed": res[0]}})
    tot = {"ingests": sum(r.get("ingests", 0) for r in res), "reloads": sum(r.get("reloads", 0) for r in res),
           "lineups": sum(r.get("lineups", 0) for r in res), "ms": sum(r.get("ms", 0) for r in res)}
    ctx.cov["reload_lane"] = tot
    if terms:
        mm = ctx.coq_mismatches("rser", HEADER_R, terms, "rchk", need_vo=["C09/RunR.vo"])
        if mm:
            ctx.cov["mismatches"] += len(mm)
            c, r, pi = term_case[mm[0]]
            ctx.broken("correspondence", "reload lane: model (ModelR) and the real policy functions / ingest disagree on %d probe(s); first: case %s "
                       "probe %s: solo sections %s solo accepted %s" % (len(mm), c["tag"], c["probes"][pi], r["probes"][pi]["solo_parts"],
                                                                      r["probes"][pi]["solo"]), {"rser_cases": [c], "observed": r})


def json_brief(conf):
    return ",".join("%s=%s" % (k.replace("covert_", ""), v) for k, v in conf.items() if v)


# ---------------------------------------------------------------- entry
def run(ctx):
    split = os.environ.get("VERIF_C09_SPLIT") == "1"   # model of the code before TrackRegIfNotExists (demonstrations only)
    ctx.assumptions += [
        "the code between a lock acquire and its release, and between two schedule points of one goroutine, is atomic "
        "(Go memory model); validated by executing the schedules on the real code through verifhook.Yield and by -race runs, not proved",
        "the data-race clause of the property is checked with the race detector only (stress runs, both tiers); level: proof, partial",
        "serializability of the table outcome is proved for workers, with any number of reloads whose policies judge the in-flight "
        "registrations alike; sweeper and handlers take part in the invariants (announce once per lifetime, visible only after validate, "
        "count, no panic) but not in that theorem",
        "reload as an operation (ModelR): a reload is ONE policyLock write section, every policy check of an ingest ONE read section "
        "(checked on the real code by the reload lane: outcomes under configurations that agree section by section); the whole-ingest "
        "statement is false for the code (open findings reload-serial:cross-section/*), proved part: serializable when the policies of the "
        "ingest's span agree section by section",
        "domain patterns are abstracted in ModelR to the set of probe hosts they match (regular expressions are C19's subject)",
        "liveness tester, covert resolution and the detector channel are injected (scripted tester, literal addresses, recorder)",
        "one expiry sweeper goroutine (cmd/application/main.go starts exactly one)",
        "the Go in-package driver, the schedule generator and the JSON->Gallina emitter are trusted",
    ]
    ctx.cov["trusted_base"] = [
        "Coq 8.16.1 kernel (coqc; coqchk in the thorough tier); vm_compute evaluates the model on recorded schedules; no native_compute",
        "no axioms: every theorem prints 'Closed under the global context'",
        "hand-written model coq/C09/Model.v tied to the code by running the same schedules on the real code (verif hook) and the model",
        "hand-written model coq/C09/ModelR.v (policy contents, read/write sections) tied to the code by the solo decision tables of the real "
        "policy functions and by the outcomes of real ingests under real reloads (allowed set = the theorem's)",
        "atomicity of critical sections (Go memory model) is assumed; -race is the evidence",
    ]
    ctx.cov["rule"] = ("a case is one schedule executed on the real pipeline (thread steps at the Yield/probe points, ageing); "
                       "non-trivial = hash-distinct (scenario, schedule) in which at least one registration is tracked or rejected; "
                       "exhaustive interleavings for 2 workers of one key (and with a handler in the thorough tier), sampled beyond")
    ctx.level = "proof"
    tm = ctx.cov.setdefault("timing_s", {})
    t0 = time.time()
    ctx.coq_props()
    rc_ex, out_ex = ctx.coq_make(["C09/Examples.vo", "C09/Refuted.vo", "C09/ExamplesR.vo", "C09/RefutedR.vo", "C09/RunR.vo"])
    if rc_ex != 0:
        ctx.broken("proof-obligation", "Examples.v / Refuted.v (non-vacuity and necessity witnesses) no longer check: " + out_ex[-500:])
    tm["coq_build"] = round(time.time() - t0, 1)
    t0 = time.time()
    if ctx.replay and "distrib" in ctx.replay and "sched_cases" not in ctx.replay:
        run_distrib(ctx, split)
        return
    if ctx.replay and "rser_cases" in ctx.replay and "sched_cases" not in ctx.replay:
        run_rser(ctx)
        return
    cases = gen_sched_cases(ctx)
    for c in cases:
        c.setdefault("policies", POLICIES)
    js = [dict(c, regs=[reg_json(r) for r in c["regs"]]) for c in cases]
    race_off = os.environ.get("VERIF_C09_RACE") == "0"
    ex = ThreadPoolExecutor(max_workers=4)
    def lane(name, fn, *a):
        """a lane never takes the check down: its exception is reported as a broken driver, the other lanes keep their verdicts"""
        def run_lane():
            try:
                return fn(*a)
            except Exception:
                ctx.broken("driver", "lane '%s' failed with an exception (infrastructure, not a verdict about conjure): %s"
                           % (name, traceback.format_exc()[-1200:]))
                return None
        return run_lane

    f_sched = ex.submit(lane("controlled schedules", ctx.go_inpkg, ".", PKG, DRIVER, "^TestVerifC09$", js, False, 1200))
    f_dist = ex.submit(lane("distributor / lock-trace / start-up", run_distrib, ctx, split))
    f_rser = ex.submit(lane("reload as an operation of the history", run_rser, ctx))
    # free-running stress under the race detector, overlapped with the rest of the check
    f_race = None if race_off else ex.submit(lane("stress under -race", run_stress, ctx, True))
    rc, out, res = f_sched.result() or (1, "lane failed", None)
    f_dist.result()
    f_rser.result()
    tm["go_sched_and_distrib"] = round(time.time() - t0, 1)
    t0 = time.time()
    if res is None or len(res) != len(cases):
        ctx.broken("driver", "Go driver (sched) produced no results: %s" % out[-1200:])
        if f_race is not None:
            f_race.result()
        return
    terms = []
    term_case = []
    for r in res:
        r["events"] = r.get("events") or []
        r["steps"] = r.get("steps") or []
        for st in r["steps"]:
            st["found"] = st.get("found") or []
            st["found_covert"] = st.get("found_covert") or []
            st["snap"] = st.get("snap") or []
    for i, (c, r) in enumerate(zip(cases, res)):
        tracked = any(e["obj"] >= 0 for s in r["steps"] for e in s["snap"])
        pts = {s["point"] for s in r["steps"]}
        ctx.count((c["regs"], c["threads"], c["schedule"], c["share"]), nontrivial=tracked or r["stats"]["blocked"] > 0,
                  kind="sched/" + c.get("tag", ""))
        for p in pts:
            ctx.cov["histogram"]["point/" + p.split(":")[0 if p.startswith("panic") else -1]] = \
                ctx.cov["histogram"].get("point/" + p.split(":")[0 if p.startswith("panic") else -1], 0) + 1
        if any(s["removed"] >= 0 for s in r["steps"]):
            ctx.cov["histogram"]["sweep/removed"] = ctx.cov["histogram"].get("sweep/removed", 0) + 1
        if r["stats"]["dup"]:
            ctx.cov["histogram"]["ingest/duplicate"] = ctx.cov["histogram"].get("ingest/duplicate", 0) + 1
        if any(e["kind"] == "update" for e in r["events"]):
            ctx.cov["histogram"]["handler/activated"] = ctx.cov["histogram"].get("handler/activated", 0) + 1
        if r.get("skipped"):
            ctx.cov["histogram"]["sched/skipped-after-hangs"] = ctx.cov["histogram"].get("sched/skipped-after-hangs", 0) + 1
            continue
        oracle(ctx, c, r, i)
        terms.append(hexs(enc_case(c, r, split)))
        term_case.append(i)
    ctx.sample({"scenario": {"regs": [reg_json(x) for x in cases[0]["regs"]], "schedule": cases[0]["schedule"]},
                "observed_last_step": res[0]["steps"][-1] if res[0]["steps"] else None, "events": res[0]["events"]})
    ctx.require_kinds(["sched/publish-window", "startup/before", "startup/after", "startup/yield", "sched/pair0", "sched/pair+handler", "sched/trio", "sched/mixed", "sched/swept-in-flight", "sched/reload-window", "sched/reload-cross-section", "sched/three-way", "sched/serial-with-reload",
                       "point/after-track", "point/after-covert", "point/probe", "point/end", "point/collected",
                       "point/before-remove", "point/found", "point/disabled", "sweep/removed", "ingest/duplicate",
                       "handler/activated", "distrib/idle", "distrib/busy", "distrib/overload",
                       "locktrace/track", "locktrace/dup", "locktrace/activate", "distrib/unbuffered",
                       "rser/forbidden-by-all", "rser/allowed-by-all", "rser/differs", "rser/flip-observed", "rser/lineup",
                       "rser/cross-section"])
    tm["oracle_and_encode"] = round(time.time() - t0, 1)
    t0 = time.time()
    mm = ctx.coq_mismatches("sched", HEADER, terms, "chkb", shard=min(500, max(60, len(terms) // 16 + 1)), need_vo=["C09/Run.vo"])
    if mm:
        ctx.cov["mismatches"] += len(mm)
        where = ctx.coq_show("bad", HEADER, "first_badb %s" % terms[mm[0]])
        i = term_case[mm[0]]
        ctx.broken("correspondence", "model C09 and the real pipeline disagree on %d schedule(s); first: case %d tag=%s, first differing step: %s"
                   % (len(mm), i, cases[i].get("tag"), where[-200:]),
                   {"sched_cases": [cases[i]], "observed": res[i]})
    tm["coq_eval"] = round(time.time() - t0, 1)
    t0 = time.time()
    lane("stress", run_stress, ctx, False)()
    if f_race is not None:
        f_race.result()
    else:
        ctx.cov["race_detector"] = {"ran": False, "note": "disabled by VERIF_C09_RACE=0"}
    ex.shutdown()
    tm["stress"] = round(time.time() - t0, 1)
