"""C07, liveness-stack lane: histories of registrations through the real ingestRegistration over the REAL tester that
liveness.New builds (uncached / cached over map or LRU caches, live and non-live), with a scripted network probe
underneath and an explicit cache clock.  Oracle = the property's iff with "the phantom did not answer the liveness
probe" := the verdict the tester stack gives at that moment is not-live, whatever its error class (fresh probe, cache
hit, failed probe); a network probe only when one is required (IPv4, not pre-scanned, earlier conditions hold, no fresh
cached verdict).  Correspondence with coq/C07/ModelLive.v (which runs coq/C18/Model.v as the tester)."""
import collections

from lib import gN, gbool, glist

HEADER = "From CJ Require Import Common.Base C06.Model C07.Model C07.Run C07.ModelLive C07.RunLive.\n"
DRV = {"zz_verif_driver_test.go": "c07/c07_driver_test.go", "zz_verif_live_test.go": "c07/c07_live_driver_test.go"}
EXTRA = {"pkg/station/liveness/zz_verif_c07_export.go": "c07/liveness_export.go"}

P1, P2, P3 = 0xC07ABE05, 0x08080808, 0x5DB8D822          # 192.122.190.5 (inside V4NET), 8.8.8.8, 93.184.216.34
ERRNAME = {0: "nil", 1: "ErrCachedPhantom", 2: "NotLive", 3: "ErrLiveHost", 4: "network-error"}

# liveness configurations: (name, dl hours or None, cl, dn hours or None, cn)
LVS = [
    ("uncached", None, 0, None, 0),
    ("live-map", 2, 0, None, 0),
    ("live-lru", 2, 4, None, 0),
    ("nonlive-map", None, 0, 1, 0),
    ("nonlive-lru", None, 0, 1, 3),
    ("both-map", 3, 0, 1, 0),
    ("both-lru", 3, 5, 2, 5),
    ("live-map+nonlive-lru", 2, 0, 2, 2),
    ("live-lru1", 2, 1, None, 0),
    ("both-lru1", 2, 1, 1, 1),
]


def lv_json(lv):
    _, dl, cl, dn, cn = lv
    return {"name": lv[0], "dl": "" if dl is None else "%dh" % dl, "cl": cl, "dn": "" if dn is None else "%dh" % dn, "cn": cn}


# Time. Lifetimes and clock advances are whole hours; the driver moves the clock of the real caches by shifting the stored
# times. Every operation also takes a (tiny) positive real time, and the code's comparisons are sensitive to that at the
# boundary (Lookup: age < lifetime, ClearExpired: age > lifetime). So the reference and the model count in ticks, one hour =
# TICK ticks, and one tick passes after every step of a history (histories are far shorter than TICK steps).
TICK = 1000


# ------------------------------------------------------------------ reference tester (the oracle's own reading of
# "answered from the cache within the lifetime, otherwise probed again")
class RefCache:
    def __init__(self, ttl, cap):
        self.ttl, self.cap = ttl, cap
        self.m = collections.OrderedDict()          # addr -> cachedTime ; order = recency (last = most recent) for LRU

    def lookup(self, now, a):
        if a in self.m and now - self.m[a] < self.ttl:
            if self.cap:
                self.m.move_to_end(a)
            return True
        return False

    def add(self, now, a):
        if self.cap:
            self.m[a] = now
            self.m.move_to_end(a)
            while len(self.m) > self.cap:
                self.m.popitem(last=False)
        elif a not in self.m:                       # the map cache does not overwrite an entry, stale or not
            self.m[a] = now

    def clear(self, now):
        for a in [a for a, t in self.m.items() if now - t > self.ttl]:
            del self.m[a]


class RefTester:
    def __init__(self, lv):
        _, dl, cl, dn, cn = lv
        self.now = 0
        self.live = RefCache(dl * TICK, cl) if dl is not None else None
        self.non = RefCache(dn * TICK, cn) if dn is not None else None

    def query(self, a, pl):
        """-> (verdict, origin, network probe sent)"""
        if self.live is not None and self.live.lookup(self.now, a):
            return True, "cached", False
        if self.non is not None and self.non.lookup(self.now, a):
            return False, "cached", False
        side = self.live if pl else self.non
        if side is not None:
            side.add(self.now, a)
        return pl, "probed", True

    def adv(self, d):
        self.now += d

    def clear(self):
        for c in (self.live, self.non):
            if c is not None:
                c.clear(self.now)


# ------------------------------------------------------------------ generator
class LGen:
    def __init__(self, base, g, rng):
        self.base, self.g, self.rng = base, g, rng

    def row(self, **kw):
        r = dict(self.base.BASES[0])                  # v4 only, API source, admissible
        r.update(kw)
        return r

    def msg(self, phantom=P1, pl=False, pe=None, secret=None, port=None, v6=False, v4=True, **kw):
        r = self.row(v6sup=v6, v4sup=v4, **kw)
        m = self.g.msg(r, secret)
        rr = {}
        if phantom is not None:
            rr["v4"] = phantom
        if port is not None:
            rr["port"] = port
        m["rr"] = rr or None
        if pe is None:
            pe = 3 if pl else 2
        return {"kind": "msg", "msg": m, "pl": pl, "pe": pe}

    def raw(self, phantom_hex, pl=False, pe=None, **kw):
        r = {"keys": True, "secret": self.g.secret("ok"), "phantom": phantom_hex, "port": 443, "transport": 0,
             "covert": self.base.COVERT["ok"], "prescanned": None, "source": 2, "regaddr": "01020304"}
        r.update(kw)
        if pe is None:
            pe = 3 if pl else 2
        return {"kind": "raw", "raw": r, "pl": pl, "pe": pe}

    @staticmethod
    def adv(d):
        return {"kind": "adv", "d": d}

    @staticmethod
    def clear():
        return {"kind": "clear"}

    def templates(self, lv):
        """deterministic histories, each run under every liveness configuration"""
        _, dl, cl, dn, cn = lv
        ttl = max(dl or 0, dn or 0, 1)
        M, A, C, R = self.msg, self.adv, self.clear, self.raw
        t = collections.OrderedDict()
        # first registration probes and finds the phantom live; another client, same phantom, within / after the lifetime
        t["second-client-live"] = [M(pl=True), M(pl=False), M(pl=True, pe=4), A(ttl - 1), M(pl=False), A(1), M(pl=False), M(pl=True)]
        # first registration finds it not live; later clients within / after the non-live lifetime
        t["second-client-notlive"] = [M(pl=False), M(pl=True), M(pl=False), A(ttl), M(pl=True), M(pl=False)]
        # two phantoms, verdicts do not leak from one to the other
        t["two-phantoms"] = [M(P1, pl=True), M(P2, pl=False), M(P1, pl=False), M(P2, pl=True), M(P3, pl=False), M(P1, pl=False), M(P2, pl=False)]
        # dual-stack: the IPv6 twin is never probed, whatever the verdict for the IPv4 phantom
        t["dual-stack"] = [M(pl=True, v6=True), M(pl=False, v6=True), M(P2, pl=False, v6=True), M(P2, pl=True, v6=True),
                           M(None, pl=True, v4=False, v6=True, regaddr="v6")]
        # pre-scanned registrations never consult the tester
        t["prescanned"] = [M(pl=True), M(pl=True, flags=True), M(P2, pl=True, flags=True), M(P2, pl=False), M(P2, pl=True, flags=False)]
        # detector-sourced: shared once, only after the verdict not-live (cached or fresh)
        t["detector-share"] = [M(pl=True, source=1), M(pl=False, source=1), M(P2, pl=False, source=1), M(P2, pl=True, source=1),
                               M(P2, pl=True, source=1, v6=True), A(ttl), M(P2, pl=False, source=1)]
        # the caches are keyed by the address: other port, 16-byte form
        t["port-and-form"] = [M(pl=True, port=443), M(pl=False, port=8080), R("%08x" % P2, pl=False), R("00000000000000000000ffff%08x" % P2, pl=True),
                              R("200148a8687f00010000000000000042", pl=True), R("%08x" % P2, pl=True, prescanned=True)]
        # capacity: an evicted verdict is measured again
        t["eviction"] = [M(P1, pl=True), M(P2, pl=True), M(P3, pl=True), M(P1, pl=False), M(P2, pl=False), M(P3, pl=False)]
        # expiry, the map cache's stale entry, ClearExpired
        t["expiry-clear"] = [M(pl=True), A(ttl), M(pl=True), M(pl=False), C(), M(pl=True), M(pl=False), A(ttl + 1), C(), M(pl=False), M(pl=True)]
        # every error class with either verdict: the verdict decides, not the error
        t["error-classes"] = [M(p, pl=v, pe=e) for v, e, p in
                              [(True, 0, 0x0A000001), (True, 1, 0x0A000002), (True, 3, 0x0A000003), (True, 4, 0x0A000004),
                               (False, 0, 0x0A000005), (False, 1, 0x0A000006), (False, 2, 0x0A000007), (False, 4, 0x0A000008)]] + \
                             [M(p, pl=not v) for v, p in [(True, 0x0A000002), (False, 0x0A000006)]]
        # conditions checked before the probe fail: no consultation; blocklisted phantom; duplicates
        s1 = self.g.secret("ok")
        t["earlier-conditions"] = [M(P2, pl=True, covert="blocked"), M(P2, pl=False, transport=5), M(P2, pl=True, secret=s1),
                                   M(P2, pl=False, secret=s1), M(P1, pl=False), M(P1, pl=False, source=1), M(P2, pl=False)]
        return t

    def random_history(self, lv):
        rng = self.rng
        secrets = [self.g.secret("ok") for _ in range(3)]
        steps = []
        for _ in range(rng.randint(4, 9)):
            x = rng.random()
            if x < 0.15:
                steps.append(self.adv(rng.choice([0, 1, 1, 2, 3, 5])))
            elif x < 0.22:
                steps.append(self.clear())
            elif x < 0.3:
                ph = rng.choice(["%08x" % P1, "%08x" % P2, "00000000000000000000ffff%08x" % P1, "200148a8687f00010000000000000042"])
                steps.append(self.raw(ph, pl=rng.random() < 0.5, pe=rng.choice([0, 1, 2, 3, 4]),
                                      prescanned=rng.choice([None, None, False, True]), source=rng.choice([1, 2, 2, 3])))
            else:
                kw = {}
                if rng.random() < 0.15:
                    kw["flags"] = rng.choice([True, False, "nil"])
                if rng.random() < 0.3:
                    kw["source"] = 1
                if rng.random() < 0.08:
                    kw["covert"] = "blocked"
                steps.append(self.msg(rng.choice([P1, P1, P2, P3, None]), pl=rng.random() < 0.5, pe=rng.choice([None, None, 0, 1, 2, 3, 4]),
                                      secret=rng.choice(secrets) if rng.random() < 0.15 else None,
                                      port=rng.choice([None, None, 8080]), v6=rng.random() < 0.25, **kw))
        return steps


def gen_cases(ctx, base):
    rng = ctx.rng
    g = base.Gen(rng)
    g.tag = 500000                                   # message tags of this lane (shares are attributed by tag)
    lg = LGen(base, g, rng)
    cases = []
    for c in base.replay_cases(ctx):
        if "lv" in c and "steps" in c:
            cases.append({"cfg": c["cfg"], "lv": c["lv"], "steps": c["steps"], "kind": "replay", "name": c.get("name", "replay")})
    for lv in LVS:
        for name, steps in lg.templates(lv).items():
            pblock = "v4" if name == "earlier-conditions" else "none"
            row = lg.row(pblock=pblock)
            cases.append({"cfg": g.case(row, [])["cfg"], "lv": lv_json(lv), "steps": steps, "kind": "template", "name": name})
    nrand = 40 if ctx.tier == "quick" else 600
    for _ in range(nrand):
        lv = rng.choice(LVS)
        if rng.random() < 0.3:                        # random lifetimes / capacities
            lv = ("random", rng.choice([None, 1, 2, 4]), rng.choice([0, 0, 1, 2, 3]), rng.choice([None, 1, 2]), rng.choice([0, 0, 1, 2]))
        row = lg.row(pblock=rng.choice(["none", "none", "v4", "out"]), share=rng.random() < 0.8)
        cases.append({"cfg": g.case(row, [])["cfg"], "lv": lv_json(lv), "steps": lg.random_history(lv), "kind": "random", "name": "random"})
    return cases


def lv_tuple(lvj):
    h = lambda s: None if s == "" else int(s[:-1])
    return (lvj.get("name", ""), h(lvj["dl"]), lvj["cl"], h(lvj["dn"]), lvj["cn"])


# ------------------------------------------------------------------ emitters
def g_lc(lvj):
    _, dl, cl, dn, cn = lv_tuple(lvj)
    z = lambda v: "(%d)%%Z" % v
    o = lambda v: "None" if v is None else "(Some %s)" % z(v * TICK)
    return "(L18.mkCfg %s %s %s %s)" % (o(dl), z(cl), o(dn), z(cn))


def g_hop(base, st):
    if st["kind"] == "adv":
        return "(HAdv %s)" % gN(st["d"] * TICK)
    if st["kind"] == "clear":
        return "HClear"
    if st["kind"] == "msg":
        return "(HMsg %s %s %s)" % (base.g_wrapper(st["msg"]), gbool(st["pl"]), gN(st["pe"]))
    raw = base.g_raw(st["raw"])                       # "(Raw (Some {...}))"
    inner = raw[len("(Raw (Some "):-2]
    return "(HReg %s %s %s)" % (inner, gbool(st["pl"]), gN(st["pe"]))


def g_lint(r):
    vs = []
    for v in r["verdicts"]:
        a, b = v.split("/")
        vs.append("(%s, %s)" % (gbool(a == "1"), gN(int(b))))
    return "{| li_verdicts := [%s]; li_counters := (%s, %s, %s); li_lens := (%s, %s) |}" % (
        "; ".join(vs), gN(r["lstats"][0]), gN(r["lstats"][1]), gN(r["lstats"][2]), gN(r["ll"]), gN(r["ln"]))


def verdict_and_origin(ref_verdict, ref_origin, observed):
    """The liveness condition is judged on what the phantom answered to the most recent probe within the lifetime (or to
    the one sent now): the reference tester's verdict, computed from the scripted network answers alone.  The origin (for
    the finding's key) says whether that verdict is a cached or a fresh one and which error the real tester returned."""
    origin = ("cached-verdict" if ref_origin == "cached" else "fresh-probe")
    if len(observed) == 1:
        ov, oc = observed[0].split("/")
        origin += "/" + ERRNAME.get(int(oc), oc)
        if (ov == "1") != ref_verdict:
            origin += "/tester-said-" + ("live" if ov == "1" else "not-live")
    else:
        origin += "/tester-consulted-%d-times" % len(observed)
    return ref_verdict, origin


EMPTY_ORACLES = {"sel4": {"ok": False, "ip": "", "rand": False}, "sel6": {"ok": False, "ip": "", "rand": False},
                 "covert_ok": False, "covert_lit": ""}


# ------------------------------------------------------------------ the lane
def run_live(ctx, base):
    cases = gen_cases(ctx, base)
    payload = [{"cfg": c["cfg"], "lv": c["lv"], "steps": c["steps"]} for c in cases]
    rc, out, res = ctx.go_inpkg(".", base.PKG, DRV, "^TestVerifC07Live$", payload, timeout=900, extra_overlay=EXTRA)
    if res is None or len(res.get("results", [])) != len(cases):
        ctx.broken("driver", "Go driver of the liveness-stack lane did not produce results: %s" % out[-1200:])
        return
    shares_by_tag = {}
    for s in res["shares"]:
        if s["mask"].isdigit():
            shares_by_tag.setdefault(int(s["mask"]), []).append(s)
        else:
            ctx.fail("share/unattributable", "the peer endpoint received a request that is not a shared registration: %s" % s, {"share": s})
    terms = []
    ref_disagreements = 0
    for ci, (c, rs) in enumerate(zip(cases, res["results"])):
        cfg, lvj = c["cfg"], c["lv"]
        lv = lv_tuple(lvj)
        ref = RefTester(lv)
        tracked = {}
        announced_so_far = set()
        steps_terms = []
        info = {"cfg": cfg, "lv": lvj, "steps": c["steps"], "kind": c["kind"], "name": c["name"], "tester_built": rs["tester"]}
        bad = False
        for si, (st, r) in enumerate(zip(c["steps"], rs["steps"])):
            sinfo = dict(info, failing_step=si)
            if r.get("panic"):
                ctx.count((ci, si, "panic"), kind="stack/panic")
                ctx.fail("stack/panic", "ingest panicked: %s" % r["panic"], sinfo)
                bad = True
                break
            probes = [ev for ev in r["events"] if ev["kind"] == "probe"]
            anns = [ev for ev in r["events"] if ev["kind"] == "announce"]
            tag = st["msg"]["payload"]["tag"] if st["kind"] == "msg" and st["msg"]["payload"] else None
            shares = sorted(shares_by_tag.get(tag, []), key=lambda s: s["seq"]) if tag is not None else []
            obs = {"err": r["err"], "ndrafts": r["ndrafts"], "probes": [(p["a"], p["port"]) for p in probes],
                   "announced": [a["reg"] for a in anns], "shares": shares, "visible": r["visible"], "verdicts": r["verdicts"]}
            sinfo["observed"] = obs
            kind = "stack/" + st["kind"]
            if st["kind"] == "adv":
                ref.adv(st["d"] * TICK)
            elif st["kind"] == "clear":
                ref.clear()
            if st["kind"] in ("adv", "clear"):
                if probes or anns:
                    ctx.fail("stack/effects-without-registration", "a clock advance / cache sweep had effects", sinfo)
                orc = dict(r, **EMPTY_ORACLES)
            elif st["kind"] == "msg":
                orc = r
                m = st["msg"]
                # which IPv4 registration does this message yield, and is the tester to be consulted for it?
                e0 = base.expect_msg(cfg, False, dict(tracked), m, r)
                consult = [d for d in e0.drafts if d["probe"]]
                live_now, origin, want_net = False, None, False
                if consult:
                    d0 = consult[0]
                    rv, rorigin, rnet = ref.query(d0["phantom"], st["pl"])
                    want_net = rnet
                    live_now, origin = verdict_and_origin(rv, rorigin, r["verdicts"])
                    if len(r["verdicts"]) == 1 and (r["verdicts"][0][0] == "1") != rv:
                        ref_disagreements += 1
                e = base.expect_msg(cfg, live_now, tracked, m, r)
                for d in e.drafts:
                    if d["probe"]:
                        d["verdict_origin"] = origin
                        if not want_net:
                            d["probe"] = False
                            d["noprobe_why"] = "cached-" + ("live" if live_now else "notlive")
                k = base.oracle_msg(ctx, e, obs, m, cfg, live_now, dict(sinfo, oracle_values={
                    x: r[x] for x in ("sel4", "sel6", "covert_ok", "covert_lit")}, liveness_verdict_now=live_now, verdict_origin=origin))
                if len(probes) > 1:
                    ctx.fail("stack/probe-more-than-once", "one registration message caused %d network probes" % len(probes), sinfo)
                if consult:
                    kind = "stack/%s:%s-%s" % ("admitted" if any(dd["admissible"] and dd["fam"] == 4 for dd in e.drafts) else "rejected",
                                               "cached" if not want_net else "probed", "live" if live_now else "notlive")
                else:
                    kind = "stack/no-consultation:" + k.split("/", 1)[1]
            else:
                orc = dict(r, sel4=EMPTY_ORACLES["sel4"], sel6=EMPTY_ORACLES["sel6"])
                raw = st["raw"]
                pip = base.ip_of(raw["phantom"])
                key = (base.norm_hex(raw["phantom"]), raw["transport"], raw["secret"])
                needs = (not raw["prescanned"]) and pip.version == 4
                blocked = base.in_any(cfg["pblock"], pip)
                early = raw["transport"] in cfg["transports"] and r["covert_ok"] and (raw["source"] == 1 or not blocked) and key not in tracked
                live_now, origin, want_net = False, None, False
                if early and needs:
                    rv, rorigin, want_net = ref.query(key[0], st["pl"])
                    live_now, origin = verdict_and_origin(rv, rorigin, r["verdicts"])
                    if len(r["verdicts"]) == 1 and (r["verdicts"][0][0] == "1") != rv:
                        ref_disagreements += 1
                conds = {"fresh": key not in tracked, "transport-enabled": raw["transport"] in cfg["transports"],
                         "phantom-not-blocked": not blocked, "covert-ok": r["covert_ok"], "not-live": not (needs and live_now)}
                adm = all(conds.values())
                if adm != bool(anns):
                    failing = [k for k, v in conds.items() if not v]
                    ctx.fail(("stack/raw/announced-although/" + "+".join(failing) + ("@" + origin if origin and "not-live" in failing else ""))
                             if anns else "stack/raw/admissible-but-not-announced",
                             "hand-built registration: announced=%s but conditions are %s (liveness verdict: %s)" % (bool(anns), conds, origin),
                             dict(sinfo, conditions=conds))
                if bool(probes) != (early and needs and want_net):
                    ctx.fail("stack/raw/probe-" + ("not-needed" if probes else "missing"),
                             "network probe sent=%s, required=%s" % (bool(probes), early and needs and want_net), dict(sinfo, conditions=conds))
                if raw["transport"] in cfg["transports"] and (raw["source"] == 1 or not blocked) and key not in tracked:
                    tracked[key] = adm
                kind = "stack/raw:%s" % ("admitted" if adm else "rejected")
            for a in anns:
                announced_so_far.add((base.norm_hex(a["reg"]["phantom"]), a["reg"]["transport"], a["reg"]["secret"]))
            vis = set((base.norm_hex(v["phantom"]), v["transport"], v["secret"]) for v in r["visible"])
            if vis != announced_so_far:
                ctx.fail("stack/visible/differs-from-announced", "GetRegistrations returns %s but the announced registrations are %s"
                         % (sorted(vis - announced_so_far), sorted(announced_so_far - vis)), sinfo)
            ctx.count(("live", cfg, lvj, c["steps"][:si + 1]), nontrivial=True, kind=kind)
            kname = "%s/%s" % (kind, lvj.get("name", ""))
            ctx.cov.setdefault("stack_lane_histogram", {})
            ctx.cov["stack_lane_histogram"][kname] = ctx.cov["stack_lane_histogram"].get(kname, 0) + 1
            steps_terms.append("(%s, %s, %s, %s)" % (g_hop(base, st), base.g_oracles(orc, False, cfg["geo_fail"], False),
                                                      base.g_obs(r, shares), g_lint(r)))
            ref.adv(1)          # the step took a positive amount of time (RunLive.tick)
        if not bad:
            terms.append(("(%s, %s, [%s])" % (base.g_cfg(cfg, res["pblocks"][ci]), g_lc(lvj), "; ".join(steps_terms)), info))
    ctx.cov["stack_lane"] = {"histories": len(cases), "reference_tester_disagreements": ref_disagreements}
    ctx.sample({"lane": "liveness-stack", "case": {k: cases[0][k] for k in ("cfg", "lv", "steps")}, "observed": res["results"][0]})
    ctx.require_kinds(["stack/rejected:cached-live", "stack/admitted:cached-notlive", "stack/rejected:probed-live",
                       "stack/admitted:probed-notlive", "stack/no-consultation:announced", "stack/adv", "stack/clear",
                       "stack/raw:admitted", "stack/raw:rejected"])
    for need in ("stack/rejected:cached-live/live-map", "stack/rejected:cached-live/live-lru", "stack/admitted:cached-notlive/nonlive-map",
                 "stack/admitted:cached-notlive/nonlive-lru", "stack/rejected:probed-live/uncached", "stack/admitted:probed-notlive/uncached",
                 "stack/rejected:cached-live/both-map", "stack/admitted:cached-notlive/both-lru"):
        if not ctx.cov["stack_lane_histogram"].get(need):
            ctx.broken("generator-selftest", "liveness-stack lane never produced %s" % need)
    mm = ctx.coq_mismatches("live", HEADER, [t for t, _ in terms], "chk_live", shard=10 if ctx.tier == "quick" else 60, need_vo=["C07/RunLive.vo"])
    mi = ctx.coq_mismatches("liveint", HEADER, [t for t, _ in terms], "chk_live_internal", shard=10 if ctx.tier == "quick" else 60)
    ctx.cov["stack_lane"]["internal_verdict_counter_cache_mismatches"] = None if mi is None else len(mi)   # informational only
    if mm:
        ctx.cov["mismatches"] += len(mm)
        ctx.broken("correspondence", "model C07.ModelLive (over C18's tester model) and the ingest code over the real liveness tester "
                   "disagree on %d histor(ies); first: %s under %s" % (len(mm), terms[mm[0]][1]["name"], terms[mm[0]][1]["lv"]), terms[mm[0]][1])
