"""C15 — every encoder in the registration channels is inverted exactly by its decoder."""
from lib import gN, gbool, bspec_in, bspec_obs, lcg_bytes

OPS = {"rt_req": 0, "rt_resp": 1, "rem_req": 2, "rem_resp": 3, "rt_txt": 4, "dec_txt": 5}
HEADER = "From CJ Require Import Common.Base C15.Model C15.Run.\n"


def rb(rng, n):
    if n > 64:
        return lcg_bytes(rng.randrange(1 << 30), n)
    return bytes(rng.getrandbits(8) for _ in range(n))


def gen_cases(ctx):
    rng = ctx.rng
    quick = ctx.tier == "quick"
    cases = []
    # encoders: every length 0 .. limit+2 (exhaustive in length, random content)
    for n in list(range(0, 300)) + [510, 511, 512, 1000]:
        cases.append(("rt_req", rb(rng, n)))
    txt_lens = list(range(0, 20)) + list(range(250, 262)) + list(range(505, 515)) + [765, 766, 1020, 1021, 4000]
    if not quick:
        txt_lens = list(range(0, 1100)) + [4000, 65535, 65536]
    for n in txt_lens:
        cases.append(("rt_txt", rb(rng, n)))
    resp_lens = list(range(0, 12)) + [255, 256, 257, 1000, 65534, 65535, 65536, 65537, 70000]
    if not quick:
        resp_lens += list(range(12, 255, 7)) + [65535 + 256, 131072]
    for n in resp_lens:
        cases.append(("rt_resp", rb(rng, n)))
    # decoders on arbitrary / near-valid bytes
    for _ in range(150 if quick else 1500):
        n = rng.choice([0, 1, 2, 3, 5, 17, 255, 256, 257, 300])
        d = bytearray(rb(rng, n))
        if n and rng.random() < 0.6:   # mostly-valid: first byte(s) near the real length
            d[0] = max(0, min(255, n - 1 + rng.choice([-2, -1, 0, 0, 0, 1, 2])))
        cases.append(("rem_req", bytes(d)))
        d2 = bytearray(rb(rng, n))
        if n >= 2 and rng.random() < 0.6:
            ln = max(0, n - 2 + rng.choice([-2, -1, 0, 0, 0, 1, 2]))
            d2[0], d2[1] = ln >> 8, ln & 255
        cases.append(("rem_resp", bytes(d2)))
        # TXT: sequences of character-strings, sometimes cut short
        t = bytearray()
        for _ in range(rng.randrange(0, 4)):
            ln = rng.choice([0, 1, 5, 255, rng.randrange(256)])
            t += bytes([ln]) + rb(rng, ln)
        if rng.random() < 0.4 and t:
            t = t[:rng.randrange(len(t))]
        cases.append(("dec_txt", bytes(t)))
    for c in (ctx.replay or {}).get("cases", []):
        cases.insert(0, (c["op"], bytes.fromhex(c["data"])))
    return cases


def run(ctx):
    ctx.assumptions += [
        "base32, X25519, Elligator, AES, noise are not part of this slice of the model",
        "the Go in-package driver, the case generator and the JSON->Gallina emitter are trusted",
    ]
    ctx.cov["trusted_base"] = [
        "Coq 8.16.1 kernel (coqc; coqchk in the thorough tier); vm_compute used for evaluating the model on cases; no native_compute",
        "no axioms: every theorem prints 'Closed under the global context'",
        "hand-written model coq/C15/Model.v tied to the code by the correspondence run (driver + emitter trusted)",
    ]
    ctx.cov["rule"] = ("encoders on every payload length 0..limit+2 with random content, decoders on random and "
                       "near-valid byte strings; a case is non-trivial if it is hash-distinct and either "
                       "succeeds or exercises a distinct rejection (counted per op)")
    ctx.coq_props()
    cases = gen_cases(ctx)
    by_pkg = {"msgformat": [], "dns": []}
    for i, (op, d) in enumerate(cases):
        by_pkg["dns" if "txt" in op else "msgformat"].append(i)
    results = [None] * len(cases)
    for pkg, idxs in by_pkg.items():
        js = [{"op": cases[i][0], "data": cases[i][1].hex()} for i in idxs]
        test = "TestVerifC15Msgformat" if pkg == "msgformat" else "TestVerifC15Dns"
        rc, out, res = ctx.go_inpkg(".", "pkg/registrars/dns-registrar/" + pkg,
                                    {"zz_verif_driver_test.go": "c15/%s_driver_test.go" % pkg},
                                    "^%s$" % test, js)
        if res is None or len(res) != len(idxs):
            ctx.broken("driver", "Go driver for %s did not produce results: %s" % (pkg, out[-800:]))
            return
        for i, r in zip(idxs, res):
            results[i] = r
    # direct oracle on the implementation: decode(encode x) = x, or encode rejected; never silently altered
    terms = []
    for (op, d), r in zip(cases, results):
        ctx.count((op, d), nontrivial=True, kind=op + ("/ok" if r["ok"] else "/err"))
        if op.startswith("rt_"):
            if r["ok"] and not (r["ok2"] and bytes.fromhex(r["out2"]) == d):
                key = "%s/len=%d" % (op, len(d)) if len(d) in (256, 65536) else "%s/other" % op
                ctx.fail("roundtrip:" + ("%s/len>limit" % op), "decode(encode x) != x for %s with %d-byte payload "
                         "(encoder accepted it, decoder returned %d bytes, ok=%s)" % (op, len(d), len(r["out2"]) // 2, r["ok2"]),
                         {"op": op, "data": d.hex() if len(d) < 600 else d[:16].hex() + "...(%d bytes)" % len(d),
                          "len": len(d), "encoded_prefix": r["out"][:16], "decoded_len": len(r["out2"]) // 2})
        terms.append("(%s, %s, (%s, %s, %s, %s))" % (gN(OPS[op]), bspec_in(d), gbool(r["ok"]), bspec_obs(bytes.fromhex(r["out"])),
                                                     gbool(r["ok2"]), bspec_obs(bytes.fromhex(r["out2"]))))
    ctx.sample({"op": cases[3][0], "data": cases[3][1].hex(), "observed": results[3]})
    ctx.sample({"op": cases[-1][0], "data": cases[-1][1].hex(), "observed": results[-1]})
    ctx.require_kinds(["rt_req/ok", "rt_txt/ok", "rt_resp/ok", "rem_req/ok", "rem_req/err", "rem_resp/ok",
                       "rem_resp/err", "dec_txt/ok", "dec_txt/err"])
    mm = ctx.coq_mismatches("fmt", HEADER, terms, "chk", shard=120, need_vo=["C15/Run.vo"])
    if mm:
        ctx.cov["mismatches"] += len(mm)
        i = mm[0]
        ctx.broken("correspondence", "model C15.Run.model and the implementation disagree on %d case(s); first: op=%s len=%d"
                   % (len(mm), cases[i][0], len(cases[i][1])),
                   {"op": cases[i][0], "data": cases[i][1].hex()[:2000], "observed": results[i]})
