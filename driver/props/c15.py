"""C15 — every encoder in the registration channels is inverted exactly by its decoder.

Families of cases (each: Go observation -> direct oracle -> Gallina term for the model comparison):
  fmt    msgformat length framing, TXT RDATA                (pkg msgformat, dns)
  name   NewName / WriteName / readName / TrimSuffix         (pkg dns)
  req    chunks, base32 coding, send -> query name           (pkg requester; second stage: dns, responder)
"""
import os
import sys
import time
from concurrent.futures import ThreadPoolExecutor

from lib import gN, gbool, bspec_in, bspec_obs, lcg_bytes, hexs

HEADER = "From CJ Require Import Common.Base C15.Model C15.ModelName C15.ModelObf C15.ModelAny C15.ModelDns C15.ModelB32 C15.ModelExch C15.ModelPb C15.ModelDot C15.ModelSeq C15.ModelStream C15.Run.\n"
DNSREG = "pkg/registrars/dns-registrar/"
PKGS = {
    "msgformat": (".", DNSREG + "msgformat", "c15/msgformat_driver_test.go", "TestVerifC15Msgformat"),
    "dns": (".", DNSREG + "dns", "c15/dns_driver_test.go", "TestVerifC15Dns"),
    "requester": (".", DNSREG + "requester", "c15/requester_driver_test.go", "TestVerifC15Requester"),
    "responder": (".", DNSREG + "responder", "c15/responder_driver_test.go", "TestVerifC15Responder"),
    "transports": (".", "pkg/transports", "c15/transports_driver_test.go", "TestVerifC15Transports"),
}
VARIANTS = {"xor": 0, "nil": 1, "ctr": 2, "gcm": 3}
FMT_OPS = {"rt_req": 0, "rt_resp": 1, "rem_req": 2, "rem_resp": 3, "rt_txt": 4, "dec_txt": 5}
NAME_ERR = {"": 0, "zero": 1, "labellong": 2, "namelong": 3}
RD_ERR = {"": 0, "eof": 1, "reserved": 2, "ptrs": 3, "namelong": 4, "trailing": 5}


def rb(rng, n):
    if n > 64:
        return lcg_bytes(rng.randrange(1 << 30), n)
    return bytes(rng.getrandbits(8) for _ in range(n))


def gname(labels):
    return "[" + "; ".join(hexs(l) for l in labels) + "]"


def hexl(labels):
    return [bytes(l).hex() for l in labels]


def unhexl(labels):
    return [bytes.fromhex(x) for x in (labels or [])]


def wire_len(labels):
    return sum(1 + len(l) for l in labels) + 1


class Case:
    __slots__ = ("fam", "pkg", "js", "aux", "res", "px")

    def __init__(self, fam, pkg, js, aux=None):
        self.fam, self.pkg, self.js, self.aux, self.res, self.px = fam, pkg, js, aux, None, None


# ------------------------------------------------------------------ generators
def gen_fmt(ctx):
    rng, quick = ctx.rng, ctx.tier == "quick"
    out = []

    def add(op, d):
        out.append(Case("fmt", "dns" if "txt" in op else "msgformat", {"op": op, "data": d.hex()}, d))
    # encoders: every length 0 .. limit+2 (exhaustive in length, random content)
    req_lens = list(range(0, 12)) + list(range(250, 262)) + [510, 511, 512, 1000]
    if not quick:
        req_lens = list(range(0, 300)) + [510, 511, 512, 1000]
    for n in req_lens:
        add("rt_req", rb(rng, n))
    txt_lens = list(range(0, 6)) + list(range(253, 259)) + list(range(508, 513)) + [765, 766, 1020, 1021, 4000]
    if not quick:
        txt_lens = list(range(0, 1100)) + [4000, 65535, 65536]
    for n in txt_lens:
        add("rt_txt", rb(rng, n))
    resp_lens = list(range(0, 4)) + [254, 255, 256, 257, 258, 1000, 65534, 65535, 65536, 65537]
    if not quick:
        resp_lens += [70000]
    if not quick:
        resp_lens += list(range(4, 255, 7)) + [65535 + 256, 131072]
    for n in resp_lens:
        add("rt_resp", rb(rng, n))
    # decoders on arbitrary / near-valid bytes
    for _ in range(40 if quick else 1500):
        n = rng.choice([0, 1, 2, 3, 5, 17, 255, 256, 257, 300])
        d = bytearray(rb(rng, n))
        if n and rng.random() < 0.6:   # mostly-valid: first byte(s) near the real length
            d[0] = max(0, min(255, n - 1 + rng.choice([-2, -1, 0, 0, 0, 1, 2])))
        add("rem_req", bytes(d))
        d2 = bytearray(rb(rng, n))
        if n >= 2 and rng.random() < 0.6:
            ln = max(0, n - 2 + rng.choice([-2, -1, 0, 0, 0, 1, 2]))
            d2[0], d2[1] = ln >> 8, ln & 255
        add("rem_resp", bytes(d2))
        # TXT: sequences of character-strings, sometimes cut short
        t = bytearray()
        for _ in range(rng.randrange(0, 4)):
            ln = rng.choice([0, 1, 5, 255, rng.randrange(256)])
            t += bytes([ln]) + rb(rng, ln)
        if rng.random() < 0.4 and t:
            t = t[:rng.randrange(len(t))]
        add("dec_txt", bytes(t))
    return out


def rlabel(rng, n, ascii_only=False):
    """a label of n bytes; mostly letters/digits, sometimes arbitrary bytes (dots, backslashes, upper case)"""
    if ascii_only and rng.random() < 0.3:
        return bytes(rng.choice([0x2e, 0x5c, 0x40, 0x5b, 0x60, 0x7b, 0, 0x7f, rng.getrandbits(7)]) for _ in range(n))
    if ascii_only or rng.random() < 0.7:
        return bytes(rng.choice(b"abcxyzABZ019-") for _ in range(n))
    return bytes(rng.choice([0x2e, 0x5c, 0x78, 0, 255, rng.getrandbits(8)]) for _ in range(n))


def split_labels(rng, total, maxlab=63):
    """labels whose uncompressed wire length is exactly `total` (>= 1)"""
    labels, rest = [], total - 1
    while rest > 0:
        if rest == 1:        # cannot place a label in 1 octet: fold into the previous label
            if labels:
                labels[-1] += b"q"
            else:
                labels.append(b"")
            break
        n = min(rest - 1, rng.choice([1, 1, 2, 5, 20, maxlab, maxlab, rng.randrange(1, maxlab + 1)]))
        labels.append(rlabel(rng, n))
        rest -= n + 1
    return labels


def gen_names(ctx):
    rng, quick = ctx.rng, ctx.tier == "quick"
    out = []

    def name_rt(labels):
        out.append(Case("name_rt", "dns", {"op": "name_rt", "labels": hexl(labels)}, labels))
    # single labels of every length 0..70; label-length limit inside longer names
    for n in (list(range(0, 4)) + list(range(60, 68))) if quick else range(0, 71):
        name_rt([rlabel(rng, n)])
        name_rt([b"ab", rlabel(rng, n), b"c"])
    name_rt([])
    # total wire length around the 255 limit, different label shapes
    for total in (list(range(250, 261)) if quick else list(range(1, 262)) + [300, 400]):
        for _ in range(2 if quick else 3):
            name_rt(split_labels(rng, total))
    name_rt([b"a"] * 127)
    name_rt([b"a"] * 128)
    name_rt([b"x" * 63] * 3 + [b"y" * 61])    # exactly 255
    name_rt([b"x" * 63] * 3 + [b"y" * 62])    # 256
    name_rt([b"x" * 63] * 4)
    for _ in range(20 if quick else 300):      # zero-length / oversized label somewhere, repeated labels
        labels = split_labels(rng, rng.randrange(2, 120))
        k = rng.randrange(len(labels) + 1)
        labels.insert(k, rng.choice([b"", rlabel(rng, 64), rlabel(rng, 65), rlabel(rng, 200), labels[0] if labels else b"a"]))
        name_rt(labels)

    # readName on arbitrary buffers: names, pointers (backward / forward / self / chains), reserved types, truncation
    def read_name(buf, pos):
        out.append(Case("read_name", "dns", {"op": "read_name", "data": bytes(buf).hex(), "pos": pos}, (bytes(buf), pos)))

    def wire(labels):
        return b"".join(bytes([len(l)]) + l for l in labels) + b"\0"

    def ptr(off):
        return bytes([0xC0 | (off >> 8) & 0x3F, off & 0xFF])
    for depth in range(0, 15):                 # chains: name k = label ++ pointer to name k-1
        buf, offs = bytearray(wire([b"a0"])), [0]
        for k in range(1, depth + 1):
            offs.append(len(buf))
            buf += bytes([2]) + b"a%d" % (k % 10) + ptr(offs[k - 1])
        read_name(buf, offs[-1])
        read_name(buf + b"\x07trailer", offs[-1])
        if depth > 0:
            read_name(buf[:-1], offs[-1])       # pointer cut in half
    for _ in range(35 if quick else 1500):
        buf, starts = bytearray(rb(rng, rng.choice([0, 0, 1, 3, 12]))), []
        for _ in range(rng.randrange(1, 6)):
            starts.append(len(buf))
            r = rng.random()
            labels = split_labels(rng, rng.choice([1, 2, 5, 9, 40, 120, 254, 255, 256, 257]))
            labels = [l for l in labels if l]
            if r < 0.35:
                buf += wire(labels)
            elif r < 0.75:
                tgt = rng.choice(starts + [len(buf), len(buf) + 3, rng.randrange(0, 0x4000)])
                buf += wire(labels)[:-1] + ptr(tgt)
            elif r < 0.85:
                buf += wire(labels)[:-1] + bytes([rng.choice([0x40, 0x41, 0x7F, 0x80, 0xBF])]) + rb(rng, 2)
            else:
                w = wire(labels)
                buf += w[:rng.randrange(len(w) + 1)]
        for s in starts[-3:]:
            read_name(buf, s)
        if rng.random() < 0.3:
            read_name(buf, rng.randrange(len(buf) + 3))
    # names longer than 255 assembled through pointers
    seg1 = wire([b"p" * 63, b"q" * 63])
    buf = seg1 + wire([b"r" * 63, b"s" * 63])[:-1] + ptr(0)
    read_name(buf, len(seg1))
    buf = seg1 + wire([b"r" * 63, b"s" * 61])[:-1] + ptr(0)
    read_name(buf, len(seg1))
    buf = seg1 + wire([b"r" * 63, b"s" * 60])[:-1] + ptr(0)
    read_name(buf, len(seg1))
    read_name(ptr(0), 0)                        # self loop
    read_name(ptr(2) + ptr(0), 0)               # two-cycle
    read_name(b"", 0)
    read_name(b"\0", 5)
    for _ in range(15 if quick else 600):       # plain random bytes
        n = rng.choice([1, 2, 3, 8, 30])
        read_name(bytes(rng.choice([0, 1, 2, 3, 0xC0, 0xC0, 0xC1, 0x40, 0x80, rng.getrandbits(8)]) for _ in range(n)),
                  rng.randrange(0, n + 1))

    # TrimSuffix beyond ASCII (bytes.ToLower is UTF-8 aware): exact suffixes must match whatever the bytes are
    na = [bytes([0xff]), bytes([0xfe]), "É".encode(), "é".encode(), bytes([0xc3]), bytes([0x80, 0x41]), b"a\xffB", "ß".encode(), "İ".encode()]
    for _ in range(12 if quick else 200):
        pre = [rng.choice(na + [rlabel(rng, 3, True)]) for _ in range(rng.randrange(0, 3))]
        suf = [rng.choice(na) for _ in range(rng.randrange(1, 3))]
        out.append(Case("trim_na", "dns", {"op": "trim", "labels": hexl(pre + suf), "suffix": hexl(suf)}, (pre + suf, suf, True)))
    for a_, b_ in [(bytes([0xff]), bytes([0xfe])), ("É".encode(), "é".encode()), (b"a\xffB", b"A\xffb"), (bytes([0xc3]), bytes([0xc4])), ("É".encode(), b"e")]:
        out.append(Case("trim_na", "dns", {"op": "trim", "labels": hexl([b"x", a_]), "suffix": hexl([b_])}, ([b"x", a_], [b_], False)))

    # Name.String (the cache key): labels with dots, backslashes, escapes spelled out, every byte class
    specials = [b".", b"\\", b"\\x2e", b"x2e", b"a.b", b"a\\x2eb", b"-", b"0", b"9", b"A", b"Z", b"a", b"z", b"/", b":", b"@", b"[", b"`", b"{",
                bytes([0]), bytes([0x7f]), bytes([0x80]), bytes([0xff]), b""]
    for _ in range(40 if quick else 600):
        n = [rng.choice(specials + [rlabel(rng, rng.randrange(0, 6))]) for _ in range(rng.randrange(0, 5))]
        out.append(Case("name_string", "dns", {"op": "name_string", "labels": hexl(n)}, n))
    for b in (range(0, 256, 7) if quick else range(256)):
        out.append(Case("name_string", "dns", {"op": "name_string", "labels": hexl([bytes([b])])}, [bytes([b])]))

    # TrimSuffix
    def flipcase(l):
        return bytes((c ^ 0x20) if (65 <= (c & ~0x20) <= 90 and rng.random() < 0.5) else c for c in l)
    for _ in range(30 if quick else 400):
        pre = [rlabel(rng, rng.randrange(1, 8), True) for _ in range(rng.randrange(0, 4))]
        suf = [rlabel(rng, rng.randrange(1, 8), True) for _ in range(rng.randrange(0, 4))]
        r = rng.random()
        if r < 0.5:
            n = pre + [flipcase(l) for l in suf]
        elif r < 0.7:
            n = pre + suf[1:]
        elif r < 0.85 and suf:
            bad = list(suf)
            k = rng.randrange(len(bad))
            bad[k] = bad[k][:-1] + bytes([bad[k][-1] ^ rng.choice([1, 0x20, 0x40, 0x20])])
            n = pre + bad
        else:
            n = [rlabel(rng, rng.randrange(1, 5), True) for _ in range(rng.randrange(0, 5))]
        out.append(Case("trim", "dns", {"op": "trim", "labels": hexl(n), "suffix": hexl(suf)}, (n, suf)))
    return out


DOMAINS = [[], [b"t", b"example", b"com"], [b"r"], [b"x" * 63, b"y" * 63], [b"a" * 40, b"b" * 40, b"c" * 40, b"d" * 20],
           [b"Reg", b"Example", b"ORG"], [b"bad" * 22, b"com"], [b"", b"com"]]


def gen_req(ctx):
    rng, quick = ctx.rng, ctx.tier == "quick"
    out = []
    for n in (list(range(0, 8)) + [62, 63, 64, 125, 126, 127, 128, 189, 190, 400]) if quick else range(0, 401):
        for k in ([63] if quick and n > 8 else [1, 2, 63, 64, 255]):
            d = rb(rng, n)
            out.append(Case("chunks", "requester", {"op": "chunks", "data": d.hex(), "n": k}, (d, k)))
    for n in (list(range(0, 12)) + [39, 40, 41, 100, 255, 300]) if quick else range(0, 301):
        d = rb(rng, n)
        out.append(Case("b32", "requester", {"op": "b32", "data": d.hex()}, d))
    for dom in DOMAINS:
        # payload lengths around the point where the name stops fitting 255 octets for this domain
        room = 255 - wire_len(dom)
        edge = max(0, (room * 63 // 64) * 5 // 8)
        if quick:
            lens = sorted(set([0, 1, 3, 224, 256] + list(range(max(0, edge - 2), edge + 3))))
        else:
            lens = sorted(set(list(range(0, 4)) + list(range(100, 160)) + [223, 224, 255, 256] + list(range(max(0, edge - 4), edge + 5))))
        for n in lens:
            d = rb(rng, n)
            out.append(Case("send", "requester", {"op": "send", "data": d.hex(), "domain": hexl(dom)}, (d, dom)))
    return out


def gen_obf(ctx):
    rng, quick = ctx.rng, ctx.tier == "quick"
    out = []
    for v in VARIANTS:
        # every tag length 0..N (fresh key pair and fresh randomness per case)
        lens = (list(range(0, 6)) + [15, 16, 17, 31, 32, 33, 47, 48, 100]) if quick else list(range(0, 130)) + [255, 256, 1000]
        reps = (14 if v in ("ctr", "gcm") else 2) if quick else (40 if v in ("ctr", "gcm") else 4)
        for n in lens:
            for _ in range(reps if n in (1, 32) else 1):
                d = rb(rng, n)
                out.append(Case("obf", "transports", {"op": "obf", "variant": v, "data": bytes(d).hex(), "publen": 32}, (v, bytes(d), 32)))
        for pl in (0, 31, 33):
            d = rb(rng, 8)
            out.append(Case("obf", "transports", {"op": "obf", "variant": v, "data": d.hex(), "publen": pl}, (v, d, pl)))
        # decoders on arbitrary bytes, lengths around their minimum
        for n in (list(range(0, 5)) + [30, 31, 32, 33, 46, 47, 48, 49, 64]) if quick else range(0, 70):
            d = bytes(rb(rng, n))
            out.append(Case("reveal", "transports", {"op": "reveal", "variant": v, "data": d.hex()}, (v, d)))
    return out


# ------------------------------------------------------------------ DNS messages
POOL = [b"a", b"b", b"example", b"com", b"org", b"WWW", b"www", b"x" * 63, b"t", b"a.b", b"a\\x2eb", b"-", b"0", bytes([0xff, 0]), b"Com"]


def pname(rng, maxlabels=5):
    """names from a small label pool so that suffixes repeat across the message"""
    k = rng.choice([0, 1, 1, 2, 2, 3, 3, 4, maxlabels])
    return [rng.choice(POOL) for _ in range(k)]


def mk_rr(rng, name, big=None):
    r = {"name": hexl(name), "type": rng.choice([1, 16, 41, 65535, rng.randrange(65536)]), "class": rng.choice([1, 4096, rng.randrange(65536)]),
         "ttl": rng.choice([0, 60, 0xffffffff, rng.getrandbits(32)]), "data": "", "dseed": 0, "dgen": 0}
    if big:
        r["dseed"], r["dgen"] = rng.randrange(1, 1 << 30), big
    else:
        r["data"] = rb(rng, rng.choice([0, 0, 1, 4, 16, 64])).hex()
    return r


def rr_data(r):
    return lcg_bytes(r["dseed"], r["dgen"]) if r.get("dgen") else bytes.fromhex(r["data"])


def mk_q(rng, name):
    return {"name": hexl(name), "type": rng.choice([1, 16, rng.randrange(65536)]), "class": rng.choice([1, rng.randrange(65536)])}


def empty_msg(rng):
    return {"id": rng.getrandbits(16), "flags": rng.choice([0x0100, 0x8000, 0x8400, rng.getrandbits(16)]), "q": [], "an": [], "ns": [], "ar": []}


def chain_msg(rng, depth, where="q"):
    """names a1, a2.a1, a3.a2.a1, ...: each encoded name ends in a pointer to the previous one"""
    m = empty_msg(rng)
    name = []
    for k in range(1, depth + 2):
        name = [b"a%d" % k] + name
        sec = where if where != "mix" else rng.choice(["q", "an", "ns", "ar"])
        m[sec].append(mk_q(rng, name) if sec == "q" else mk_rr(rng, name))
    if where == "mix":   # sections are written in order q, an, ns, ar: keep the nesting order
        names = [x["name"] for sec in ("q", "an", "ns", "ar") for x in m[sec]]
        names.sort(key=len)
        it = iter(names)
        for sec in ("q", "an", "ns", "ar"):
            for x in m[sec]:
                x["name"] = next(it)
    return m


def msg_names(m):
    return [unhexl(x["name"]) for sec in ("q", "an", "ns", "ar") for x in m[sec]]


def gen_msg(ctx):
    rng, quick = ctx.rng, ctx.tier == "quick"
    out = []

    def add(m):
        out.append(Case("msg_rt", "dns", {"op": "msg_rt", "msg": m}, m))
    for depth in range(0, 15):
        add(chain_msg(rng, depth, "q"))
        if not quick or depth in (9, 10, 11):
            add(chain_msg(rng, depth, "an"))
            add(chain_msg(rng, depth, "mix"))
    for _ in range(40 if quick else 1200):
        m = empty_msg(rng)
        for sec in ("q", "an", "ns", "ar"):
            for _ in range(rng.choice([0, 0, 1, 1, 2, 3, 6])):
                n = pname(rng)
                m[sec].append(mk_q(rng, n) if sec == "q" else mk_rr(rng, n))
        add(m)
    add(empty_msg(rng))
    # the requester's query and the responder's answer shapes
    m = empty_msg(rng)
    qn = [b"mfrggzdfmztwq2lknnwg23tpobyxe43uov3ho6dzpi" * 1, b"t", b"example", b"com"]
    m["q"].append({"name": hexl(qn), "type": 16, "class": 1})
    m["an"].append({"name": hexl(qn), "type": 16, "class": 1, "ttl": 60, "data": (b"\x05hello").hex(), "dseed": 0, "dgen": 0})
    m["ar"].append({"name": [], "type": 41, "class": 4096, "ttl": 0, "data": "", "dseed": 0, "dgen": 0})
    add(m)
    # offsets beyond 0x3fff: a large record in front, repeated names after it
    for big in ([16383 - 40, 16383 - 12, 16400] if quick else [16383 - 40, 16383 - 30, 16383 - 20, 16384, 16400, 40000]):
        for _ in range(1 if quick else 6):
            m = empty_msg(rng)
            early = pname(rng, 4) or [b"early"]
            m["q"].append(mk_q(rng, early))
            m["an"].append(mk_rr(rng, pname(rng), big=big))
            for _ in range(6):
                n = rng.choice([early, early[1:], [b"late"] + early, [b"late"], [b"late2", b"late"], pname(rng)])
                m[rng.choice(["an", "ns", "ar"])].append(mk_rr(rng, n))
            add(m)
    # RDATA length limit
    for n in ([65535, 65536] if quick else [65534, 65535, 65536, 65537, 70000]):
        m = empty_msg(rng)
        m["an"].append(mk_rr(rng, [b"big"], big=n))
        m["ns"].append(mk_rr(rng, [b"after", b"big"]))
        add(m)
    # names outside NewName's domain: the builder panics on a bad label, writes an over-long name
    for bad in ([[b""], [b"y" * 64], [b"ok", b"", b"z"], [b"x" * 63] * 4, [b"x" * 63] * 3 + [b"y" * 62]]):
        m = empty_msg(rng)
        m["q"].append(mk_q(rng, [b"fine"]))
        m[rng.choice(["q", "an"])].append(mk_q(rng, bad) if False else mk_rr(rng, bad))
        if "type" in m["q"][-1] and "ttl" in m["q"][-1]:
            m["an"].append(m["q"].pop())
        add(m)
    return out


def gen_msg_dec(ctx, wires):
    """decoder on arbitrary bytes: valid messages with flipped / removed / added bytes, pointer bytes planted, random strings"""
    rng, quick = ctx.rng, ctx.tier == "quick"
    out = []

    def add(d):
        out.append(Case("msg_dec", "dns", {"op": "msg_dec", "data": bytes(d).hex()}, bytes(d)))
    for w in wires[: (25 if quick else 600)]:
        add(w)
        for _ in range(3 if quick else 6):
            b = bytearray(w)
            r = rng.random()
            if r < 0.25:
                b = b[:rng.randrange(len(b) + 1)]
            elif r < 0.4:
                b += rb(rng, rng.choice([1, 2, 5]))
            elif r < 0.7 and b:
                i = rng.randrange(len(b))
                b[i] = rng.choice([0, 1, 0xC0, 0xC0, 0x3F, 0x40, 0xFF, b[i] ^ (1 << rng.randrange(8))])
            elif len(b) > 13:
                i = rng.randrange(12, len(b) - 1)      # plant a pointer (backward, forward or to itself)
                tgt = rng.choice([i, i + 2, rng.randrange(0, i + 1), 12, rng.randrange(0, 0x4000)])
                b[i], b[i + 1] = 0xC0 | (tgt >> 8) & 0x3F, tgt & 0xFF
            else:
                b[4:6] = bytes([0, rng.randrange(4)])   # question count
            add(b)
    hdr = bytes([0x12, 0x34, 0x01, 0x00, 0, 1, 0, 0, 0, 0, 0, 0])
    add(hdr + bytes([0xC0, 12, 0, 16, 0, 1]))                 # question name = pointer to itself
    add(hdr + bytes([0xC0, 14, 0xC0, 12, 0, 16, 0, 1]))       # two-cycle
    add(hdr + bytes([1, 97, 0xC0, 12, 0, 16, 0, 1]))          # label then pointer back to the label: unbounded name
    add(hdr + bytes([0x40, 0, 0, 16, 0, 1]))                  # reserved label type
    add(hdr + bytes([0x80, 0, 0, 16, 0, 1]))
    add(hdr + bytes([1, 97, 0, 0, 16, 0, 1, 0xFF]))           # trailing octet
    add(hdr + bytes([1, 97, 0, 0, 16, 0]))                    # cut inside the class
    add(hdr + bytes([0xC0, 0x3F]))                            # pointer beyond the buffer
    for _ in range(15 if quick else 400):
        n = rng.choice([0, 1, 5, 11, 12, 13, 17, 40])
        b = bytearray(rb(rng, n))
        if n >= 12 and rng.random() < 0.8:
            b[4:12] = bytes([0, rng.randrange(3), 0, rng.randrange(3), 0, rng.randrange(2), 0, rng.randrange(2)])
        add(b)
    return out


# ------------------------------------------------------------------ exchange
def b32l(d):
    import base64
    return base64.b32encode(bytes(d)).rstrip(b"=").lower()


def labels_of(enc):
    return [enc[i:i + 63] for i in range(0, len(enc), 63)]


def gen_query(ctx):
    """query messages for responder.responseFor: the requester's shape and one deviation at a time"""
    rng, quick = ctx.rng, ctx.tier == "quick"
    out = []
    dom = [b"t", b"example", b"com"]
    opt = {"name": [], "type": 41, "class": 4096, "ttl": 0, "data": "", "dseed": 0, "dgen": 0}

    def base(data=None, prefix=None, d=dom):
        pre = labels_of(b32l(data)) if prefix is None else prefix
        return {"id": rng.getrandbits(16), "flags": 0x0100, "q": [{"name": hexl(pre + d), "type": 16, "class": 1}],
                "an": [], "ns": [], "ar": [dict(opt)]}

    def add(m, d=dom):
        out.append(Case("qmsg", "dns", {"op": "msg_rt", "msg": m}, (m, d)))
    for n in [0, 1, 5, 49, 60, 100]:
        add(base(rb(rng, n)))
    for fl in [0x8100, 0x0900, 0x7900, 0x0000, 0x010f, rng.getrandbits(15)]:
        m = base(rb(rng, 10)); m["flags"] = fl; add(m)
    m = base(rb(rng, 10)); m["ar"] = []; add(m)
    m = base(rb(rng, 10)); m["ar"] = [dict(opt), dict(opt)]; add(m)
    m = base(rb(rng, 10)); m["ar"] = [dict(opt, type=1), dict(opt)]; add(m)
    m = base(rb(rng, 10)); m["ar"] = [dict(opt, ttl=0x00010000)]; add(m)
    m = base(rb(rng, 10)); m["ar"] = [dict(opt, ttl=0x01000000)]; add(m)
    m = base(rb(rng, 10)); m["ar"] = [dict(opt, ttl=0x00010000), dict(opt)]; add(m)
    for cl in [0, 100, 511, 512, 1231, 1232, 1233, 65535]:
        m = base(rb(rng, 10)); m["ar"] = [dict(opt, **{"class": cl})]; add(m)
    m = base(rb(rng, 10)); m["q"] = []; add(m)
    m = base(rb(rng, 10)); m["q"] = m["q"] * 2; add(m)
    m = base(rb(rng, 10)); m["q"][0]["type"] = 1; add(m)
    m = base(rb(rng, 10)); m["q"][0]["class"] = 3; add(m)
    add(base(rb(rng, 10), d=[b"t", b"example", b"org"]))          # not our domain
    add(base(rb(rng, 10), d=[b"T", b"Example", b"COM"]))          # same domain, other case
    add(base(rb(rng, 10), d=[b"example", b"com"]))                # shorter than the domain's suffix
    add(base(prefix=[]))
    for bad in [b"aaaaaaa1", b"aaaaaaa8", b"aaaa-aaa", b"a", b"aaa", b"aaaaaa", b"aaaaaaaaa", b"aaaaaaaaaaa", b"aaaaaaaaaaaaaa",
                b"AbCdEfGh", b"aa", b"aaaa", b"aaaaa", b"aaaaaaa", b"99999999", b"a=======", b"aaaaaaa="]:
        add(base(prefix=[bad]))
    for _ in range(4 if quick else 60):
        add(base(prefix=[bytes(rng.choice(b"abcdefghijklmnopqrstuvwxyz234567ABC0189-") for _ in range(rng.randrange(1, 30)))
                         for _ in range(rng.randrange(1, 3))]))
    return out


EXCH_DOMAINS = [[b"t", b"example", b"com"], [b"r"]]


def gen_exch(ctx):
    rng, quick = ctx.rng, ctx.tier == "quick"
    out = []

    def add(plen, rlen, dom):
        p, r = bytes(rb(rng, plen)), bytes(rb(rng, rlen))
        out.append(Case("exchange", "responder", {"op": "exchange", "data": p.hex(), "resp": r.hex(), "domain": hexl(dom)}, (p, r, dom)))
    for dom in EXCH_DOMAINS:
        for plen in ([0, 1, 50, 97, 98, 99, 105, 106, 107, 108, 150, 207, 208, 300] if quick else list(range(0, 112)) + [150, 206, 207, 208, 209, 300, 1000]):
            add(plen, rng.choice([0, 1, 20, 100]), dom)
        for rlen in ([0, 1, 255, 700, 900, 930, 940, 950, 960, 1000, 1200, 2000, 5000] if quick else
                     list(range(0, 40)) + list(range(230, 260)) + list(range(900, 1000, 3)) + [1200, 2000, 4076, 4078, 4080, 5000, 65517, 65520, 70000]):
            add(rng.choice([0, 8, 40]), rlen, dom)
    return out


def gen_burst(ctx):
    """k real requesters whose queries reach one real responder back to back (scripted PacketConn), GOMAXPROCS 1 and > 1"""
    rng, quick = ctx.rng, ctx.tier == "quick"
    out = []
    dom = EXCH_DOMAINS[0]
    plan = [(2, 1, 60), (3, 1, 40), (8, 1, 25), (2, 4, 60), (5, 4, 40), (8, 8, 25)]
    for k, procs, rounds in plan:
        rounds = rounds if quick else rounds * 8
        js = {"op": "burst", "k": k, "procs": procs, "rounds": rounds, "seed": rng.randrange(1 << 40), "keep": 1, "domain": hexl(dom)}
        out.append(Case("burst", "responder", js, (k, procs, rounds, dom)))
    return out


def post_burst(ctx, c):
    (k, procs, rounds, dom), r = c.aux, c.res
    if r.get("panic") or not r.get("ok"):
        ctx.broken("driver", "burst driver failed: %s %s" % (r.get("panic"), r.get("err")), {"fam": "burst", "k": k, "procs": procs})
        return None
    terms = []
    for ri, rd in enumerate(r.get("rounds") or []):
        case = {"fam": "burst", "k": k, "procs": procs, "round": ri, "seed": c.js["seed"],
                "clients": [{kk: cl[kk] for kk in ("payload", "qid", "rid", "nresp", "ok", "err", "timeout")} for cl in rd["clients"]]}
        if rd.get("err"):
            ctx.broken("driver", "burst round could not be set up: %s" % rd["err"], case)
            continue
        ctx.count(("burst", k, procs, ri, tuple(cl["payload"] for cl in rd["clients"])), kind="burst/k%d/procs%d" % (k, procs))
        for ci, cl in enumerate(rd["clients"]):
            p = bytes.fromhex(cl["payload"])
            want = b"ans:" + p[::-1]
            if cl["nresp"] != 1 or cl["rid"] != cl["qid"] or not cl["ok"] or bytes.fromhex(cl["out"]) != want:
                ctx.fail("exchange/concurrent/misrouted",
                         "%d queries back to back (GOMAXPROCS %d): client %d (DNS ID %#06x) was sent %d datagram(s), the first with DNS ID %#06x; "
                         "RequestAndRecv returned %s instead of the answer to its own %d-byte payload"
                         % (k, procs, ci, cl["qid"], cl["nresp"], cl["rid"],
                            "nothing (timeout)" if cl["timeout"] else "error %r" % cl["err"] if not cl["ok"] else "other bytes", len(p)), case)
            if cl.get("qwire") and cl.get("rwire"):
                terms.append("CExch %s %s %s %s %s %s" % (gname(dom), gN(len(p)), hexs(bytes.fromhex(cl["qwire"])), gN(len(want)),
                                                        hexs(bytes.fromhex(cl["rwire"])), gbool(not cl["ok"])))
        if sorted(rd.get("seen") or []) != sorted(cl["payload"] for cl in rd["clients"]):
            ctx.fail("exchange/concurrent/callback", "%d queries back to back (GOMAXPROCS %d): the callback was not given each payload exactly once"
                     % (k, procs), case)
    return terms



# ------------------------------------------------------------------ batches: k calls whose results are all held
# Every encoder of the property is also run in "batch" mode: the whole list of inputs goes through the encoder first and
# the caller keeps every output (the driver does not copy them); then every held output is decoded, every decoded value
# is kept as well, and only then is anything looked at.  Oracle: (i) output i after all calls = output i as it was right
# after call i, (ii) decode(output i) = input i at the end, (iii) freshness across the held encodings where the property
# demands it.  The model's encoders are pure functions of (input, randomness), so its batch result is the map of the
# single results (C15_seq_* theorems); the correspondence evaluates the model on the batch the implementation produced.
MODES = {"seq": {}, "shared": {"shared": True}, "conc2p1": {"conc": 2, "procs": 1}, "conc2p4": {"conc": 2, "procs": 4}}
T_DOMAIN = [b"t", b"example", b"com"]


def item_of_js(j):
    """a batch item (the same shape as the single case of that op) from its JSON alone"""
    op = j["op"]
    d = bytes.fromhex(j.get("data") or "")
    if op in ("rt_req", "rt_resp"):
        return Case("fmt", "msgformat", j, d)
    if op in ("rt_txt", "dec_txt"):
        return Case("fmt", "dns", j, d)
    if op == "obf":
        return Case("obf", "transports", j, (j["variant"], d, j.get("publen", 32)))
    if op == "name_rt":
        return Case("name_rt", "dns", j, unhexl(j["labels"]))
    if op == "msg_rt":
        return Case("msg_rt", "dns", j, j["msg"])
    if op == "msg_dec":
        return Case("msg_dec", "dns", j, d)
    if op == "pb_rt":
        return Case("pb_rt", "transports", j, (j["kind"], j["pb"]))
    if op == "anypb":
        return Case("anypb", "transports", j, (j["kind"], j["dstkind"], j["url"], tuple(j["fields"]), False))
    if op == "send":
        return Case(op, "requester", j, (d, unhexl(j["domain"])))
    raise KeyError(op)


def it_fmt(op, d):
    return Case("fmt", "dns" if "txt" in op else "msgformat", {"op": op, "data": bytes(d).hex()}, d)


def it_obf(v, t):
    return Case("obf", "transports", {"op": "obf", "variant": v, "data": bytes(t).hex(), "publen": 32}, (v, bytes(t), 32))


def mk_batch(items, label, mode, **top):
    js = dict({"op": "batch", "items": [it.js for it in items]}, **MODES[mode])
    js.update(top)
    return Case("batch", items[0].pkg, js, {"items": items, "label": label, "mode": mode, "top": top})


def gen_batch(ctx):
    rng, quick = ctx.rng, ctx.tier == "quick"
    out = []

    def lens_variation(base):
        """the fixed pattern (equal / smaller / larger than the earlier ones), then the same lengths in a random order"""
        ls = list(base)
        rng.shuffle(ls)
        return [list(base), ls]
    # length framings and TXT
    for op, base, big in (("rt_req", [7, 7, 3, 12, 0, 255, 256, 1], None), ("rt_resp", [4, 4, 2, 300, 0, 1000, 1], [3, 65535, 65536, 5, 65535]),
                          ("rt_txt", [3, 3, 1, 300, 0, 255, 256, 2], None)):
        for mode in ("seq", "shared", "conc2p1"):
            for ls in lens_variation(base)[: (1 if mode != "seq" else 2)]:
                out.append(mk_batch([it_fmt(op, rb(rng, n)) for n in ls], "fmt/" + op, mode))
        if big:
            out.append(mk_batch([it_fmt(op, rb(rng, n)) for n in big], "fmt/" + op, "seq"))
    if not quick:
        for op in ("rt_req", "rt_resp", "rt_txt"):
            for _ in range(30):
                out.append(mk_batch([it_fmt(op, rb(rng, rng.choice([0, 1, 2, 5, 17, 254, 255, 256, 300]))) for _ in range(rng.randrange(2, 12))],
                                    "fmt/" + op, rng.choice(["seq", "shared", "conc2p1", "conc2p4"])))
    # TXT decoder alone on held inputs
    txts = [bytes([3]) + b"abc", bytes([3]) + b"xyz", bytes([1]) + b"q", bytes([255]) + rb(rng, 255) + bytes([2]) + b"zz", bytes([0]), bytes([5]) + b"ab",
            bytes([2]) + b"pq"]
    out.append(mk_batch([it_fmt("dec_txt", t) for t in txts], "fmt/dec_txt", "seq"))
    # tag obfuscators: the same tag several times (>= 5: with two random bits only, a reused ephemeral key must repeat an
    # encoding), tags of equal, smaller and larger length than the earlier ones, the empty tag
    for v in VARIANTS:
        a, b_, c_, d_, e_ = rb(rng, 16), rb(rng, 16), rb(rng, 8), rb(rng, 32), rb(rng, 1)
        tags = [a, b_, a, c_, d_, a, a, a, a, e_, b""]
        modes = [("seq", "one"), ("seq", "each"), ("shared", "one"), ("conc2p1", "one"), ("conc2p4", "each")]
        if v == "nil":      # the identity: its output IS the caller's input buffer, so the caller may not reuse that buffer
            modes = [("seq", "one"), ("conc2p1", "one")]
        for mode, keys in modes:
            ts = list(tags)
            if (mode, keys) != ("seq", "one"):
                rng.shuffle(ts)
            out.append(mk_batch([it_obf(v, t) for t in ts], "obf/" + v, mode, variant=v, keys=keys))
        for _ in range(1 if quick else 30):
            pool = [rb(rng, rng.choice([1, 2, 8, 16, 16, 20, 32, 100])) for _ in range(3)]
            ts = [rng.choice(pool) for _ in range(rng.randrange(3, 10))]
            out.append(mk_batch([it_obf(v, t) for t in ts], "obf/" + v, rng.choice([m for m, _ in modes]), variant=v, keys=rng.choice(["one", "each"])))
    # names: one fresh builder per name, every encoding held
    names = [[b"a", b"b", b"c"], [b"a", b"b", b"c"], [b"x"], [b"p" * 63, b"q" * 63], [b"y" * 64], [], [b"WWW", b"example", b"com"], [b"www", b"example", b"com"],
             split_labels(rng, 255), [rlabel(rng, 5), rlabel(rng, 1)]]
    for mode in ("seq", "conc2p1"):
        ns = list(names)
        if mode != "seq":
            rng.shuffle(ns)
        out.append(mk_batch([Case("name_rt", "dns", {"op": "name_rt", "labels": hexl(n)}, n) for n in ns], "name_rt", mode))
    # DNS messages
    def msgs():
        ms = [chain_msg(rng, 3, "q"), chain_msg(rng, 11, "an")]
        for _ in range(3):
            m = empty_msg(rng)
            for sec in ("q", "an", "ns", "ar"):
                for _ in range(rng.choice([0, 1, 2, 3])):
                    n = pname(rng)
                    m[sec].append(mk_q(rng, n) if sec == "q" else mk_rr(rng, n))
            ms.append(m)
        ms.append(dict(ms[0]))      # the same message again
        ms.append(empty_msg(rng))
        return ms
    for mode in ("seq", "conc2p1") + (() if quick else ("seq", "seq", "conc2p4")):
        out.append(mk_batch([Case("msg_rt", "dns", {"op": "msg_rt", "msg": m}, m) for m in msgs()], "msg_rt", mode))
    # protobuf: Marshal k messages, hold the byte slices; Unmarshal them, hold the messages
    for kind in ("generic", "prefix", "dtls", "any", "mixed"):
        for mode in ("seq",) + (("conc2p1",) if kind in ("prefix", "mixed") or not quick else ()):
            its = []
            for _ in range(5):
                k = kind if kind != "mixed" else rng.choice(["generic", "prefix", "dtls", "any"])
                v = rand_pb(rng, k)
                its.append(Case("pb_rt", "transports", {"op": "pb_rt", "kind": k, "pb": v}, (k, v)))
            its.append(Case("pb_rt", "transports", dict(its[0].js), its[0].aux))
            out.append(mk_batch(its, "pb_rt", mode))
    its = []
    for kind, (_, _, nf) in KINDS.items():
        if kind == "c2s":
            continue
        for mode_ in ("empty", "keep", "tapdance"):
            f = [rng.choice([-1, 0, 1]) if i == 0 or kind != "prefix" else rng.choice([-1, 0, 1, rng.randrange(2, 9)]) for i in range(nf)]
            its.append(Case("anypb", "transports", {"op": "anypb", "kind": kind, "dstkind": kind, "url": mode_, "fields": f, "nilsrc": False},
                            (kind, kind, mode_, tuple(f), False)))
    rng.shuffle(its)
    out.append(mk_batch(its, "anypb", "seq"))
    # the requester's packet -> query path on ONE DNSPacketConn (WriteTo -> queue -> sendLoop -> send).  encodeName alone is
    # not run in batch mode: the Name it returns is used up by send before the next call, so a recycled scratch buffer
    # inside it would be a behaviour-preserving change
    for dom in (T_DOMAIN, [b"r"]):
        room = 255 - wire_len(dom)
        edge = max(0, (room * 63 // 64) * 5 // 8)
        plens = [10, 10, 3, 50, edge, edge + 1, 0, 1, edge - 1]
        for label, mode in (("send", "seq"), ("send", "shared")):
            its = [Case(label, "requester", {"op": label, "data": d.hex(), "domain": hexl(dom)}, (d, dom)) for d in (rb(rng, n) for n in plens)]
            out.append(mk_batch(its, label, mode, domain=hexl(dom)))
    return out


def gen_seq_exchange(ctx):
    """one requester, one responder: k exchanges in a row (errors in the middle must not disturb the later ones);
    k responses reaching the requester's receive loop back to back"""
    rng, quick = ctx.rng, ctx.tier == "quick"
    out = []
    for dom in EXCH_DOMAINS:
        for _ in range(1 if quick else 6):
            plan = [(8, 20), (8, 3), (40, 700), (1, 0), (90, 100), (150, 10), (5, 1500), (0, 33), (8, 20)]
            if not quick:
                rng.shuffle(plan)
            its = []
            for pl, rl in plan:
                p_, r_ = bytes(rb(rng, pl)), bytes(rb(rng, rl))
                its.append(Case("exchange", "responder", {"op": "exchange", "data": p_.hex(), "resp": r_.hex(), "domain": hexl(dom)}, (p_, r_, dom)))
            out.append(Case("exchange_seq", "responder", {"op": "exchange_seq", "domain": hexl(dom), "items": [it.js for it in its]}, {"items": its, "dom": dom}))
    for lens in ([5, 5, 0, 300, 900, 1], [rng.choice([0, 1, 2, 17, 255, 256, 600]) for _ in range(16)]):
        ps = [bytes(rb(rng, n)) for n in lens]
        out.append(Case("rburst", "requester", {"op": "rburst", "domain": hexl(T_DOMAIN), "items": [{"op": "rburst", "data": p_.hex()} for p_ in ps]}, ps))
    return out


class Px:
    """the check context as seen by the single-case oracle of one batch item: keys get the prefix seq/, the failing case is the batch"""

    def __init__(self, ctx, bc, i):
        self._ctx, self._bc, self._i = ctx, bc, i

    def __getattr__(self, name):
        return getattr(self._ctx, name)

    def _case(self, inner):
        js = self._bc.js
        small = len(repr(js)) < 20000
        return {"fam": self._bc.fam, "label": self._bc.aux.get("label"), "mode": self._bc.aux.get("mode"), "item": self._i, "inner": inner,
                "js": js if small else None}

    def count(self, case_repr, nontrivial=True, kind=None):
        self._ctx.count(("seq", self._bc.aux.get("label"), self._bc.aux.get("mode"), self._i, case_repr), nontrivial=nontrivial)

    def fail(self, key, what, case):
        n = len(self._bc.aux["items"])
        self._ctx.fail("seq/" + key, "call %d of %d (%s; every result is kept until all calls are made and only then decoded): %s"
                       % (self._i + 1, n, self._bc.aux.get("mode", "in a row"), what), self._case(case))

    def broken(self, kind, what, case=None):
        self._ctx.broken(kind, what, self._case(case))


def adapt_item(it, ir):
    """the batch driver's record of item i in the shape of the single case of that op"""
    op = it.js["op"]
    if op == "dec_txt":       # decoder alone: the "encoding" is the caller's own input
        return dict(ir, ok=ir["ok2"], out=ir["out2"], ok2=False, out2="", dec=ir["ok2"], snap=None)
    if op == "msg_dec":
        return dict(ir, ok=ir["ok2"], err=ir["err2"], dec=ir["ok2"], snap=None)
    if op == "send":          # the datagram is handed to the transport's Write (which must not keep it): nothing is held
        return dict(ir, snap=None, dec=False)
    return dict(ir, dec=ir.get("ok2"))


def attach_batch(ctx, c):
    """give every item of a batch its result (so that batch items can go through the second Go stage like single cases)"""
    r = c.res or {}
    items = c.aux["items"]
    if r.get("panic") or not r.get("ok") or len(r.get("items") or []) != len(items):
        return False
    for i, (it, ir) in enumerate(zip(items, r["items"])):
        it.res = adapt_item(it, ir)
        it.px = Px(ctx, c, i)
    return True


def first_diff(a, b):
    for i, (x, y) in enumerate(zip(a, b)):
        if x != y:
            return i
    return min(len(a), len(b))


def post_batch(ctx, c):
    items, label, mode, r = c.aux["items"], c.aux["label"], c.aux["mode"], c.res
    if items[0].res is None:
        ctx.broken("driver", "batch driver failed (%s, %s): %s %s" % (label, mode, r.get("panic"), r.get("err")), {"fam": "batch", "label": label, "mode": mode})
        return None
    ctx.count(("batch", label, mode, repr(c.js)), kind="batch/%s/%s" % (label, mode))
    n = len(items)
    # (i) what the caller holds after the last call is what it was given by its own call; decoded values likewise
    for i, it in enumerate(items):
        ir, px = it.res, it.px
        if ir.get("snap") is not None and ir.get("ok") and ir["snap"] != ir["out"]:
            a, b = bytes.fromhex(ir["snap"]), bytes.fromhex(ir["out"])
            later = [j for j, jt in enumerate(items) if j != i and jt.res.get("ok") and jt.res.get("snap") == ir["out"]]
            ctx.fail("seq/%s/output-changed" % label,
                     "call %d of %d (%s): the encoding this call returned (%d bytes, held by the caller, not copied) was changed by a later call: "
                     "first difference at byte %d, now %d bytes%s" % (i + 1, n, mode, len(a), first_diff(a, b), len(b),
                                                                      "; it now equals the encoding returned by call %d" % (later[0] + 1) if later else ""),
                     px._case({"snap": short(a), "now": short(b)}))
        if ir.get("dec") and ir.get("decstable") is False:
            ctx.fail("seq/%s/decoded-changed" % label, "call %d of %d (%s): the decoded value this call returned (held by the caller) was changed "
                     "by a later decoder call" % (i + 1, n, mode), px._case({}))
    # (ii) + the model: the single-case oracle and term of every item, on what is held at the end
    terms = []
    for it in items:
        if it.fam in TERMS:
            t = TERMS[it.fam](it.px, it)
            terms += t if isinstance(t, list) else [t] if t else []
    # (iii) freshness across the held encodings
    if label.startswith("obf/") and label != "obf/nil":
        v = label[4:]
        seen, heads = {}, {}
        for i, it in enumerate(items):
            ir, t = it.res, it.aux[1]
            if not ir.get("ok") or (v == "xor" and len(t) < 8):
                continue
            e = bytes.fromhex(ir["out"])
            if e in seen:
                ctx.fail("seq/obf/%s/fresh" % v, "calls %d and %d of %d (%s): two held encodings (of %s) are byte-identical"
                         % (seen[e] + 1, i + 1, n, mode, "the same %d-byte tag" % len(t) if items[seen[e]].aux[1] == t else "two tags"), it.px._case({"encoding": short(e)}))
            seen.setdefault(e, i)
            if v in ("ctr", "gcm"):
                h = e[:32]
                if h in heads and e not in (bytes.fromhex(items[heads[h]].res["out"]),):
                    ctx.fail("seq/obf/%s/fresh-header" % v, "calls %d and %d of %d (%s): two held encodings carry the same 32-byte header (the same "
                             "ephemeral key and random bits)" % (heads[h] + 1, i + 1, n, mode), it.px._case({"header": h.hex()}))
                heads.setdefault(h, i)
    # the same batch through the sequence functions of the C15_seq theorems (enc_each / dec_each)
    seqd = {"fmt/rt_req": 0, "fmt/rt_resp": 1, "fmt/rt_txt": 4, "obf/nil": 11}
    if label in seqd or label == "obf/xor":
        ins = [it.aux if it.fam == "fmt" else it.aux[1] for it in items]
        rs = [it.res for it in items]
        if label == "obf/xor":
            terms.append("CSeqXor [%s] [%s]" % ("; ".join(hexs(t) for t in ins), "; ".join(
                "(%s, %s, %s, %s)" % (gbool(r_["ok"]), hexs(bytes.fromhex(r_["out"])), gbool(r_["ok2"]), hexs(bytes.fromhex(r_["out2"]))) for r_ in rs)))
        else:
            terms.append("CSeqD %s [%s] [%s]" % (gN(seqd[label]), "; ".join(bspec_in(d) for d in ins), "; ".join(
                "(%s, %s, %s, %s)" % (gbool(r_["ok"]), bspec_obs(bytes.fromhex(r_["out"])), gbool(r_["ok2"]), bspec_obs(bytes.fromhex(r_["out2"]))) for r_ in rs)))
    al = sorted(set(it.js["op"] + ("/" + it.js["variant"] if "variant" in it.js else "") for it in items if it.res.get("alias")))
    if al:
        ctx.cov.setdefault("decoded_value_shares_input_storage", [])
        ctx.cov["decoded_value_shares_input_storage"] = sorted(set(ctx.cov["decoded_value_shares_input_storage"]) | set(al))
    if not terms:
        return None
    seq_terms = [t for t in terms if t.startswith("CSeq")]
    return ["CBatch [%s]" % "; ".join(t for t in terms if not t.startswith("CSeq"))] + seq_terms


def post_exchange_seq(ctx, c):
    items, dom, r = c.aux["items"], c.aux["dom"], c.res
    case = {"fam": "exchange_seq", "domain": hexl(dom)}
    if r.get("panic"):
        ctx.fail("seq/exchange/panic", "a sequence of exchanges panicked: %s" % r["panic"], case)
        return None
    if not r.get("ok") or len(r.get("items") or []) != len(items):
        ctx.broken("driver", "exchange_seq driver could not set up the sockets: %s" % r.get("err"), case)
        return None
    ctx.count(("exchange_seq", repr(c.js)), kind="exchange_seq")
    c.aux["label"], c.aux["mode"] = "exchange", "one requester, one responder, in a row"
    terms = []
    for i, (it, ir) in enumerate(zip(items, r["items"])):
        if not ir.get("ran"):
            continue
        it.res, it.px = ir, Px(ctx, c, i)
        t = post_exchange(it.px, it)
        if t:
            terms.append(t)
    return ["CBatch [%s]" % "; ".join(terms)] if terms else None


def post_rburst(ctx, c):
    ps, r = c.aux, c.res
    case = {"fam": "rburst", "js": c.js}
    if r.get("panic") or r.get("err"):
        ctx.broken("driver", "rburst driver failed: %s %s" % (r.get("panic"), r.get("err")), case)
        return None
    ctx.count(("rburst", repr(c.js)), kind="rburst")
    got = unhexl(r.get("msgs"))
    if got != ps:
        k = next((i for i, (a, b) in enumerate(zip(got, ps)) if a != b), min(len(got), len(ps)))
        ctx.fail("recv/burst/misdelivered", "%d responses reached the requester's receive loop back to back; the queue then held %d packets and packet %d "
                 "is not the payload of response %d (%s)" % (len(ps), len(got), k + 1, k + 1,
                                                             "missing" if k >= len(got) else "%d bytes instead of %d" % (len(got[k]), len(ps[k]))), case)
    return None



# ------------------------------------------------------------------ the stream-cipher shape of CTR / GCM (ModelStream.v)
def gen_stream(ctx):
    rng, quick = ctx.rng, ctx.tier == "quick"
    out = []
    for n in ([0, 1, 15, 16, 17, 31, 32, 33, 100] if quick else list(range(0, 70)) + [100, 255, 256, 1000]):
        d, key, iv = rb(rng, n), rb(rng, 16), rb(rng, 16)
        out.append(Case("stream", "transports", {"op": "stream", "data": bytes(d).hex(), "key": key.hex(), "iv": iv.hex()}, (bytes(d), key, iv)))
    for v in ("ctr", "gcm"):
        for n in ([1, 16, 33] if quick else [0, 1, 2, 15, 16, 17, 32, 33, 100]):
            total = 32 + n + (16 if v == "gcm" else 0)
            regions = {"header": (0, 32), "body": (32, 32 + n)}
            if v == "gcm":
                regions["tag"] = (32 + n, total)
            for reg, (lo, hi) in regions.items():
                if hi <= lo:
                    continue
                for _ in range(2 if quick else 6):
                    pos = rng.randrange(8 * lo, 8 * hi)
                    t = rb(rng, n)
                    out.append(Case("damage", "transports", {"op": "damage", "variant": v, "data": bytes(t).hex(), "pos": pos}, (v, bytes(t), pos, reg)))
    return out


def xorb(a, b):
    return bytes(x ^ y for x, y in zip(a, b))


def post_stream(ctx, c):
    (d, key, iv), r = c.aux, c.res
    case = {"fam": "stream", "data": d.hex(), "key": key.hex(), "iv": iv.hex()}
    if r.get("panic") or not r["ok"] or not r["ok2"]:
        ctx.broken("driver", "the AES helpers failed on a generated case: %s %s %s" % (r.get("panic"), r["err"], r["err2"]), case)
        return None
    ctx.count(("stream", d, key, iv), kind="stream")
    o, ks, go, gks = (bytes.fromhex(r[k]) for k in ("out", "out1b", "out2", "snap"))
    n = len(d)
    if not (len(ks) == n and o == xorb(ks, d)):
        ctx.fail("stream-hypothesis/ctr", "aesCTR(m) is not m XOR aesCTR(zeros): the stream-cipher shape assumed for CTR (ModelStream.ctr_of) "
                 "does not describe the real function", case)
    if not (len(go) == n + 16 and len(gks) == n + 16 and go[:n] == xorb(gks[:n], d)):
        ctx.fail("stream-hypothesis/gcm", "aesGcmEncrypt(m) is not (m XOR keystream) followed by a 16-octet authenticator: the shape assumed for "
                 "GCM (ModelStream.seal_of) does not describe the real function", case)
    return "CStream %s %s %s %s %s" % (hexs(d), hexs(ks), hexs(o), hexs(gks), hexs(go))


def post_damage(ctx, c):
    (v, t, pos, reg), r = c.aux, c.res
    case = {"fam": "damage", "variant": v, "data": t.hex(), "pos": pos, "encoding": r.get("out"), "damaged": r.get("out1b")}
    if r.get("panic"):
        ctx.fail("reveal/%s/panic" % v, "TryReveal panicked on a damaged encoding: %s" % r["panic"], case)
        return None
    if not r["ok"]:
        ctx.broken("driver", "Obfuscate failed on a generated case: %s" % r["err"], case)
        return None
    ctx.count(("damage", v, t, pos), kind="damage/%s/%s/%s" % (v, reg, "accepted" if r["ok2"] else "rejected"))
    if v == "gcm" and reg == "tag" and r["ok2"]:
        ctx.fail("reveal/gcm/damaged-tag-accepted", "GCM TryReveal accepted an encoding of a %d-byte tag whose authenticator (bit %d of the "
                 "encoding) was altered" % (len(t), pos), case)
    if v == "ctr" and reg == "body":
        b = pos - 256
        want = bytearray(t)
        want[b // 8] ^= 1 << (b % 8)
        if not (r["ok2"] and bytes.fromhex(r["out2"]) == bytes(want)):
            ctx.fail("stream-hypothesis/ctr-reveal", "CTR TryReveal of an encoding with bit %d flipped is not the tag with that bit flipped: the "
                     "stream-cipher shape assumed for CTR does not describe the reveal path" % pos, case)
    return None


def txt_len(n):
    return n + max(1, -(-n // 255))


def post_exchange(ctx, c):
    (p, resp, dom), r = c.aux, c.res
    case = {"fam": "exchange", "data": p.hex(), "resp": resp.hex() if len(resp) < 300 else "len:%d" % len(resp), "domain": hexl(dom)}
    if r.get("panic"):
        ctx.fail("exchange/panic", "the exchange panicked: %s" % r["panic"], case)
        return None
    if r["err"].startswith(("keygen", "responder:", "requester:")):
        ctx.broken("driver", "exchange driver could not set up the sockets: %s" % r["err"], case)
        return None
    labels = labels_of(b32l(bytes(49 + len(p)))) + list(dom)
    req_ok = 48 + len(p) <= 255 and representable(labels)
    body = 2 + 16 + len(resp)
    qname = wire_len(labels)
    dgram = 12 + qname + 4 + (2 + 10 + txt_len(body)) + 11
    resp_ok = dgram <= 1232 and 16 + len(resp) <= 65535
    # beyond the 16-bit framing / RDLENGTH the responder's encoders return an error (logged there) and nothing is sent:
    # the requester then sees what it sees for a lost datagram (it has no timeout of its own) - it must not return a value
    resp_encodable = 16 + len(resp) <= 65535 and txt_len(body) <= 65535
    kind = ("req-too-long" if not req_ok else "ok" if resp_ok else "resp-too-long" if resp_encodable else "resp-unencodable")
    ctx.count(("exchange", p, resp, tuple(dom)), kind="exchange/" + kind)
    seen = bytes.fromhex(r["seenpay"]) if r["seen"] else None
    if not req_ok:
        if r["timeout"]:
            ctx.fail("exchange/oversize-request/no-error", "RequestAndRecv neither sent nor reported an error for a %d-byte payload whose "
                     "query name cannot be represented (it blocks; the send error is only logged)" % len(p), case)
        elif r["ok2"] or r["seen"]:
            ctx.fail("exchange/oversize-request/accepted", "a %d-byte payload beyond the request format was delivered or answered" % len(p), case)
        return None
    if r["timeout"] and resp_encodable:
        ctx.fail("exchange/timeout", "no result for a representable %d-byte request (answer %d bytes)" % (len(p), len(resp)), case)
        return None
    if seen != p:
        ctx.fail("exchange/request", "the responder's callback was given %s instead of the %d-byte payload" % (
            "nothing" if seen is None else "%d other bytes" % len(seen), len(p)), case)
    if resp_ok:
        if not (r["ok2"] and bytes.fromhex(r["out2"]) == resp):
            ctx.fail("exchange/response", "RequestAndRecv returned %s instead of the callback's %d-byte answer" % (
                "error %r" % r["err"] if not r["ok2"] else "%d other bytes" % (len(r["out2"]) // 2), len(resp)), case)
    elif r["ok2"]:
        ctx.fail("exchange/oversize-response/accepted", "RequestAndRecv returned %d bytes for an answer of %d bytes that does not fit a datagram"
                 % (len(r["out2"]) // 2, len(resp)), case)
    if not r["qwire"] or not r["rwire"]:
        return None
    return "CExch %s %s %s %s %s %s" % (gname(dom), gN(len(p)), hexs(bytes.fromhex(r["qwire"])), gN(len(resp)),
                                        hexs(bytes.fromhex(r["rwire"])), gbool(not r["ok2"]))


def post_qmsg(ctx, c):
    return None


def post_query(ctx, c):
    (m, dom), r = c.aux.aux, c.res
    case = {"fam": "query", "msg": msg_brief(m), "domain": hexl(dom)}
    if r.get("panic"):
        ctx.fail("query/panic", "responseFor panicked: %s" % r["panic"], case)
        return None
    if not r["ok"]:
        ctx.broken("driver", "a generated query did not parse: %s" % r["err"], case)
        return None
    rcode = (r["flags"] & 15) if r["hasresp"] else -1
    ctx.count(("query", msg_key(m), tuple(dom)), kind="query/" + ("payload" if r["haspay"] else "none" if not r["hasresp"] else "rcode%d" % rcode))
    return "CQuery %s %s %s %s %s %s" % (g_msg(m, g_in_rr), gname(dom), gbool(r["hasresp"]), gN(r["flags"]), gbool(r["haspay"]),
                                         hexs(bytes.fromhex(r["out"])))


# ------------------------------------------------------------------ protobuf codec
def pb_varint(n):
    out = bytearray()
    while n >= 128:
        out.append(128 | (n & 127))
        n >>= 7
    out.append(n)
    return bytes(out)


def pb_field(num, wt, payload):
    """payload: int for wire type 0, bytes otherwise (length prefix added for wire type 2)"""
    t = pb_varint(num * 8 + wt)
    if wt == 0:
        return t + pb_varint(payload)
    if wt == 2:
        return t + pb_varint(len(payload)) + payload
    return t + payload


PBKIND = {"generic": 0, "prefix": 1, "dtls": 2, "any": 3}
UNKS = [b"", pb_field(100, 0, 7), pb_field(5, 2, b"xyz"), pb_field(13, 2, b"\x01"), pb_field(1, 5, b"abcd"), pb_field(2, 1, b"12345678"),
        pb_field(3, 2, b""), pb_field(536870911, 0, 1), pb_field(6, 0, 1 << 63) + pb_field(9, 0, 0), pb_field(4, 2, b"q")]


def rand_pb(rng, kind):
    ob = lambda: rng.choice([None, True, False])   # noqa: E731
    oi = lambda: rng.choice([None, 0, 1, -1, -3, 2147483647, -2147483648, rng.randrange(-1 << 31, 1 << 31)])   # noqa: E731
    oby = lambda: rng.choice([None, "", rb(rng, rng.choice([1, 4, 16])).hex()])   # noqa: E731
    unk = rng.choice(UNKS).hex()
    if kind == "generic":
        return {"rand": ob(), "unk": unk}
    if kind == "prefix":
        return {"id": oi(), "prefix": oby(), "flush": oi(), "rand": ob(), "unk": unk}
    if kind == "dtls":
        def addr():
            if rng.random() < 0.3:
                return None
            return {"ip": oby(), "port": rng.choice([None, 0, 53, 65535, 4294967295]), "unk": rng.choice(UNKS[:3] + [pb_field(1, 0, 5)]).hex()}
        return {"src4": addr(), "src6": addr(), "rand": ob(), "unordered": ob(), "unk": unk}
    url = rng.choice([b"", b"type.googleapis.com/proto.GenericTransportParams", b"x"])
    return {"url": url.hex(), "value": rb(rng, rng.choice([0, 1, 9])).hex(), "unk": rng.choice(UNKS[:3]).hex()}


def pb_encode(kind, v):
    """the harness' own encoder (inputs for the decoders; compared with proto.Marshal through the model)"""
    out = b""
    b2 = lambda x: 1 if x else 0   # noqa: E731
    i32 = lambda z: z if z >= 0 else (1 << 64) + z   # noqa: E731
    if kind == "generic":
        if v.get("rand") is not None:
            out += pb_field(13, 0, b2(v["rand"]))
    elif kind == "prefix":
        if v.get("id") is not None:
            out += pb_field(1, 0, i32(v["id"]))
        if v.get("prefix") is not None:
            out += pb_field(2, 2, bytes.fromhex(v["prefix"]))
        if v.get("flush") is not None:
            out += pb_field(3, 0, i32(v["flush"]))
        if v.get("rand") is not None:
            out += pb_field(13, 0, b2(v["rand"]))
    elif kind == "dtls":
        for num, key in ((1, "src4"), (2, "src6")):
            a = v.get(key)
            if a is not None:
                ab = b""
                if a.get("ip") is not None:
                    ab += pb_field(1, 2, bytes.fromhex(a["ip"]))
                if a.get("port") is not None:
                    ab += pb_field(2, 0, a["port"])
                out += pb_field(num, 2, ab + bytes.fromhex(a.get("unk", "")))
        if v.get("rand") is not None:
            out += pb_field(3, 0, b2(v["rand"]))
        if v.get("unordered") is not None:
            out += pb_field(4, 0, b2(v["unordered"]))
    else:
        if v.get("url"):
            out += pb_field(1, 2, bytes.fromhex(v["url"]))
        if v.get("value"):
            out += pb_field(2, 2, bytes.fromhex(v["value"]))
    return out + bytes.fromhex(v.get("unk", ""))


def gen_pb(ctx):
    rng, quick = ctx.rng, ctx.tier == "quick"
    out = []
    kinds = ["generic", "prefix", "dtls", "any"]
    samples = {k: [] for k in kinds}
    for k in kinds:
        for _ in range(14 if quick else 300):
            v = rand_pb(rng, k)
            samples[k].append(v)
            out.append(Case("pb_rt", "transports", {"op": "pb_rt", "kind": k, "pb": v}, (k, v)))

    def dec(k, d):
        out.append(Case("pb_dec", "transports", {"op": "pb_dec", "kind": k, "data": bytes(d).hex()}, (k, bytes(d))))
    ten = lambda last: b"\xff" * 9 + bytes([last])   # noqa: E731
    hand = [b"", pb_field(13, 0, 1) + pb_field(13, 0, 0), pb_field(13, 0, 2), pb_field(13, 0, 1 << 63), b"\x68" + ten(1), b"\x68" + ten(2),
            b"\x68\x80\x80\x00", b"\x68", b"\x68\x80", b"\x00\x01", pb_varint(536870912 * 8) + b"\x01", pb_varint(536870911 * 8) + b"\x01",
            b"\x0e\x01", b"\x0f\x01", b"\x0b\x0c", b"\x0c", b"\x0b", pb_field(1, 0, (1 << 32) + 5), pb_field(1, 0, (1 << 31)), pb_field(3, 0, (1 << 64) - 1),
            pb_field(2, 2, b"ab") + pb_field(2, 2, b""), b"\x12\x05ab", b"\x12" + ten(1), pb_field(1, 2, pb_field(1, 2, b"\x7f")) + pb_field(1, 2, pb_field(2, 0, 9)),
            pb_field(1, 2, b"\x08"), pb_field(1, 2, pb_field(2, 0, (1 << 40) + 3)), pb_field(2, 2, pb_field(7, 5, b"wxyz")), pb_field(1, 5, b"abc"),
            pb_field(1, 1, b"1234567"), pb_field(1, 1, b"12345678"), pb_field(1, 2, b"type.googleapis.com/x") + pb_field(2, 2, b"v") + pb_field(1, 2, b"y"),
            pb_field(1, 2, b"\xc3\xa9"), pb_field(1, 2, b"\xff")]
    for k in kinds:
        for d in hand:
            dec(k, d)
        for _ in range(6 if quick else 300):
            n = rng.choice([1, 2, 3, 5, 8, 13])
            dec(k, bytes(rng.choice([0x08, 0x10, 0x12, 0x18, 0x20, 0x68, 0x0a, 0x00, 0x01, 0x02, 0x80, 0xff, rng.getrandbits(8)]) for _ in range(n)))
        # bytes of every other type (what URL-less unpacking into the wrong type does)
        for k2 in kinds:
            for v in samples[k2][: (2 if quick else 60)]:
                dec(k, pb_encode(k2, v))
    # the station's path: Any bytes -> UnmarshalAnypbTo(dst)
    for k in ("generic", "prefix", "dtls"):
        for dst in ("generic", "prefix", "dtls"):
            for mode in ("empty", "keep", "tapdance", "other"):
                for v in samples[k][: (2 if quick else 40)]:
                    a = {"url": any_url(k, mode).encode().hex(), "value": pb_encode(k, v).hex(), "unk": ""}
                    d = pb_encode("any", a)
                    out.append(Case("anypb_bytes", "transports", {"op": "anypb_bytes", "dstkind": dst, "data": d.hex()}, (k, dst, mode, v, d)))
    return out


def g_opt(x, f):
    return "None" if x is None else "(Some %s)" % f(x)


def g_bool(x):
    return "true" if x else "false"


def g_z(x):
    return "(%d)%%Z" % x


def g_hexs(x):
    return hexs(bytes.fromhex(x))


def g_addr(a):
    return "(%s, %s, %s)" % (g_opt(a.get("ip"), g_hexs), g_opt(a.get("port"), gN), g_hexs(a.get("unk") or ""))


def g_pbval(kind, v):
    if v is None:
        return "PNone"
    u = g_hexs(v.get("unk") or "")
    if kind == "generic":
        return "(PGeneric %s %s)" % (g_opt(v.get("rand"), g_bool), u)
    if kind == "prefix":
        return "(PPrefix %s %s %s %s %s)" % (g_opt(v.get("id"), g_z), g_opt(v.get("prefix"), g_hexs), g_opt(v.get("flush"), g_z), g_opt(v.get("rand"), g_bool), u)
    if kind == "dtls":
        return "(PDtls %s %s %s %s %s)" % (g_opt(v.get("src4"), g_addr), g_opt(v.get("src6"), g_addr), g_opt(v.get("rand"), g_bool),
                                           g_opt(v.get("unordered"), g_bool), u)
    return "(PAny %s %s %s)" % (g_hexs(v.get("url") or ""), g_hexs(v.get("value") or ""), u)


def pb_same(kind, v, back):
    """typed equality of what was marshalled and what came back (unknown fields compared as raw bytes: they are re-emitted verbatim)"""
    if back is None:
        return False
    keys = {"generic": ["rand"], "prefix": ["id", "prefix", "flush", "rand"], "dtls": ["src4", "src6", "rand", "unordered"], "any": ["url", "value"]}[kind]
    norm = lambda x: (x or "") if isinstance(x, str) or x is None and kind == "any" else x   # noqa: E731
    for k in keys:
        a, b = v.get(k), back.get(k)
        if kind == "any":
            a, b = a or "", b or ""
        if isinstance(a, dict) or isinstance(b, dict):
            if not (isinstance(a, dict) and isinstance(b, dict) and a.get("ip") == b.get("ip") and a.get("port") == b.get("port")
                    and (a.get("unk") or "") == (b.get("unk") or "")):
                return False
        elif a != b:
            return False
    return (v.get("unk") or "") == (back.get("unk") or "")


def post_pb_rt(ctx, c):
    (kind, v), r = c.aux, c.res
    case = {"fam": "pb_rt", "kind": kind, "pb": v}
    if r.get("panic"):
        ctx.fail("pb/panic", "proto.Marshal/Unmarshal panicked: %s" % r["panic"], case)
        return None
    ctx.count(("pb_rt", kind, repr(v)), kind="pb_rt/%s/%s" % (kind, "ok" if r["ok"] else "err"))
    if not r["ok"]:
        ctx.broken("driver", "proto.Marshal rejected a generated message: %s" % r["err"], case)
        return None
    if not (r["ok2"] and pb_same(kind, v, r.get("pb"))):
        ctx.fail("pb/roundtrip/" + kind, "proto.Unmarshal(proto.Marshal(m)) != m for %s (err=%r)" % (kind, r["err2"]), case)
    out = bytes.fromhex(r["out"])
    return ["CPbEnc %s %s" % (g_pbval(kind, v), hexs(out)),
            "CPbDec %s %s %s %s" % (gN(PBKIND[kind]), hexs(out), g_bool(r["ok2"]), g_pbval(kind, r.get("pb") if r["ok2"] else None))]


def post_pb_dec(ctx, c):
    (kind, d), r = c.aux, c.res
    if r.get("panic"):
        ctx.fail("pb/panic", "proto.Unmarshal panicked: %s" % r["panic"], {"fam": "pb_dec", "kind": kind, "data": d.hex()})
        return None
    ctx.count(("pb_dec", kind, d), kind="pb_dec/%s/%s" % (kind, "ok" if r["ok"] else "err"))
    return "CPbDec %s %s %s %s" % (gN(PBKIND[kind]), hexs(d), g_bool(r["ok"]), g_pbval(kind, r.get("pb") if r["ok"] else None))


def post_anypb_bytes(ctx, c):
    (k, dst, mode, v, d), r = c.aux, c.res
    case = {"fam": "anypb_bytes", "kind": k, "dstkind": dst, "url": mode, "pb": v}
    if r.get("panic"):
        ctx.fail("anypb/panic", "UnmarshalAnypbTo panicked: %s" % r["panic"], case)
        return None
    ctx.count(("anypb_bytes", k, dst, mode, repr(v)), kind="anypb_bytes/%s/%s" % (mode if k == dst else "cross-" + mode, "ok" if r["ok2"] else "err"))
    if k == dst and mode in ("empty", "keep", "tapdance"):
        if not (r["ok"] and r["ok2"] and pb_same(dst, dict(v, unk=v.get("unk", "")), r.get("pb"))):
            ctx.fail("anypb/roundtrip-bytes/" + mode, "the station did not recover the %s parameters from the Any bytes (URL mode %s, err=%r)"
                     % (k, mode, r["err2"]), case)
    if r["ok2"] and (mode == "other" or (k != dst and mode in ("keep", "tapdance"))):
        ctx.fail("anypb/wrong-type-accepted", "Any bytes of a %s with a non-empty URL of another type were unpacked into %s" % (k, dst), case)
    return "CAnyBytes %s %s %s %s %s" % (gN(PBKIND[dst]), hexs(d), g_bool(r["ok"]), g_bool(r["ok2"]), g_pbval(dst, r.get("pb") if r["ok2"] else None))


# ------------------------------------------------------------------ DoT framing
def gen_dot(ctx):
    rng, quick = ctx.rng, ctx.tier == "quick"
    out = []

    def rt(msgs):
        out.append(Case("dot_rt", "requester", {"op": "dot_rt", "msgs": [bytes(m).hex() for m in msgs]}, msgs))
    rt([])
    rt([b""])
    rt([b"", b"", b"x"])
    for n in [1, 2, 254, 255, 256, 257, 65534, 65535]:
        rt([rb(rng, n)])
    rt([rb(rng, 3), rb(rng, 65535), rb(rng, 1)])
    rt([rb(rng, 65536)])                        # sendLoop panics: the length does not fit the prefix
    rt([rb(rng, 5), rb(rng, 65537), rb(rng, 6)])
    for _ in range(4 if quick else 80):
        rt([rb(rng, rng.choice([0, 1, 2, 30, 255, 256, 300, 1000])) for _ in range(rng.randrange(1, 12))])

    def recv(d):
        out.append(Case("dot_recv", "requester", {"op": "dot_recv", "data": bytes(d).hex()}, bytes(d)))
    frame = lambda m: bytes([len(m) >> 8, len(m) & 255]) + m   # noqa: E731
    recv(b"")
    recv(b"\x00")
    recv(b"\x00\x00")
    recv(b"\x00\x00\x00")
    recv(frame(b"ab") + frame(b"")[:1])
    recv(frame(b"ab") + frame(b"cde")[:-1])
    recv(b"\xff\xff" + b"z" * 100)
    for _ in range(8 if quick else 200):
        s_ = b"".join(frame(bytes(rb(rng, rng.choice([0, 1, 2, 5, 40, 300])))) for _ in range(rng.randrange(0, 6)))
        if rng.random() < 0.6 and s_:
            s_ = s_[:rng.randrange(len(s_) + 1)]
        elif rng.random() < 0.3:
            s_ += bytes(rb(rng, rng.choice([1, 2, 3])))
        recv(s_)
    return out


def g_blist(ms, f):
    return "[" + "; ".join(f(m) for m in ms) + "]"


def post_dot_rt(ctx, c):
    msgs, r = c.aux, c.res
    case = {"fam": "dot_rt", "msgs": [short(bytes(m)) for m in msgs]}
    got = unhexl(r.get("msgs"))
    fits = [len(m) <= 65535 for m in msgs]
    k = fits.index(False) if False in fits else len(msgs)
    ctx.count(("dot_rt", tuple(bytes(m) for m in msgs)), kind="dot_rt/" + ("ok" if k == len(msgs) else "oversize"))
    if got != [bytes(m) for m in msgs[:k]] or (k == len(msgs) and not r["clean"]):
        ctx.fail("dot/roundtrip", "recvLoop did not deliver exactly the messages sendLoop framed (%d sent, %d delivered, clean=%s, err=%r)"
                 % (k, len(got), r["clean"], r["err"]), case)
    if k < len(msgs) and not r.get("panic"):
        ctx.fail("dot/oversize-accepted", "sendLoop framed a %d-byte message with a two-octet length" % len(msgs[k]), case)
    stream = bytes.fromhex(r["out"])
    return "CDotRt %s %s %s %s %s" % (g_blist(msgs, bspec_in), bspec_obs(stream), gbool(bool(r.get("panic"))),
                                      g_blist(got, bspec_obs), gbool(r["clean"]))


def post_dot_recv(ctx, c):
    d, r = c.aux, c.res
    got = unhexl(r.get("msgs"))
    ctx.count(("dot_recv", d), kind="dot_recv/" + ("clean" if r["clean"] else "error"))
    if r["err"] not in ("", "unexpected EOF", "EOF"):   # EOF right after a length prefix is returned as io.EOF by ReadFull
        ctx.broken("correspondence", "unexpected outcome of recvLoop: %r" % r["err"], {"fam": "dot_recv", "data": d.hex()})
        return None
    return "CDotRecv %s %s %s" % (hexs(d), g_blist(got, hexs), gbool(r["clean"]))


KINDS = {"generic": (0, "GenericTransportParams", 1), "prefix": (1, "PrefixTransportParams", 3),
         "dtls": (2, "DTLSTransportParams", 2), "c2s": (3, "ClientToStation", 2)}


def any_url(kind, mode):
    full = "type.googleapis.com/proto." + KINDS[kind][1]
    return {"keep": full, "empty": "", "tapdance": full.replace("/proto.", "/tapdance."),
            "other": "type.googleapis.com/proto.NoSuchMessage"}[mode]


def gen_any(ctx):
    rng, quick = ctx.rng, ctx.tier == "quick"
    out = []

    def add(kind, dst, mode, fields, nilsrc=False):
        js = {"op": "anypb", "kind": kind, "dstkind": dst, "url": mode, "fields": fields, "nilsrc": nilsrc}
        out.append(Case("anypb", "transports", js, (kind, dst, mode, tuple(fields), nilsrc)))
    for kind, (_, _, nf) in KINDS.items():
        for mode in ("keep", "empty", "tapdance", "other"):
            combos = [[-1] * nf, [1] * nf, [0] * nf] + [[rng.choice([-1, 0, 1, rng.randrange(2, 9)]) if i else rng.choice([-1, 0, 1])
                                                         for i in range(nf)] for _ in range(2 if quick else 12)]
            if kind in ("generic", "dtls"):
                combos = [[min(x, 1) for x in f] for f in combos]
            for f in combos:
                add(kind, kind, mode, f)
            for dst in KINDS:
                if dst != kind:
                    add(kind, dst, mode, combos[1])
        add(kind, kind, "keep", [-1] * nf, nilsrc=True)
    return out


# ------------------------------------------------------------------ running Go
def run_go(ctx, cases):
    """run every case's Go observation (one `go test` per package, packages in parallel); fills c.res"""
    by = {}
    for c in cases:
        by.setdefault(c.pkg, []).append(c)

    def one(pkg):
        mod, path, drv, test = PKGS[pkg]
        rc, out, res = ctx.go_inpkg(mod, path, {"zz_verif_driver_test.go": drv}, "^%s$" % test, [c.js for c in by[pkg]])
        return pkg, rc, out, res
    ok = True
    with ThreadPoolExecutor(max_workers=len(by) or 1) as ex:
        for pkg, rc, out, res in ex.map(one, list(by)):
            if res is None or len(res) != len(by[pkg]):
                ctx.broken("driver", "Go driver for %s did not produce results: %s" % (pkg, out[-800:]))
                ok = False
                continue
            for c, r in zip(by[pkg], res):
                c.res = r
    return ok


# ------------------------------------------------------------------ oracle + terms per family
def short(d):
    return d.hex() if len(d) < 600 else d[:16].hex() + "...(%d bytes)" % len(d)


def post_fmt(ctx, c):
    op, d, r = c.js["op"], c.aux, c.res
    ctx.count((op, d), nontrivial=True, kind=op + ("/ok" if r["ok"] else "/err"))
    if op.startswith("rt_"):
        if r["ok"] and not (r["ok2"] and bytes.fromhex(r["out2"]) == d):
            ctx.fail("roundtrip:%s/len>limit" % op, "decode(encode x) != x for %s with %d-byte payload "
                     "(encoder accepted it, decoder returned %d bytes, ok=%s)" % (op, len(d), len(r["out2"]) // 2, r["ok2"]),
                     {"fam": "fmt", "op": op, "data": short(d), "len": len(d), "encoded_prefix": r["out"][:16],
                      "decoded_len": len(r["out2"]) // 2})
        limit = {"rt_req": 255, "rt_resp": 65535}.get(op)
        if limit is not None and (len(d) > limit) == r["ok"]:
            ctx.fail("accepts:%s" % op, "%s %s a %d-byte payload (limit %d)" % (op, "accepted" if r["ok"] else "rejected", len(d), limit),
                     {"fam": "fmt", "op": op, "len": len(d)})
    return "CFmt %s %s (%s, %s, %s, %s)" % (gN(FMT_OPS[op]), bspec_in(d), gbool(r["ok"]), bspec_obs(bytes.fromhex(r["out"])),
                                          gbool(r["ok2"]), bspec_obs(bytes.fromhex(r["out2"])))


def representable(labels):
    return all(1 <= len(l) <= 63 for l in labels) and wire_len(labels) <= 255


def post_name_rt(ctx, c):
    labels, r = c.aux, c.res
    if r.get("panic"):
        ctx.fail("name_rt/panic", "NewName/WriteName/readName panicked: %s" % r["panic"], {"fam": "name_rt", "labels": hexl(labels)})
        return None
    ctx.count(("name_rt", labels), kind="name_rt/" + (r["err"] or "ok"))
    back = unhexl(r.get("labels"))
    if r["ok"]:
        if not representable(labels):
            ctx.fail("name_rt/accepts-unrepresentable", "NewName accepted a name outside the wire format's limits "
                     "(labels %s, wire length %d)" % ([len(l) for l in labels][:8], wire_len(labels)), {"fam": "name_rt", "labels": hexl(labels)})
        elif not (r["ok2"] and back == labels and r["pos"] == len(r["out"]) // 2):
            ctx.fail("name_rt/roundtrip", "readName(WriteName(n)) != n for a name NewName accepted (err=%s, pos=%s, wrote %d bytes)"
                     % (r["err2"], r["pos"], len(r["out"]) // 2), {"fam": "name_rt", "labels": hexl(labels), "read": r.get("labels")})
    elif representable(labels):
        ctx.fail("name_rt/rejects-representable", "NewName rejected (%s) a name within the limits" % r["err"],
                 {"fam": "name_rt", "labels": hexl(labels)})
    if r["err"] not in NAME_ERR or r["err2"] not in RD_ERR:
        ctx.broken("correspondence", "unexpected error class from the name codec: %r / %r" % (r["err"], r["err2"]),
                   {"fam": "name_rt", "labels": hexl(labels)})
        return None
    return "CNameRt %s (%s, %s, %s, %s, %s)" % (gname(labels), gN(NAME_ERR[r["err"]]), hexs(bytes.fromhex(r["out"])),
                                               gN(RD_ERR[r["err2"]]), gname(back), gN(r["pos"]))


def post_read_name(ctx, c):
    (buf, pos), r = c.aux, c.res
    if r.get("panic"):
        ctx.fail("read_name/panic", "readName panicked: %s" % r["panic"], {"fam": "read_name", "data": buf.hex(), "pos": pos})
        return None
    ctx.count(("read_name", buf, pos), kind="read_name/" + (r["err"] or "ok"))
    if r["err"] not in RD_ERR:
        ctx.broken("correspondence", "unexpected error class from readName: %r" % r["err"], {"fam": "read_name", "data": buf.hex(), "pos": pos})
        return None
    return "CReadName %s %s (%s, %s, %s)" % (hexs(buf), gN(pos), gN(RD_ERR[r["err"]]), gname(unhexl(r.get("labels"))), gN(r["pos"]))


def post_trim(ctx, c):
    (n, suf), r = c.aux, c.res
    ctx.count(("trim", n, suf), kind="trim/" + ("ok" if r["ok"] else "no"))
    pre = unhexl(r.get("labels"))
    low = lambda ls: [bytes(l).lower() for l in ls]   # noqa: E731  (bytes.lower is ASCII-only, like Go's bytes.ToLower on ASCII)
    expect = len(n) >= len(suf) and low(n[len(n) - len(suf):]) == low(suf)
    if r["ok"] != expect or (r["ok"] and pre != n[:len(n) - len(suf)]):
        ctx.fail("trim", "TrimSuffix(prefix ++ suffix, suffix) did not return the prefix", {"fam": "trim", "labels": hexl(n), "suffix": hexl(suf)})
    return "CTrim %s %s %s %s" % (gname(n), gname(suf), gbool(r["ok"]), gname(pre))


def post_trim_na(ctx, c):
    (n, suf, exact), r = c.aux, c.res
    pre = unhexl(r.get("labels"))
    ctx.count(("trim_na", n, suf), kind="trim_na/" + ("exact" if exact else "go-match" if r["ok"] else "go-nomatch"))
    if exact and not (r["ok"] and pre == n[:len(n) - len(suf)]):
        ctx.fail("trim/non-ascii-exact", "TrimSuffix(prefix ++ suffix, suffix) did not return the prefix for labels with non-ASCII bytes",
                 {"fam": "trim", "labels": hexl(n), "suffix": hexl(suf)})
    return "CTrimNA %s %s %s %s" % (gname(n), gname(suf), gbool(r["ok"]), gname(pre))


def post_name_string(ctx, c):
    n, r = c.aux, c.res
    ctx.count(("name_string", n), kind="name_string")
    return "CNameStr %s %s" % (gname(n), hexs(bytes.fromhex(r["out"])))


def post_chunks(ctx, c):
    (d, k), r = c.aux, c.res
    ch = unhexl(r.get("chunks"))
    ctx.count(("chunks", d, k), kind="chunks/%d" % k)
    if b"".join(ch) != d or any(not (1 <= len(x) <= k) for x in ch) or any(len(x) != k for x in ch[:-1]):
        ctx.fail("chunks", "chunks(p, %d) is not a greedy split of p into non-empty pieces" % k, {"fam": "chunks", "data": short(d), "n": k})
    return "CChunks %s %s %s" % (bspec_in(d), gN(k), gname(ch))


def post_b32(ctx, c):
    d, r = c.aux, c.res
    ctx.count(("b32", d), kind="b32")
    if not (r["ok2"] and bytes.fromhex(r["out2"]) == d):
        ctx.fail("b32-hypothesis", "base32 decode(upper(lower(encode p))) != p (section hypothesis b32_roundtrip is false for the real coding)",
                 {"fam": "b32", "data": short(d)})
    return None


def post_obf(ctx, c):
    (v, t, pl), r = c.aux, c.res
    if r.get("panic"):
        ctx.fail("obf/%s/panic" % v, "obfuscator panicked: %s" % r["panic"], {"fam": "obf", "variant": v, "data": t.hex(), "publen": pl})
        return None
    ctx.count(("obf", v, t, pl, r["out"]), kind="obf/%s/%s" % (v, "ok" if r["ok"] else "err"))
    c1, c2 = bytes.fromhex(r["out"]), bytes.fromhex(r["out1b"])
    if r["ok"]:
        if not (r["ok2"] and bytes.fromhex(r["out2"]) == t):
            key = "obf/%s/%s" % (v, "empty-tag" if len(t) == 0 else "roundtrip")
            ctx.fail(key, "%s: TryReveal(Obfuscate(tag)) != tag for a %d-byte tag under a fresh key pair (reveal err=%r, got %d bytes)"
                     % (v, len(t), r["err2"], len(r["out2"]) // 2), {"fam": "obf", "variant": v, "data": t.hex(), "publen": pl,
                                                                   "encoding": r["out"][:200]})
        # freshness: the random part of the encoding is the XOR pad / the 32-byte header
        if v != "nil" and r["ok1b"] and c1 == c2 and (len(t) >= 8 if v == "xor" else True):
            ctx.fail("obf/%s/fresh" % v, "%s: two encodings of the same %d-byte tag are identical" % (v, len(t)),
                     {"fam": "obf", "variant": v, "data": t.hex(), "publen": pl})
    return "CObf %s %s %s %s %s %s %s" % (gN(VARIANTS[v]), hexs(t), gN(pl), gbool(r["ok"]), hexs(c1), gbool(r["ok2"]),
                                          hexs(bytes.fromhex(r["out2"])))


def post_reveal(ctx, c):
    (v, d), r = c.aux, c.res
    if r.get("panic"):
        ctx.fail("reveal/%s/panic" % v, "TryReveal panicked: %s" % r["panic"], {"fam": "reveal", "variant": v, "data": d.hex()})
        return None
    ctx.count(("reveal", v, d), kind="reveal/%s/%s" % (v, "ok" if r["ok"] else "err"))
    return "CReveal %s %s %s %s" % (gN(VARIANTS[v]), hexs(d), gbool(r["ok"]), hexs(bytes.fromhex(r["out"])))


def post_any(ctx, c):
    (kind, dst, mode, fields, nilsrc), r = c.aux, c.res
    case = {"fam": "anypb", "kind": kind, "dstkind": dst, "url": mode, "fields": list(fields), "nilsrc": nilsrc}
    if r.get("panic"):
        ctx.fail("anypb/panic", "UnmarshalAnypbTo panicked: %s" % r["panic"], case)
        return None
    if not r["ok"]:
        ctx.broken("driver", "anypb driver could not pack the case: %s" % r["err"], case)
        return None
    ctx.count(("anypb",) + c.aux, kind="anypb/%s/%s" % ("nil" if nilsrc else mode if kind == dst else "cross-" + mode, "ok" if r["ok2"] else "err"))
    fout = r.get("fields") or []
    if not nilsrc and kind == dst and mode in ("keep", "empty", "tapdance"):
        if not (r["ok2"] and list(fout) == list(fields)):
            ctx.fail("anypb/roundtrip/" + mode, "UnmarshalAnypbTo(pack(m)) != m for %s with type URL mode %s (err=%r, fields %s -> %s)"
                     % (kind, mode, r["err2"], list(fields), fout), case)
    if not nilsrc and r["ok2"] and (mode == "other" or (kind != dst and mode in ("keep", "tapdance"))):
        ctx.fail("anypb/wrong-type-accepted", "a %s packed with a non-empty URL of another type was unpacked into %s" % (kind, dst), case)
    enc = lambda f: "[" + "; ".join(gN(x + 1) for x in f) + "]"   # noqa: E731
    return 'CAny %s %s %s "%s"%%string %s %s %s "%s"%%string' % (gbool(nilsrc), gN(KINDS[kind][0]), gN(KINDS[dst][0]), any_url(kind, mode),
                                                             enc(fields), gbool(r["ok2"]), enc(fout), r.get("url") or "")


def msg_key(m):
    return repr(m)


def msg_equal(m, back):
    if back is None or m["id"] != back["id"] or m["flags"] != back["flags"]:
        return False
    for sec in ("q", "an", "ns", "ar"):
        a, b = m[sec], back[sec] or []
        if len(a) != len(b):
            return False
        for x, y in zip(a, b):
            if unhexl(x["name"]) != unhexl(y["name"]) or x["type"] != y["type"] or x["class"] != y["class"]:
                return False
            if sec != "q" and (x["ttl"] != y["ttl"] or rr_data(x) != bytes.fromhex(y["data"])):
                return False
    return True


def msg_brief(m):
    b = {k: m[k] for k in ("id", "flags")}
    for sec in ("q", "an", "ns", "ar"):
        b[sec] = [{k: (v if k != "data" or len(v) < 200 else v[:40] + "...") for k, v in x.items()} for x in m[sec]]
    return b


def g_in_rr(x):
    d = "(Gen %d%%N %d%%N)" % (x["dseed"], x["dgen"]) if x.get("dgen") else "(Lit %s)" % hexs(bytes.fromhex(x["data"]))
    return "(%s, %s, %s, %s, %s)" % (gname(unhexl(x["name"])), gN(x["type"]), gN(x["class"]), gN(x["ttl"]), d)


def g_obs_rr(x):
    return "(%s, %s, %s, %s, %s)" % (gname(unhexl(x["name"])), gN(x["type"]), gN(x["class"]), gN(x["ttl"]), bspec_obs(bytes.fromhex(x["data"])))


def g_q(x):
    return "(%s, %s, %s)" % (gname(unhexl(x["name"])), gN(x["type"]), gN(x["class"]))


def g_msg(m, rrf):
    if m is None:
        return "empty_cmsg"
    return "(%s, %s, %s, %s, %s, %s)" % (gN(m["id"]), gN(m["flags"]), "[" + "; ".join(g_q(x) for x in m["q"] or []) + "]",
                                         *("[" + "; ".join(rrf(x) for x in m[sec] or []) + "]" for sec in ("an", "ns", "ar")))


def post_msg_dec(ctx, c):
    d, r = c.aux, c.res
    if r.get("panic"):
        ctx.fail("msg_dec/panic", "MessageFromWireFormat panicked: %s" % r["panic"], {"fam": "msg_dec", "data": d.hex()})
        return None
    ctx.count(("msg_dec", d), kind="msg_dec/" + (r["err"] or "ok"))
    if r["err"] not in RD_ERR:
        ctx.broken("correspondence", "unexpected error class from MessageFromWireFormat: %r" % r["err"], {"fam": "msg_dec", "data": d.hex()})
        return None
    return "CMsgDec %s %s %s" % (hexs(d), gN(RD_ERR[r["err"]]), g_msg(r.get("msg") if r["ok"] else None, g_obs_rr))


def post_msg_rt(ctx, c):
    m, r = c.aux, c.res
    names = msg_names(m)
    valid = all(representable(n) for n in names)
    fits = all(len(m[s]) <= 65535 for s in ("q", "an", "ns", "ar")) and all(len(rr_data(x)) <= 65535 for s in ("an", "ns", "ar") for x in m[s])
    cls = "panic" if r.get("panic") else (r["err"] or ("ok" if r["ok2"] else "undecodable:" + r["err2"]))
    ctx.count(("msg_rt", msg_key(m)), kind="msg_rt/" + cls)
    case = {"fam": "msg_rt", "msg": msg_brief(m)}
    if valid:
        if r.get("panic"):
            ctx.fail("msg/panic", "WireFormat/MessageFromWireFormat panicked on a message of valid names: %s" % r["panic"], case)
        elif r["ok"] and not (r["ok2"] and msg_equal(m, r.get("msg"))):
            chain = r["err2"] == "ptrs"
            ctx.fail("msg/roundtrip/compression-chain" if chain else "msg/roundtrip",
                     "MessageFromWireFormat(WireFormat(m)) != m for a message the encoder accepted (%d names, decode error %r)"
                     % (len(names), r["err2"]), case)
        elif r["ok"] != fits:
            ctx.fail("msg/accepts", "WireFormat %s a message that %s its 16-bit fields" % (
                "accepted" if r["ok"] else "rejected (%s)" % r["err"], "fits" if fits else "does not fit"), case)
    code1 = 99 if r.get("panic") else {"": 0, "overflow": 1}.get(r["err"], 98)
    if r.get("err2", "") not in RD_ERR:
        ctx.broken("correspondence", "unexpected error class from MessageFromWireFormat: %r" % r["err2"], case)
        return None
    return "CMsgRt %s %s %s %s %s" % (g_msg(m, g_in_rr), gN(code1), bspec_obs(bytes.fromhex(r.get("out") or "")), gN(RD_ERR[r.get("err2", "")]),
                                      g_msg(r.get("msg") if r.get("ok2") else None, g_obs_rr))


TERMS = {"stream": post_stream, "damage": post_damage, "batch": post_batch, "exchange_seq": post_exchange_seq, "rburst": post_rburst, "burst": post_burst, "trim_na": post_trim_na, "dot_rt": post_dot_rt, "dot_recv": post_dot_recv, "pb_rt": post_pb_rt, "pb_dec": post_pb_dec, "anypb_bytes": post_anypb_bytes, "name_string": post_name_string, "exchange": post_exchange, "query": post_query, "msg_rt": post_msg_rt, "msg_dec": post_msg_dec, "anypb": post_any, "obf": post_obf, "reveal": post_reveal, "fmt": post_fmt, "name_rt": post_name_rt, "read_name": post_read_name, "trim": post_trim,
         "chunks": post_chunks, "b32": post_b32}


def replay_cases(ctx):
    """the replay file given on the command line, then the corpus of earlier failures (always run first)"""
    import glob
    import json
    import lib
    out = []
    sources = [ctx.replay or {}]
    for path in sorted(glob.glob(os.path.join(lib.VERIF, "corpus", "C15", "*.json"))):
        try:
            with open(path) as fh:
                sources.append(json.load(fh))
        except (OSError, ValueError):
            pass
    fails = []
    for src in sources:
        fails += src.get("failures", []) + [{"case": c} for c in src.get("cases", [])]
    for f in fails:
        c = f.get("case") or {}
        fam = c.get("fam", "fmt" if "op" in c else None)
        try:
            if fam == "fmt" and "..." not in c.get("data", ""):
                d = bytes.fromhex(c["data"])
                out.append(Case("fmt", "dns" if "txt" in c["op"] else "msgformat", {"op": c["op"], "data": d.hex()}, d))
            elif fam == "name_rt":
                ls = unhexl(c["labels"])
                out.append(Case("name_rt", "dns", {"op": "name_rt", "labels": hexl(ls)}, ls))
            elif fam == "read_name":
                b = bytes.fromhex(c["data"])
                out.append(Case("read_name", "dns", {"op": "read_name", "data": b.hex(), "pos": c["pos"]}, (b, c["pos"])))
            elif fam == "obf":
                t = bytes.fromhex(c["data"])
                out.append(Case("obf", "transports", {"op": "obf", "variant": c["variant"], "data": t.hex(), "publen": c.get("publen", 32)},
                                (c["variant"], t, c.get("publen", 32))))
            elif fam == "reveal":
                t = bytes.fromhex(c["data"])
                out.append(Case("reveal", "transports", {"op": "reveal", "variant": c["variant"], "data": t.hex()}, (c["variant"], t)))
            elif fam == "anypb":
                js = {"op": "anypb", "kind": c["kind"], "dstkind": c["dstkind"], "url": c["url"], "fields": c["fields"], "nilsrc": c["nilsrc"]}
                out.append(Case("anypb", "transports", js, (c["kind"], c["dstkind"], c["url"], tuple(c["fields"]), c["nilsrc"])))
            elif fam == "msg_rt" and all(not str(x.get("data", "")).endswith("...") for sec in ("an", "ns", "ar") for x in c["msg"][sec]):
                out.append(Case("msg_rt", "dns", {"op": "msg_rt", "msg": c["msg"]}, c["msg"]))
            elif fam == "msg_dec":
                b = bytes.fromhex(c["data"])
                out.append(Case("msg_dec", "dns", {"op": "msg_dec", "data": b.hex()}, b))
            elif fam == "exchange" and not c["resp"].startswith("len:"):
                p_, r_, d_ = bytes.fromhex(c["data"]), bytes.fromhex(c["resp"]), unhexl(c["domain"])
                out.append(Case("exchange", "responder", {"op": "exchange", "data": p_.hex(), "resp": r_.hex(), "domain": hexl(d_)}, (p_, r_, d_)))
            elif fam == "burst":
                js = {"op": "burst", "k": c["k"], "procs": c["procs"], "rounds": c["round"] + 1, "seed": c["seed"], "keep": 0,
                      "domain": hexl(EXCH_DOMAINS[0])}
                out.append(Case("burst", "responder", js, (c["k"], c["procs"], c["round"] + 1, EXCH_DOMAINS[0])))
            elif fam == "dot_recv":
                b = bytes.fromhex(c["data"])
                out.append(Case("dot_recv", "requester", {"op": "dot_recv", "data": b.hex()}, b))
            elif fam == "batch" and c.get("js"):
                js = c["js"]
                top = {k: v for k, v in js.items() if k not in ("op", "items", "conc", "procs", "shared")}
                out.append(mk_batch([item_of_js(j) for j in js["items"]], c["label"], c["mode"], **top))
            elif fam == "exchange_seq" and c.get("js"):
                its = [Case("exchange", "responder", j, (bytes.fromhex(j["data"]), bytes.fromhex(j["resp"]), unhexl(j["domain"]))) for j in c["js"]["items"]]
                out.append(Case("exchange_seq", "responder", c["js"], {"items": its, "dom": unhexl(c["js"]["domain"])}))
            elif fam == "rburst" and c.get("js"):
                out.append(Case("rburst", "requester", c["js"], [bytes.fromhex(j["data"]) for j in c["js"]["items"]]))
            elif fam == "trim":
                n, s = unhexl(c["labels"]), unhexl(c["suffix"])
                out.append(Case("trim", "dns", {"op": "trim", "labels": hexl(n), "suffix": hexl(s)}, (n, s)))
        except (KeyError, ValueError):
            pass
    return out


_T0 = [time.time()]


def _t(label):
    if os.environ.get("VERIF_TIMING"):
        now = time.time()
        print("[timing] %-18s %.1fs" % (label, now - _T0[0]), file=sys.stderr)
        _T0[0] = now


def run(ctx):
    _T0[0] = time.time()
    ctx.assumptions += [
        "base32 (RFC 4648 alphabet, no padding, case folding) is modelled concretely and its round trip is proved (C15_b32_roundtrip); the real coding is compared with it on every run",
        "X25519, Elligator, noise are section variables with the stated algebraic laws (not proved); AES-CTR / AES-GCM: the three laws used (CTR involution, open-seal, 16-octet tag) are theorems for the stream-cipher shape of ModelStream.v (keystream XOR, appended authenticator checked by Open), which is compared with the real aesCTR / aesGcmEncrypt / TryReveal on every run; the keystream and the authenticator themselves are uninterpreted",
        "the Go in-package drivers, the case generators and the JSON->Gallina emitter are trusted",
        "sequence theorems (Props3.v): the randomness of call i is the explicit argument r_i; freshness over a sequence is proved under the stated hypothesis on the stream (pairwise different pads; pairwise different representatives or high bits), which the tie checks on the implementation as 'held encodings pairwise different'",
    ]
    ctx.cov["trusted_base"] = [
        "Coq 8.16.1 kernel (coqc; coqchk in the thorough tier); vm_compute used for evaluating the model on cases; no native_compute",
        "no axioms: every theorem prints 'Closed under the global context'",
        "hand-written models coq/C15/Model*.v tied to the code by the correspondence run (drivers + emitter trusted)",
    ]
    ctx.cov["rule"] = ("encoders on every payload/label/name length 0..limit+2 with random content, decoders on random and "
                       "near-valid byte strings (pointer chains, loops, truncation); a case is non-trivial if it is hash-distinct "
                       "and either succeeds or exercises a distinct rejection (counted per op); every encoder additionally in batch "
                       "mode (k calls in a row / with one reused input buffer / from two concurrent callers, every result held until "
                       "the last call has returned, then all decoded): values repeated, of equal, smaller and larger length than the "
                       "earlier ones, a rejected value in the middle; sequences of exchanges through one requester and one responder; "
                       "responses back to back into the requester's receive loop")
    ctx.coq_props(props_files=["C15/Props.v", "C15/Props2.v", "C15/Props3.v"])
    rc, out = ctx.coq_make(["C15/Examples.vo", "C15/Run.vo"])
    if rc != 0:
        ctx.broken("examples", "non-vacuity examples (C15/Examples.v) or the case evaluator (C15/Run.v) no longer check: " + out[-500:])
    _t("coq props+examples")
    cases = replay_cases(ctx) + gen_fmt(ctx) + gen_names(ctx) + gen_req(ctx) + gen_obf(ctx) + gen_any(ctx) + gen_msg(ctx) + gen_query(ctx) + gen_exch(ctx) + gen_burst(ctx) + gen_pb(ctx) + gen_dot(ctx) + gen_batch(ctx) + gen_seq_exchange(ctx) + gen_stream(ctx)
    if not run_go(ctx, cases):
        return
    _t("gen + go stage 1")
    batches = [c for c in cases if c.fam == "batch"]
    for c in batches:
        attach_batch(ctx, c)
    # second stage: what the requester sent is parsed by the dns package and answered by the responder
    if ctx.tier == "thorough":
        # the concurrent batches once more under the race detector (two callers of a stateless encoder must not share storage)
        by = {}
        for c in batches:
            if c.js.get("conc"):
                by.setdefault(c.pkg, []).append(c)
        for pkg, cs in sorted(by.items()):
            mod, path, drv, test = PKGS[pkg]
            rc, out, _res = ctx.go_inpkg(mod, path, {"zz_verif_driver_test.go": drv}, "^%s$" % test, [c.js for c in cs], race=True)
            ctx.count(("batch-race", pkg, len(cs)), kind="batch-race/" + pkg)
            if "DATA RACE" in out:
                i = out.index("DATA RACE")
                ctx.fail("seq/race/" + pkg, "the race detector reports a data race between two concurrent callers of the encoders of %s: %s"
                         % (path, " ".join(out[i:i + 900].split())), {"fam": "batch-race", "pkg": pkg})
    sends = [c for c in cases if c.fam == "send"]
    sends += [it for c in batches if c.aux["label"] == "send" and c.aux["items"][0].res is not None for it in c.aux["items"]]
    stage2 = []
    for c in sends:
        if c.res["ok"] and c.res["out"]:
            stage2.append(Case("send_dec", "dns", {"op": "msg_dec", "data": c.res["out"]}, c))
            stage2.append(Case("send_query", "responder", {"op": "query", "data": c.res["out"], "domain": hexl(c.aux[1])}, c))
    for c in cases:
        if c.fam == "qmsg" and c.res.get("ok"):
            stage2.append(Case("query", "responder", {"op": "query", "data": c.res["out"], "domain": hexl(c.aux[1])}, c))
    wires = [bytes.fromhex(c.res["out"]) for c in cases if c.fam == "msg_rt" and c.res.get("ok") and len(c.res["out"]) < 1200]
    stage2 += gen_msg_dec(ctx, wires)
    # the message decoder alone on k held inputs (valid, truncated, and with a byte flipped), every decoded message kept
    for lo in range(0, min(len(wires), 24 if ctx.tier == "quick" else 400), 8):
        ws = []
        for w in wires[lo:lo + 8]:
            ws += [w, w[:ctx.rng.randrange(len(w) + 1)]]
        b2 = mk_batch([Case("msg_dec", "dns", {"op": "msg_dec", "data": w.hex()}, w) for w in ws], "msg_dec", "seq")
        stage2.append(b2)
        batches.append(b2)
    if stage2 and not run_go(ctx, stage2):
        return
    for c in stage2:
        if c.fam == "batch":
            attach_batch(ctx, c)
    _t("go stage 2")
    b32 = {c.aux: bytes.fromhex(c.res["out"]) for c in cases if c.fam == "b32"}
    terms, tcases = [], []
    for c in cases + stage2:
        if c.fam in TERMS:
            t = TERMS[c.fam](ctx, c)
            for t1 in (t if isinstance(t, list) else [t] if t else []):
                terms.append(t1)
                tcases.append(c)
    # send: requester -> wire -> (dns parse, responder payload)
    import base64
    dec = {id(c.aux): c for c in stage2 if c.fam == "send_dec"}
    qry = {id(c.aux): c for c in stage2 if c.fam == "send_query"}
    for c in sends:
        (d, dom), r = c.aux, c.res
        cx = c.px or ctx
        if r.get("panic"):
            cx.fail("send/panic", "send panicked: %s" % r["panic"], {"fam": "send", "data": d.hex(), "domain": hexl(dom)})
            continue
        enc = base64.b32encode(d).rstrip(b"=").lower()     # the coding, as the harness computes it (compared with Go's below)
        labels = [enc[i:i + 63] for i in range(0, len(enc), 63)] + list(dom)
        cx.count(("send", d, tuple(dom)), kind="send/" + ("ok" if r["ok"] else "err"))
        if r["ok"] != representable(labels):
            cx.fail("send/representable", "send %s a payload whose query name is %s (wire length %d)" % (
                "accepted" if r["ok"] else "rejected", "representable" if representable(labels) else "not representable",
                wire_len(labels)), {"fam": "send", "data": d.hex(), "domain": hexl(dom)})
        qn, code = [], 0
        if r["ok"]:
            dc, qc = dec[id(c)].res, qry[id(c)].res
            if not dc["ok"] or len(dc["msg"]["q"]) != 1:
                cx.fail("send/unparsable", "the query written by send does not parse (%s)" % dc["err"], {"fam": "send", "data": d.hex(), "domain": hexl(dom)})
                continue
            qn = unhexl(dc["msg"]["q"][0]["name"])
            if not (qc["ok"] and qc["haspay"] and bytes.fromhex(qc["out"]) == d):
                cx.fail("send/roundtrip", "responder.responseFor did not recover the payload that requester.send encoded "
                         "(flags=%#x, payload=%s)" % (qc["flags"], qc["out"][:40]), {"fam": "send", "data": d.hex(), "domain": hexl(dom)})
        else:
            code = 3 if "longer than 255" in r["err"] else 2 if "label longer" in r["err"] else 1 if "zero-length" in r["err"] else 98
        terms.append("CSendName %s %s %s %s" % (hexs(enc), gname(dom), gN(code), gname(qn)))
        tcases.append(c)
    for d, e in b32.items():
        if base64.b32encode(d).rstrip(b"=").lower() != e:
            ctx.broken("harness", "the harness' base32 differs from the requester's coding", {"fam": "b32", "data": d.hex()})
            break
    for c in cases[:1] + cases[len(cases) // 2: len(cases) // 2 + 1] + cases[-1:]:
        ctx.sample({"fam": c.fam, "go": {k: (v if not isinstance(v, str) or len(v) < 200 else v[:200] + "...") for k, v in c.js.items()},
                    "observed": {k: (v if not isinstance(v, str) or len(v) < 200 else v[:200] + "...") for k, v in c.res.items()}})
    ctx.require_kinds(["rt_req/ok", "rt_req/err", "rt_txt/ok", "rt_resp/ok", "rt_resp/err", "rem_req/ok", "rem_req/err", "rem_resp/ok",
                       "rem_resp/err", "dec_txt/ok", "dec_txt/err",
                       "name_rt/ok", "name_rt/zero", "name_rt/labellong", "name_rt/namelong",
                       "read_name/ok", "read_name/eof", "read_name/reserved", "read_name/ptrs", "read_name/namelong",
                       "trim/ok", "trim/no", "trim_na/exact", "trim_na/go-match", "name_string", "chunks/63", "b32", "send/ok", "send/err",
                       "obf/xor/ok", "obf/xor/err", "obf/nil/ok", "obf/ctr/ok", "obf/ctr/err", "obf/gcm/ok", "obf/gcm/err",
                       "reveal/xor/ok", "reveal/xor/err", "reveal/ctr/ok", "reveal/ctr/err", "reveal/gcm/err", "reveal/nil/ok",
                       "msg_rt/ok", "msg_rt/overflow", "msg_rt/panic", "msg_rt/undecodable:namelong",
                       "msg_dec/ok", "msg_dec/eof", "msg_dec/trailing", "msg_dec/reserved", "msg_dec/ptrs",
                       "query/payload", "query/none", "query/rcode1", "query/rcode3", "query/rcode4", "query/rcode0",
                       "exchange/ok", "exchange/req-too-long", "exchange/resp-too-long",
                       "pb_rt/generic/ok", "pb_rt/prefix/ok", "pb_rt/dtls/ok", "pb_rt/any/ok", "pb_dec/prefix/ok", "pb_dec/prefix/err",
                       "pb_dec/dtls/ok", "pb_dec/dtls/err", "pb_dec/any/err", "anypb_bytes/empty/ok", "anypb_bytes/cross-empty/ok",
                       "anypb_bytes/cross-keep/err", "anypb_bytes/other/err",
                       "burst/k2/procs1", "burst/k8/procs1", "burst/k2/procs4", "burst/k8/procs8",
                       "batch/fmt/rt_req/seq", "batch/fmt/rt_req/shared", "batch/fmt/rt_req/conc2p1", "batch/fmt/rt_resp/seq", "batch/fmt/rt_txt/seq",
                       "batch/fmt/rt_txt/shared", "batch/fmt/dec_txt/seq", "batch/obf/xor/seq", "batch/obf/xor/shared", "batch/obf/nil/seq",
                       "batch/obf/ctr/seq", "batch/obf/ctr/shared", "batch/obf/ctr/conc2p1", "batch/obf/ctr/conc2p4", "batch/obf/gcm/seq",
                       "batch/obf/gcm/shared", "batch/obf/gcm/conc2p1", "batch/obf/gcm/conc2p4", "batch/name_rt/seq", "batch/name_rt/conc2p1",
                       "batch/msg_rt/seq", "batch/msg_rt/conc2p1", "batch/msg_dec/seq", "batch/pb_rt/seq", "batch/pb_rt/conc2p1", "batch/anypb/seq",
                       "batch/send/seq", "batch/send/shared", "exchange_seq", "rburst",
                       "stream", "damage/gcm/tag/rejected", "damage/gcm/body/rejected", "damage/gcm/header/rejected", "damage/ctr/body/accepted",
                       "dot_rt/ok", "dot_rt/oversize", "dot_recv/clean", "dot_recv/error",
                       "anypb/keep/ok", "anypb/empty/ok", "anypb/tapdance/ok", "anypb/other/err", "anypb/cross-keep/err", "anypb/nil/ok"])
    _t("oracle + terms")
    # the batch terms (several items each) sit at the end of the list: deal the terms out to the shards round-robin
    nsh = 14
    order = sorted(range(len(terms)), key=lambda i: (i % nsh, i))
    terms, tcases = [terms[i] for i in order], [tcases[i] for i in order]
    mm = ctx.coq_mismatches("all", HEADER, terms, "chk", shard=max(60, (len(terms) + nsh - 1) // nsh))
    _t("coq cases (%d terms)" % len(terms))
    if mm:
        ctx.cov["mismatches"] += len(mm)
        c = tcases[mm[0]]
        ctx.broken("correspondence", "model (C15.Run.chk) and the implementation disagree on %d case(s); first: family %s"
                   % (len(mm), c.fam), {"fam": c.fam, "go": {k: (v if not isinstance(v, str) else v[:2000]) for k, v in c.js.items()},
                                        "observed": c.res, "term": terms[mm[0]][:3000]})
