"""C13 — the registrar keeps answering while its configuration is reloaded."""
import itertools

from lib import gbool, glist, gopt

HEADER = "From CJ Require Import Common.Base C13.Model C13.ModelS C13.ModelR C13.Run.\nLocal Open Scope nat_scope.\n"
PKG = "pkg/regserver/regprocessor"
DRIVERS = {"zz_verif_driver_test.go": "c13/c13_driver_test.go", "zz_verif_real_test.go": "c13/c13_real_driver_test.go"}
MAINMOD = "cmd/registration-server"


def req(v4, v6, e4=False, e6=False, tr=0):
    return {"v4": v4, "v6": v6, "err4": e4, "err6": e6, "tr": tr}


DUAL, V4, V6, NONE = req(True, True), req(True, False), req(False, True), req(False, False)


def n_pauses(r):
    """number of Select calls (= scheduling points) of a request"""
    n = 0
    if r["v4"]:
        n += 1
        if r["err4"]:
            return n
    if r["v6"]:
        n += 1
    return n


def interleavings(seqs):
    """all merges of the given sequences (each keeps its own order)"""
    seqs = [s for s in seqs if s]
    if not seqs:
        yield []
        return
    for i, s in enumerate(seqs):
        rest = seqs[:i] + [s[1:]] + seqs[i + 1:]
        for tail in interleavings(rest):
            yield [s[0]] + tail


def thread_actions(reqs, m):
    seqs = []
    for i, r in enumerate(reqs):
        seqs.append([{"op": "req", "i": i}] + [{"op": "rel", "i": i}] * n_pauses(r))
    for j in range(m):
        seqs.append([{"op": "reload", "i": j}])
    return seqs


def random_merge(rng, seqs):
    seqs = [list(s) for s in seqs if s]
    out = []
    while seqs:
        k = rng.randrange(len(seqs))
        out.append(seqs[k].pop(0))
        if not seqs[k]:
            seqs.pop(k)
    return out


def sched_case(reqs, m, script, nbad=0, bad=None):
    """m reloads in total; those listed in `bad` (default: the last nbad) are given a subnet file that does not exist"""
    return {"kind": "sched", "reqs": reqs, "reloads": m, "script": script, "bad": sorted(bad) if bad is not None else list(range(m - nbad, m))}


# ------------------------------------------------------------------ the real-selector lane
def miss(r):
    return {**r, "miss": True}


def real_case(reqs, samepath, script):
    m = 1 + max([a["i"] for a in script if a["op"] == "reload"], default=-1)
    return {"kind": "real", "reqs": [dict(r) for r in reqs], "reloads": m, "samepath": samepath, "script": script}


def n_pauses_real(r):
    if r.get("miss"):
        return 1 if (r["v4"] or r["v6"]) else 0
    return int(r["v4"]) + int(r["v6"])


def real_scripts_exhaustive(kinds, ops):
    seqs = [[{"op": "req", "i": i}] + [{"op": "rel", "i": i}] * n_pauses_real(k) for i, k in enumerate(kinds)] + [list(ops)]
    return list(interleavings(seqs))


def W(j):
    return {"op": "write", "i": j}


def R(j):
    return {"op": "reload", "i": j}


REWRAP = {"op": "rewrap", "i": 0}


def gen_real(ctx):
    rng = ctx.rng
    quick = ctx.tier == "quick"
    out = []
    # one dual-stack request, the file is replaced and reloaded at every point of the request (both path regimes)
    for same in (True, False):
        for sc in real_scripts_exhaustive([DUAL], [W(1), R(0)]):
            out.append(real_case([DUAL], same, sc))
    # two requests x one reload; two reloads of one file; a reload of a file that does not parse
    pools = [([DUAL, V6], [W(1), R(0)]), ([DUAL, V4], [W(1), R(0), R(1)]), ([DUAL], [W(-1), R(0)]), ([miss(DUAL), DUAL], [W(1), R(0)]),
             ([DUAL, DUAL], [W(1), R(0)])]
    for kinds, ops in pools:
        allsc = real_scripts_exhaustive(kinds, ops)
        sel = allsc if not quick or len(allsc) <= 24 else rng.sample(allsc, 24)
        for sc in sel:
            out.append(real_case(kinds, rng.random() < 0.6, sc))
    # several rounds: every round starts on the selector the real ReloadSubnets left installed
    for _ in range(40 if quick else 400):
        nround = rng.choice([2, 2, 3])
        kinds, script, nrel, nset = [], [], 0, 0
        tame = rng.random() < 0.7
        for rd in range(nround):
            idx = []
            for _ in range(rng.choice([1, 1, 2])):
                kinds.append(dict(rng.choice([DUAL, DUAL, DUAL, V4, V6, miss(DUAL), miss(V6)] if tame else [DUAL, DUAL, V4, V6])))
                idx.append(len(kinds) - 1)
            ops = []
            if tame:
                if rng.random() < 0.85:
                    nset += 1
                    ops.append(W(nset if rng.random() < 0.85 else -1))
                for _ in range(rng.choice([1, 1, 1, 2, 0])):
                    ops.append(R(nrel))
                    nrel += 1
            else:
                for _ in range(rng.choice([2, 2, 3])):
                    nset += 1
                    ops += [W(nset), R(nrel)]
                    nrel += 1
            seqs = [[{"op": "req", "i": i}] + [{"op": "rel", "i": i}] * n_pauses_real(kinds[i]) for i in idx] + [ops]
            script += random_merge(rng, seqs)
            if rd + 1 < nround:
                script.append(dict(REWRAP))
        out.append(real_case(kinds, rng.random() < 0.6, script))
    return out


def real_static(c):
    """what the script fixes: per reload the file it reads (path, set / None = does not parse), the writes, the rounds"""
    same = c["samepath"]
    cur = (0, 0)            # (path, set) ; set None: unparsable
    nw = 0
    writes, reloads = [], {}
    tame = True
    seen_reload_in_round, writes_in_round = False, 0
    for a in c["script"]:
        if a["op"] == "write":
            nw += 1
            path = 0 if same else nw
            cur = (path, a["i"] if a["i"] >= 0 else None)
            writes.append(cur)
            writes_in_round += 1
            if seen_reload_in_round or writes_in_round > 1:
                tame = False
        elif a["op"] == "reload":
            reloads.setdefault(a["i"], cur)
            seen_reload_in_round = True
        elif a["op"] == "rewrap":
            seen_reload_in_round, writes_in_round = False, 0
    launched_req = {a["i"] for a in c["script"] if a["op"] == "req"}
    if len(launched_req) != len(c["reqs"]) or len(reloads) != c["reloads"]:
        tame = False
    return {"writes": writes, "reloads": [reloads.get(j, cur) for j in range(c["reloads"])], "tame": tame}


def real_term(c, r):
    st = real_static(c)
    k, m = len(c["reqs"]), c["reloads"]
    if not st["tame"] or r["unsettled"]:
        return None
    acts = []
    nw = 0
    for a in c["script"]:
        if a["op"] == "req":
            acts.append("AReq %d" % a["i"])
        elif a["op"] == "rel":
            acts.append("ARel %d" % a["i"])
        elif a["op"] == "reload":
            acts.append("ALaunch %d" % (k + a["i"]))
        elif a["op"] == "write":
            acts.append("ALaunch %d" % (k + m + nw))
            nw += 1
        else:
            acts.append("ARewrap")
    reqs = glist(c["reqs"], lambda q: "(mkReq %s %s %s %s)" % (gbool(q["v4"]), gbool(q["v6"]), gbool(bool(q.get("miss"))), gbool(bool(q.get("miss")))))
    rel = glist(st["reloads"], lambda f: "None" if f[1] is None else "(Some %d)" % f[0])
    wr = glist(st["writes"], lambda f: "(%d, %d)" % ((999, 0) if f[1] is None else f))
    return "(CReal %s %s %s %s %s %s %d)" % (reqs, rel, wr, glist(acts), glist(r["reqs"] or [], gobs),
                                            glist([x for x in (r["round_init"] or [])], str), max(0, r["final_ver"]))


def real_relational_term(c, r):
    if any(q.get("miss") for q in c["reqs"]):
        return ""
    nset = max([a["i"] for a in c["script"] if a["op"] == "write"], default=0)
    nfail = min(r["reload_errs"], c["reloads"])
    m = c["reloads"] - nfail
    if m > 0 and nset == 0:
        return ""           # reloads of the unchanged file
    return "(CSched %s %d %d %d %s %s %d %d %d)" % (
        glist(c["reqs"], lambda q: greq({**q, "err4": False, "err6": False})), m, nfail, max(nset, m), gbool(r["completed"]),
        glist(r["reqs"] or [], gobs), sum(1 for x in (r["reloads_done"] or []) if x), r["reload_errs"], max(0, r["final_ver"]))


def oracle_real(ctx, c, r):
    regime = "samepath" if c["samepath"] else "newpath"
    if r.get("panic"):
        ctx.fail("panic/real", "real-selector lane: " + r["panic"], c)
        return
    if not r["completed"]:
        ctx.fail("stall/real", "requests and reloads on the real selector did not all complete within the bound (%s); blocked goroutines:\n%s"
                 % (describe(c), (r["dump"] or "")[:3000]), {**c, "observed": {k: v for k, v in r.items() if k != "dump"}, "goroutines": r["dump"]})
        return
    if r["final"] != 0:
        ctx.fail("lock-leak/real", "selector mutex reader count is %d after everything returned (%s)" % (r["final"], describe(c)), c)
    st = real_static(c)
    good_writes = [(idx, a["i"]) for idx, a in enumerate(c["script"]) if a["op"] == "write" and a["i"] >= 0]
    for i, o in enumerate(r["reqs"]):
        q = c["reqs"][i]
        if not o["done"]:
            ctx.fail("stall/real", "request %d never returned (%s)" % (i, describe(c)), c)
            continue
        if q.get("miss"):
            continue
        if o["err"]:
            ctx.fail("request-failed/real", "request %d (its generation is in every subnets file) returned an error (%s)" % (i, describe(c)),
                     {**c, "observed": r["reqs"]})
            continue
        if o["v4ver"] >= 0 and o["v6ver"] >= 0 and o["v4ver"] != o["v6ver"]:
            ctx.fail("mixed/real/" + regime,
                     "request %d got its IPv4 phantom from subnet set %d and its IPv6 phantom from set %d: the subnets file was "
                     "replaced (%s) and reloaded through the real ReloadSubnets between the two selections (%s); selections (request, v6, selector object, set): %s"
                     % (i, o["v4ver"], o["v6ver"], "at the same path" if c["samepath"] else "at a new path", describe(c), r["sel_log"]),
                     {**c, "observed": r["reqs"], "sel_log": r["sel_log"]})
            continue
        allowed = {(r["round_init"] or [0])[min(o["round"], len(r["round_init"]) - 1)] if r["round_init"] else 0}
        for idx, x in good_writes:
            if o["done_at"] < 0 or idx < o["done_at"]:
                allowed.add(x)
        for v in (o["v4ver"], o["v6ver"]):
            if v >= 0 and v not in allowed:
                ctx.fail("foreign-set/real", "request %d was answered from subnet set %d, which was neither installed when its round began nor "
                         "published before it finished (allowed %s; %s)" % (i, v, sorted(allowed), describe(c)), {**c, "observed": r["reqs"]})
    if not all(r["reloads_done"] or [True]):
        ctx.fail("reload/real", "a reload did not complete (%s)" % describe(c), c)
    if st["tame"]:
        for j, f in enumerate(st["reloads"]):
            if (f[1] is None) != bool(r["reload_errl"][j]):
                ctx.fail("reload/real", "reload %d %s although its subnets file %s (%s)"
                         % (j, "failed" if r["reload_errl"][j] else "succeeded", "does not parse" if f[1] is None else "is well-formed", describe(c)), c)


def oracle_realstress(ctx, c, r, out):
    regime = "samepath" if c["samepath"] else "newpath"
    if not r["completed"]:
        ctx.fail("stall/realstress", "free-running requests x reloads on the real selector did not complete; blocked goroutines:\n%s" % (r["dump"] or "")[:3000],
                 {**c, "goroutines": r["dump"]})
        return
    if r["mixed"]:
        ctx.fail("mixed/realstress/" + regime, "%d of %d free-running requests took their IPv4 and IPv6 phantoms from two different subnet sets "
                 "(%d reloads while the file was being replaced %s)" % (r["mixed"], r["nreq"], r["nrel"], "at one path" if c["samepath"] else "at new paths"), c)
    if r["reload_errs"]:
        ctx.fail("reload/realstress", "%d of %d reloads failed although every published file is well-formed" % (r["reload_errs"], r["nrel"]), c)
    if r["req_errs"]:
        ctx.fail("request-failed/realstress", "%d of %d requests returned an error" % (r["req_errs"], r["nreq"]), c)
    if r["final"] != 0:
        ctx.fail("lock-leak/realstress", "selector mutex reader count is %d after everything returned" % r["final"], c)


# ------------------------------------------------------------------ the reload as main.go performs it
def gen_main(ctx, variant=0):
    rng = ctx.rng
    quick = ctx.tier == "quick"
    cc, setid, gens = 2, 1, [1, 2]
    case = {"init_cc": cc, "init_set": setid, "init_gens": list(gens), "dns": True, "rounds": []}
    fam = [(True, True), (True, True), (True, False), (False, True)]

    def probes(n):
        ps = [{"gen": 0, "v4": True, "v6": True}, {"gen": cc - 1, "v4": True, "v6": True}, {"gen": cc, "v4": True, "v6": True}]
        for _ in range(n):
            v4, v6 = rng.choice(fam)
            ps.append({"gen": rng.choice([0] + gens), "v4": v4, "v6": v6})
        # through the DNS registrar (a DNS client is not moved to the registrar's generation: its own must be in the file)
        ps.append({"gen": cc, "v4": True, "v6": True, "dns": True})
        ps.append({"gen": rng.choice(gens), "v4": rng.random() < 0.7, "v6": True, "dns": True})
        return ps

    # failed-reload: a new ClientConf generation is published together with a subnets file that does not load
    plan = ["new-gen/both", "failed-reload:syntax/sub", "subnets-only/sub", "cc-bad/cc", "sub-bad/sub", "failed-reload:stage2/both", "new-gen/sub",
            "failed-reload:missing/none", "jump/both", "failed-reload:isdir/cc", "new-gen/cc", "new-gen/none"]
    if variant:
        rng.shuffle(plan)
        plan = ["new-gen/sub"] + plan
    for item in plan:
        what, hold = item.split("/")
        rd = {"hold_cc": hold in ("both", "cc"), "hold_sub": hold in ("both", "sub"), "probes": probes(rng.randrange(1, 4)), "stress": 0, "stress_n": 0,
              "cc_bad": False, "sub_bad": False, "what": item}
        if what in ("new-gen", "jump"):
            ncc = cc + (1 if what == "new-gen" else rng.randrange(2, 4))
            setid += 1
            rd.update(cc=ncc, set=setid, gens=gens + list(range(cc + 1, ncc + 1)))
            cc, gens = ncc, rd["gens"]
        elif what == "subnets-only":
            setid += 1
            rd.update(cc=cc, set=setid, gens=list(gens))
        elif what == "cc-bad":
            rd.update(cc=cc + 1, cc_bad=True, set=setid + 50, gens=gens + [cc + 1])
        elif what == "sub-bad":
            rd.update(cc=cc, sub_bad=True, sub_bad_kind="syntax", set=setid + 60, gens=list(gens))
        elif what.startswith("failed-reload"):
            rd.update(cc=cc + 1, sub_bad=True, sub_bad_kind=what.split(":")[1], set=setid + 70, gens=gens + [cc + 1])
        case["rounds"].append(rd)
    # free-running clients while new generations are published one after the other (no holds)
    for _ in range(25 if quick else 120):
        ps = [{"gen": g, "v4": True, "v6": True} for g in (0, cc - 1, cc)] + [{"gen": rng.choice(gens), "v4": rng.random() < 0.8, "v6": True}]
        ncc = cc + 1
        setid += 1
        if setid > 250:
            break
        rd = {"cc": ncc, "set": setid, "gens": gens + [ncc], "hold_cc": False, "hold_sub": False, "cc_bad": False, "sub_bad": False,
              "probes": ps, "stress": 4, "stress_n": 100000, "what": "new-gen/stress"}
        cc, gens = ncc, rd["gens"]
        case["rounds"].append(rd)
    return case


def main_states(case):
    """the registrar's state (set, gens, api) before and after every round, by the property's reading of a reload"""
    st = (case["init_set"], list(case["init_gens"]), case["init_cc"])
    out = []
    for rd in case["rounds"]:
        before = st
        if not rd["cc_bad"] and not rd["sub_bad"]:
            st = (rd["set"], list(rd["gens"]), rd["cc"])      # a reload whose ClientConf or subnets file does not load changes nothing
        out.append((before, st))
    return out


def oracle_main(ctx, case, res):
    if not res.get("started"):
        ctx.broken("driver", "the registration server's main() did not come up in the test process: %s" % res.get("err"))
        return
    slim = lambda rd: {k: v for k, v in rd.items()}
    if res.get("aborted"):
        ctx.cov["main_aborted"] = res["aborted"]
    for n, (rd, ro, (before, after)) in enumerate(zip(case["rounds"], res["rounds"], main_states(case))):
        what = rd["what"]
        ctx.count(("main", n, repr(rd)), nontrivial=True, kind="main/" + ("stress" if rd["stress"] else "held" if (rd["hold_cc"] or rd["hold_sub"]) else "plain"))
        sets_ok = {before[0], after[0]}
        where_obs = [("at-cc", o) for o in ro["at_cc"] or []] + [("at-sub", o) for o in ro["at_sub"] or []] + \
                    [("after", o) for o in ro["after"] or []] + [("after", ro["final"])] + [("stress", o) for o in ro["bad"] or []]
        failed = rd["sub_bad"] and rd["cc"] != before[2]
        ctxcase = {"kind": "main", "round": n, "round_spec": slim(rd), "state_before": before, "state_after": after,
                   "init": {k: case[k] for k in ("init_cc", "init_set", "init_gens")}, "rounds_before": [r["what"] for r in case["rounds"][:n]]}
        for where, o in where_obs:
            desc = ("DNS registrar, " if o.get("dns") else "") + "client generation %d (%s) %s of reload %d (%s: ClientConf generation %s, subnet set %d with generations %s; before: set %d, generations %s, ClientConf %d)" % (
                o["gen"], "dual stack" if o["v4"] and o["v6"] else "v4" if o["v4"] else "v6",
                {"at-cc": "while the handler was reading the ClientConf file", "at-sub": "while ReloadSubnets was reading the subnets file",
                 "after": "after", "stress": "sent free-running during"}[where], n, what, "unparsable" if rd["cc_bad"] else rd["cc"], rd["set"], rd["gens"],
                before[0], before[1], before[2])
            if o["status"] != 200:
                if failed and where != "at-cc":
                    ctx.fail("unanswered/main/failed-reload", "after a reload whose subnets file did not load (%s) - the old subnet set is intact and the handler logs that it "
                             "aborts the reload - a bidirectional %s registration is not answered (HTTP %s): %s"
                             % (rd.get("sub_bad_kind"), "DNS" if o.get("dns") else "API", o["status"] or "none", desc), {**ctxcase, "observed": o, "where": where})
                    continue
                ctx.fail("unanswered/main/%s%s" % (where, "/dns" if o.get("dns") else ""),
                         "a bidirectional %s registration was not answered (%s%s): %s"
                         % ("DNS" if o.get("dns") else "API", ("success=false" if o["status"] else "no response") if o.get("dns") else "HTTP %s" % (o["status"] or "none"),
                            " " + o["err"] if o["err"] else "", desc), {**ctxcase, "observed": o, "where": where})
                continue
            if o["v4"] and o["v6"] and o["v4set"] != o["v6set"]:
                ctx.fail("mixed/main/%s" % where, "IPv4 phantom from subnet set %d, IPv6 phantom from set %d: %s" % (o["v4set"], o["v6set"], desc),
                         {**ctxcase, "observed": o, "where": where})
            used = [x for x in (o["v4set"] if o["v4"] else None, o["v6set"] if o["v6"] else None) if x is not None]
            if any(x not in sets_ok for x in used):
                ctx.fail("foreign-set/main/%s" % where, "answered from subnet set %s, neither the old (%d) nor the new (%d) one: %s" % (used, before[0], after[0], desc),
                         {**ctxcase, "observed": o, "where": where})
            gg = [x for x in (o["v4gen"] if o["v4"] else None, o["v6gen"] if o["v6"] else None) if x is not None]
            if len(set(gg)) > 1:
                ctx.fail("mixed/main/%s" % where, "IPv4 and IPv6 phantoms selected for two different generations %s: %s" % (gg, desc), {**ctxcase, "observed": o, "where": where})
        fin = ro["final"]
        if fin["status"] == 200 and fin["cc"] >= 0 and fin["cc"] not in after[1]:
            ctx.fail("generation-not-installed/main" + ("/failed-reload" if failed else ""),
                     "after reload %d (%s) the API registrar moves outdated clients to generation %d, which the installed subnet set (%d: generations %s) does not contain"
                     % (n, what, fin["cc"], after[0], after[1]), {**ctxcase, "observed": fin})
        if rd["sub_bad"] and rd.get("sub_bad_kind") in ("missing", "isdir"):
            rd = {**rd, "hold_sub": False}
        want_opens = (["cc"] if rd["hold_cc"] else []) + (["sub"] if rd["hold_sub"] and not rd["cc_bad"] else [])
        if (ro["opens"] or []) != want_opens:
            ctx.fail("reload/main/files-read", "on SIGHUP the handler opened %s, expected %s in this order (reload %d, %s)" % (ro["opens"], want_opens, n, what), ctxcase)
        if not ro["settled"]:
            ctx.fail("reload-lost/main", "reload %d (%s) did not take effect within the bound: a generation-0 dual-stack registration is answered with %s, expected "
                     "set %d and ClientConf generation %d" % (n, what, ro["final"], after[0], after[2]), {**ctxcase, "observed": ro["final"]})
        if ro["nbad"]:
            ctx.cov.setdefault("main_stress_bad", 0)
            ctx.cov["main_stress_bad"] += ro["nbad"]


def gmobs(o):
    on = lambda cond, v: gopt(v if cond and v is not None and v >= 0 else None, str)
    return "(%d, %s, %s, %s, %s, %s, (%s, %s), (%s, %s), %s)" % (
        o["gen"], gbool(bool(o.get("dns"))), gbool(o["v4"]), gbool(o["v6"]), gbool(o["late"]), gbool(o["status"] == 200),
        on(True, o["v4set"]), on(True, o["v6set"]), on(True, o["v4gen"]), on(True, o["v6gen"]), on(True, o["cc"]))


def main_term(case, res):
    rounds = []
    for rd, ro in zip(case["rounds"], res["rounds"]):
        pub = "(mkP %s %d %s %s)" % ("None" if rd["cc_bad"] else "(Some %d)" % rd["cc"], rd["set"], glist(rd["gens"], str), gbool(not rd["sub_bad"]))
        rounds.append("(%s, %s, %s, %s)" % (pub, glist(ro["at_cc"] or [], gmobs), glist(ro["at_sub"] or [], gmobs),
                                        glist((ro["after"] or []) + [ro["final"]], gmobs)))
    return "(CMain (mkR %d %s %d %d) %s)" % (case["init_set"], glist(case["init_gens"], str), case["init_cc"], case["init_cc"], glist(rounds))


def gen_cases(ctx):
    rng = ctx.rng
    quick = ctx.tier == "quick"
    cases = []
    # replayed cases first
    for f in (ctx.replay or {}).get("failures", []) + (ctx.replay or {}).get("theorem_or_correspondence", []):
        c = f.get("case")
        if isinstance(c, dict) and c.get("kind") in ("depth", "sched", "stress", "real", "realstress"):
            cases.append(c)
    # the deadlock witness of the model (coq/C13/Examples.v old_trace_deadlocks) on the real code:
    # request selects v4, reload announces, request goes on to the v6 selection
    cases.append(sched_case([DUAL], 1, [{"op": "req", "i": 0}, {"op": "reload", "i": 0}, {"op": "rel", "i": 0}, {"op": "rel", "i": 0}]))
    # lock-depth trace of every request kind
    for v4, v6, e4, e6 in itertools.product([True, False], repeat=4):
        for tr in (0, 1):
            cases.append({"kind": "depth", "reqs": [req(v4, v6, e4, e6, tr)]})
    # exhaustive interleavings at the selector scheduling points
    exh = [([DUAL], 1), ([DUAL], 2), ([DUAL, V4], 1), ([V6, V4], 2), ([req(True, True, False, True)], 1), ([req(True, True, True, False), DUAL], 1)]
    # reloads that fail (no subnet file).  The file a reload reads is chosen through a process-wide environment
    # variable at the moment the reload reads it; the driver sets it right before launching the reload, which pins
    # it for the code as it is (the file is read before Lock) but not for every legitimate implementation.  When
    # succeeding and failing reloads are mixed the number of failures is therefore OBSERVED, not asserted: the
    # model is instantiated with that many failing reloads.
    for m in (1, 2):
        for script in interleavings(thread_actions([DUAL], m)):
            cases.append(sched_case([DUAL], m, script, nbad=m))
    for bad in ([0], [1]):
        for script in interleavings(thread_actions([DUAL], 2)):
            cases.append(sched_case([DUAL], 2, script, bad=bad))
    if not quick:
        exh += [([DUAL, DUAL], 1), ([DUAL, DUAL], 2), ([DUAL, V6], 2), ([DUAL, V4, NONE], 1), ([DUAL, V4, V6], 1), ([V4, V4, V6, NONE], 1)]
    for reqs, m in exh:
        for script in interleavings(thread_actions(reqs, m)):
            cases.append(sched_case(reqs, m, script))
    # random larger ones (k <= 3 requests of random kinds, m <= 2 reloads)
    for _ in range(120 if quick else 1500):
        k = rng.choice([1, 2, 2, 3, 3] if quick else [1, 2, 2, 3, 3, 4, 4])
        reqs = []
        for _ in range(k):
            r = rng.choice([DUAL, DUAL, DUAL, V4, V6, NONE, req(True, True, True, False), req(True, True, False, True),
                            req(True, False, True, False), req(False, True, False, True)])
            reqs.append(dict(r))
        m = rng.choice([1, 1, 2, 2, 0, 3])
        bad = [j for j in range(m) if rng.random() < 0.25]
        cases.append(sched_case(reqs, m, random_merge(rng, thread_actions(reqs, m)), bad=bad))
    # the mutex model itself against the real sync.RWMutex: crafted wake-up orders, then random scripts of lock calls
    def mo(t, op):
        return {"t": t, "op": op}
    crafted = [
        # writer holds; a writer queues, then a reader queues; on Unlock Go admits the reader first
        [mo(0, "Lock"), mo(1, "Lock"), mo(2, "RLock"), mo(0, "Unlock"), mo(2, "RUnlock"), mo(1, "Unlock")],
        [mo(0, "Lock"), mo(2, "RLock"), mo(1, "Lock"), mo(0, "Unlock"), mo(2, "RUnlock"), mo(1, "Unlock")],
        [mo(0, "Lock"), mo(1, "Lock"), mo(2, "RLock"), mo(3, "RLock"), mo(0, "Unlock"), mo(2, "RUnlock"), mo(3, "RUnlock"), mo(1, "Unlock")],
        # two queued writers: first come first served
        [mo(0, "Lock"), mo(1, "Lock"), mo(2, "Lock"), mo(0, "Unlock"), mo(1, "Unlock"), mo(2, "Unlock")],
        [mo(0, "Lock"), mo(2, "Lock"), mo(1, "Lock"), mo(0, "Unlock"), mo(2, "Unlock"), mo(1, "Unlock")],
        # reader holds, writer pending, new reader queues; the recursive read lock of the old code
        [mo(0, "RLock"), mo(1, "Lock"), mo(2, "RLock"), mo(0, "RUnlock"), mo(1, "Unlock"), mo(2, "RUnlock")],
        [mo(0, "RLock"), mo(1, "Lock"), mo(0, "RLock"), mo(2, "RLock")],
        [mo(0, "RLock"), mo(0, "RLock"), mo(1, "Lock"), mo(0, "RUnlock"), mo(0, "RUnlock"), mo(1, "Unlock")],
        # upgrade attempt: Lock while holding the read lock
        [mo(0, "RLock"), mo(0, "Lock"), mo(1, "RLock")],
    ]
    for ops in crafted:
        cases.append({"kind": "rwm", "n": 4, "mops": ops, "reqs": []})
    for _ in range(150 if quick else 1500):
        n = rng.choice([2, 3, 3, 4])
        ops = []
        for _ in range(rng.randrange(3, 14)):
            ops.append({"t": rng.randrange(n), "op": rng.choice(["RLock", "RLock", "RUnlock", "RUnlock", "Lock", "Unlock", "Unlock"])})
        cases.append({"kind": "rwm", "n": n, "mops": ops, "reqs": []})
    # unscripted stress
    for k, m, it in ([(4, 2, 300)] if quick else [(4, 2, 2000), (8, 3, 1500), (2, 1, 3000)]):
        cases.append({"kind": "stress", "reqs": [dict(rng.choice([DUAL, DUAL, V4, V6])) for _ in range(k)], "reloads": m,
                      "iters": it, "bound_ms": 20000})
    # the real selector: scripted rounds, then free-running k requests x m reloads while the file is being replaced
    cases += gen_real(ctx)
    for same, k, m, it in ([(True, 4, 2, 1500), (False, 3, 2, 800)] if quick else [(True, 4, 2, 6000), (False, 4, 3, 4000), (True, 8, 3, 3000), (True, 2, 1, 6000)]):
        cases.append({"kind": "realstress", "samepath": same, "reqs": [dict(rng.choice([DUAL, DUAL, DUAL, V4, V6])) for _ in range(k)], "reloads": m,
                      "iters": it, "bound_ms": 10000 if quick else 30000})
    return cases


def greq(r):
    return "(mkReq %s %s %s %s)" % (gbool(r["v4"]), gbool(r["v6"]), gbool(r["err4"]), gbool(r["err6"]))


def gobs(o):
    v4 = None if o["v4ver"] < 0 else o["v4ver"]
    v6 = None if o["v6ver"] < 0 else o["v6ver"]
    return "(%s, %s, %s)" % (gbool(o["err"] != ""), gopt(v4, str), gopt(v6, str))


MOPS = {"RLock": "MRLock", "RUnlock": "MRUnlock", "Lock": "MLock", "Unlock": "MUnlock"}


def term(c, r):
    if c["kind"] == "real":
        if not r["completed"] or r.get("panic"):
            return ""
        t = real_term(c, r)
        return t if t is not None else real_relational_term(c, r)
    if c["kind"] == "realstress":
        return ""
    if c["kind"] == "rwm":
        if not r["completed"]:
            return ""        # unstable timing: not compared
        return "(CRwm %d %s %s)" % (c["n"], glist(c["mops"], lambda o: "(%d, %s)" % (o["t"], MOPS[o["op"]])),
                                    glist(r["mobs"] or [], lambda o: "(%d, %s)" % (o["code"], glist(o["blocked"], gbool))))
    if c["kind"] == "depth":
        sels = r["sels"] or []
        if any(d < 0 or d > 1000 for _, d in sels) or not 0 <= r["final"] <= 1000:
            return None
        return "(CDepth %s %s %d)" % (greq(c["reqs"][0]), glist(sels, lambda s: "(%s, %d)" % (gbool(s[0] == 1), s[1])), r["final"])
    if c["kind"] == "sched":
        nfail = min(r["reload_errs"], c["reloads"])      # observed (see gen_cases on mixed scenarios)
        return "(CSched %s %d %d %d %s %s %d %d %d)" % (
            glist(c["reqs"], greq), c["reloads"] - nfail, nfail, c["reloads"], gbool(r["completed"]), glist(r["reqs"] or [], gobs),
            sum(1 for x in (r["reloads_done"] or []) if x), r["reload_errs"], max(0, r["final_ver"]))
    return None


def describe(c):
    if c["kind"] == "real":
        return "real selector, file replaced %s, k=%d m=%d script=%s" % (
            "at one path" if c["samepath"] else "at new paths", len(c["reqs"]), c["reloads"],
            " ".join(a["op"] if a["op"] == "rewrap" else "%s%d" % (a["op"], a["i"]) for a in c["script"]))
    if c["kind"] == "realstress":
        return "realstress k=%d m=%d iters=%d %s" % (len(c["reqs"]), c["reloads"], c["iters"], "same path" if c["samepath"] else "new paths")
    if c["kind"] == "sched":
        return "k=%d m=%d bad=%s script=%s" % (len(c["reqs"]), c["reloads"], c.get("bad") or [],
                                        " ".join("%s%d" % (a["op"], a["i"]) for a in c["script"]))
    if c["kind"] == "rwm":
        return "rwm n=%d %s" % (c["n"], " ".join("%d:%s" % (o["t"], o["op"]) for o in c["mops"]))
    return "%s %s" % (c["kind"], c["reqs"])


def oracle(ctx, c, r):
    """the property's own statement on the implementation's observables"""
    kind = c["kind"]
    if kind == "real":
        return oracle_real(ctx, c, r)
    if kind == "realstress":
        return oracle_realstress(ctx, c, r, "")
    if kind == "rwm":
        return      # no property of conjure is involved: this only validates the model of sync.RWMutex
    if not r["completed"]:
        ctx.fail("stall/" + kind, "requests and reloads did not all complete within the bound (%s); blocked goroutines:\n%s"
                 % (describe(c), r["dump"][:3000]), {**c, "observed": {k: v for k, v in r.items() if k != "dump"}, "goroutines": r["dump"]})
        return
    if r["panic"]:
        ctx.fail("panic/" + kind, "panic: " + r["panic"], c)
    if r["final"] != 0:
        ctx.fail("lock-leak/" + kind, "selector mutex reader count is %d after everything returned (%s)" % (r["final"], describe(c)), c)
    if kind == "sched":
        for i, o in enumerate(r["reqs"]):
            if not o["done"]:
                ctx.fail("stall/sched", "request %d never returned (%s)" % (i, describe(c)), c)
            elif o["v4ver"] >= 0 and o["v6ver"] >= 0 and o["v4ver"] != o["v6ver"]:
                ctx.fail("mixed/sched", "request %d got its IPv4 phantom from subnet set %d and its IPv6 phantom from set %d (%s)"
                         % (i, o["v4ver"], o["v6ver"], describe(c)), {**c, "observed": r["reqs"]})
        nbad = len(c.get("bad") or [])
        pure = nbad in (0, c["reloads"])
        if not all(r["reloads_done"] or []) or (pure and r["reload_errs"] != nbad) or r["reload_errs"] > c["reloads"]:
            ctx.fail("reload/sched", "a reload did not complete, or %d reloads failed where %d have no file (%s)" % (r["reload_errs"], nbad, describe(c)), c)
        if c["reloads"] - r["reload_errs"] > 0 and r["final_ver"] == 0:
            ctx.fail("reload-lost/sched", "all reloads returned but the old selector is still installed (%s)" % describe(c), c)
    if kind == "stress":
        if r["mixed"]:
            ctx.fail("mixed/stress", "%d of %d requests mixed two subnet sets" % (r["mixed"], r["nreq"]), c)
        if r["reload_errs"]:
            ctx.fail("reload/stress", "%d reloads failed" % r["reload_errs"], c)


def run_main_lane(ctx, variant):
    """the real main() of cmd/registration-server with SIGHUP reloads held at the files it reads (one process per case)"""
    case = gen_main(ctx, variant)
    rc, out, res = ctx.go_inpkg(MAINMOD, ".", {"zz_verif_driver_test.go": "c13/c13_main_driver_test.go"}, "^TestVerifC13Main$", [case], timeout=300)
    if not res or not isinstance(res, list) or not res[0].get("started"):
        ctx.broken("driver", "the registration-server driver (real main() in the test process) did not produce results: %s" % out[-1500:])
        return None, None
    n = len(res[0].get("rounds") or [])
    if n != len(case["rounds"]) and not res[0].get("aborted"):
        # the server runs inside the test process: the process died in round n
        rd = case["rounds"][n]
        i = out.find("panic:")
        ctx.fail("crashed/main", "the registration server process died while handling reload %d (%s: ClientConf %s, subnets file %s, after rounds %s):\n%s"
                 % (n, rd["what"], "unparsable" if rd["cc_bad"] else rd["cc"], "unparsable" if rd["sub_bad"] else "set %d" % rd["set"],
                    [r["what"] for r in case["rounds"][:n]], out[max(0, i):][:2500]),
                 {"kind": "main", "round": n, "round_spec": rd, "rounds_before": [r["what"] for r in case["rounds"][:n]],
                  "init": {k: case[k] for k in ("init_cc", "init_set", "init_gens")}})
    return case, res[0]


def run(ctx):
    ctx.assumptions += [
        "sync.RWMutex behaves as modelled in coq/C13/Model.v (writer preference: a pending Lock blocks new RLocks; Lock = announce + enter); the model admits every behaviour Go has",
        "the code between lock operations does not block on anything else (the selections are in-memory computations)",
        "the Go in-package driver (fake ipSelector as scheduling point, reader count read by reflection), the case generator and the emitter are trusted",
        "main.go model (coq/C13/ModelR.v): each handler step and each of a request's two steps (front end, selection) is atomic; "
        "publication hypothesis chain_ok: a subnets file keeps the generations of its predecessor and contains the generation of the ClientConf published with it",
        "the Go memory model: data-race freedom of the selector swap is tested with -race (free-running real-selector stress), not proved",
    ]
    ctx.cov["trusted_base"] = [
        "Coq 8.16.1 kernel (coqc; coqchk in the thorough tier); vm_compute for evaluating the model on cases and in Examples.v; no native_compute",
        "no axioms: every theorem prints 'Closed under the global context'",
        "hand-written models: coq/C13/Model.v (RWMutex LTS + lock traces of processBdReq / ReloadSubnets), ModelS.v (the selector as a heap object: load / install / read), "
        "ModelR.v (the step sequence of main.go's SIGHUP handler and the two steps of a request); tied to the code by the observed lock-depth trace of every request kind, "
        "forced interleavings at the selector call sites (fake selector and the REAL phantoms selector loaded by the REAL ReloadSubnets), and the real main() held at the files it reads",
    ]
    ctx.cov["rule"] = ("depth: one per request kind (v4,v6,err4,err6,transport known/unknown); sched: every interleaving of "
                       "request launch / v4-selection / v6-selection and reload launch for the listed small (k,m), plus random "
                       "k<=3,m<=2; real: the same scheduling points on the real selector with the subnets file replaced (same path / new path) "
                       "and reloaded by the real ReloadSubnets, in rounds; stress / realstress: unscripted; main: rounds of SIGHUP reloads of the real "
                       "main() held at the ClientConf / subnets file, registrations in every gap. A case is non-trivial if it is hash-distinct.")
    ctx.coq_props()
    cases = gen_cases(ctx)
    results = []
    # the stress cases go last (and under -race in the thorough tier)
    plain = [c for c in cases if c["kind"] not in ("stress", "realstress")]
    stress = [c for c in cases if c["kind"] in ("stress", "realstress")]
    rc, out, res = ctx.go_inpkg(".", PKG, DRIVERS, "^TestVerifC13$", plain, timeout=900)
    if res is None or len(res) != len(plain):
        ctx.broken("driver", "Go driver did not produce results: %s" % out[-1500:])
        return
    results += res
    rc, out, res2 = ctx.go_inpkg(".", PKG, DRIVERS, "^TestVerifC13$", stress, race=(ctx.tier == "thorough"), timeout=900)
    if res2 is None or len(res2) != len(stress):
        ctx.broken("driver", "Go stress driver did not produce results: %s" % out[-1500:])
        return
    if "DATA RACE" in out:
        ctx.fail("race/stress", "the race detector reported a data race between requests and reloads:\n" + out[out.find("DATA RACE") - 40:][:3000], stress[0])
    results += res2
    cases = plain + stress
    terms, tidx = [], []
    for i, (c, r) in enumerate(zip(cases, results)):
        kind = c["kind"]
        sub = kind
        if kind == "depth":
            sub = "depth/" + ("dual" if c["reqs"][0]["v4"] and c["reqs"][0]["v6"] else "single" if c["reqs"][0]["v4"] or c["reqs"][0]["v6"] else "none")
        elif kind == "sched":
            sub = "sched/k%d/m%d" % (len(c["reqs"]), c["reloads"])
        elif kind == "rwm":
            sub = "rwm/" + ("unstable" if not r["completed"] else "blocking" if any(any(o["blocked"]) for o in r["mobs"] or []) else "free")
        elif kind == "real":
            exact = real_static(c)["tame"] and not r["unsettled"] and r["completed"]
            sub = "real/%s/%s" % ("exact" if exact else "unsettled" if r["unsettled"] else "relational", "samepath" if c["samepath"] else "newpath")
            if len(r["round_init"] or []) > 1:
                ctx.count((kind, "rounds", repr(c)), nontrivial=True, kind="real/multi-round")
        elif kind == "realstress":
            sub = "realstress/" + ("samepath" if c["samepath"] else "newpath")
        ctx.count((kind, repr(c)), nontrivial=True, kind=sub)
        oracle(ctx, c, r)
        t = term(c, r)
        if t == "":
            continue
        if t is not None:
            terms.append(t)
            tidx.append(i)
        elif kind not in ("stress", "realstress"):
            ctx.broken("correspondence", "observation outside the model's domain (%s)" % describe(c), c)
    if ctx.tier != "thorough":
        # the race detector on the free-running real-selector lane (quick tier: this lane only)
        rs = [dict(c, iters=max(200, c["iters"] // 4)) for c in stress if c["kind"] == "realstress"]
        rc, out3, res3 = ctx.go_inpkg(".", PKG, DRIVERS, "^(TestVerifC13)$", rs, race=True, timeout=900)
        if res3 is None or len(res3) != len(rs):
            ctx.broken("driver", "Go stress driver under -race did not produce results: %s" % out3[-1500:])
        else:
            for c, r in zip(rs, res3):
                ctx.count(("race", repr(c)), nontrivial=True, kind="realstress/race")
                oracle_realstress(ctx, c, r, out3)
            if "DATA RACE" in out3:
                ctx.fail("race/realstress", "the race detector reported a data race between registrations and reloads on the real selector "
                         "(the selector a request reads under the read lock is written without the write lock):\n" + out3[out3.find("DATA RACE") - 40:][:3500], rs[0])
    ctx.sample({"case": cases[0], "observed": {k: v for k, v in results[0].items() if k != "dump"}})
    ctx.sample({"case": cases[1], "observed": {k: v for k, v in results[1].items() if k != "dump"}})
    ctx.sample({"case": cases[-1], "observed": {k: v for k, v in results[-1].items() if k != "dump"}})
    firstreal = next(i for i, c in enumerate(cases) if c["kind"] == "real")
    ctx.sample({"case": cases[firstreal + 3], "observed": {k: v for k, v in results[firstreal + 3].items() if k != "dump"}})
    h = ctx.cov["histogram"]
    if h.get("rwm/unstable", 0) * 5 > h.get("rwm/unstable", 0) + h.get("rwm/blocking", 0) + h.get("rwm/free", 0):
        ctx.broken("driver", "more than a fifth of the sync.RWMutex scripts had no two agreeing executions")
    nreal = sum(v for k, v in h.items() if k.startswith("real/") and k != "real/multi-round")
    nuns = sum(v for k, v in h.items() if k.startswith("real/unsettled"))
    if nuns * 5 > nreal:
        ctx.broken("driver", "more than a fifth of the real-selector scripts did not reach a stable state after some action (%d of %d)" % (nuns, nreal))
    ctx.cov["real_lane"] = {"scripts": nreal, "unsettled": nuns, "exact": sum(v for k, v in h.items() if k.startswith("real/exact"))}

    # the reload as main.go performs it
    mterms = []
    for variant in ([0] if ctx.tier == "quick" else [0, 1, 2]):
        mcase, mres = run_main_lane(ctx, variant)
        if mcase is None:
            continue
        oracle_main(ctx, mcase, mres)
        mterms.append((main_term(mcase, mres), mcase, mres))
        if variant == 0:
            ctx.sample({"case": {**mcase, "rounds": mcase["rounds"][:2]}, "observed": {"init": mres["init"], "rounds": mres["rounds"][:2]}})
        ctx.cov.setdefault("main_lane", []).append({"rounds": len(mcase["rounds"]), "stress_requests": sum(ro["nstress"] for ro in mres["rounds"]),
                                                   "late_answers": sum(1 for ro in mres["rounds"] for o in (ro["at_cc"] or []) + (ro["at_sub"] or []) if o["late"])})

    ctx.require_kinds(["depth/dual", "depth/single", "depth/none", "sched/k1/m1", "sched/k1/m2", "sched/k2/m1", "sched/k2/m2", "sched/k3/m2", "stress",
                       "rwm/blocking", "rwm/free", "real/exact/samepath", "real/exact/newpath", "real/relational/samepath", "real/multi-round",
                       "realstress/samepath", "realstress/newpath", "main/held", "main/stress"]
                      + (["realstress/race"] if ctx.tier != "thorough" else []))
    mm = ctx.coq_mismatches("lock", HEADER, terms, "chk", shard=400, need_vo=["C13/Run.vo", "C13/Examples.vo", "C13/ExamplesS.vo", "C13/ExamplesR.vo"])
    if mm:
        ctx.cov["mismatches"] += len(mm)
        i = tidx[mm[0]]
        ctx.broken("correspondence", "the model (coq/C13: lock trace of the request kinds / allowed outcomes of a schedule / the selector-object model replayed "
                   "on the script) and the implementation disagree on %d case(s); first: %s observed %s" % (
                       len(mm), describe(cases[i]), {k: v for k, v in results[i].items() if k != "dump"}),
                   {**cases[i], "observed": {k: v for k, v in results[i].items() if k != "dump"}})
    if mterms:
        mm2 = ctx.coq_mismatches("main", HEADER, [t for t, _, _ in mterms], "chk", shard=4, need_vo=["C13/Run.vo"])
        if mm2:
            ctx.cov["mismatches"] += len(mm2)
            _, mcase, mres = mterms[mm2[0]]
            ctx.broken("correspondence", "the reload-sequence model (coq/C13/ModelR.v: parse, ReloadSubnets, NewClientConf, UpdateLatestCCGen, in this order) and the real "
                       "SIGHUP handler of main.go disagree on what registrations are answered with while the handler is held / after the reload",
                       {"kind": "main", "rounds": [r["what"] for r in mcase["rounds"]]})
