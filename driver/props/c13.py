"""C13 — the registrar keeps answering while its configuration is reloaded."""
import itertools

from lib import gbool, glist, gopt

HEADER = "From CJ Require Import Common.Base C13.Model C13.Run.\nLocal Open Scope nat_scope.\n"
PKG = "pkg/regserver/regprocessor"


def req(v4, v6, e4=False, e6=False, tr=0):
    return {"v4": v4, "v6": v6, "err4": e4, "err6": e6, "tr": tr}


DUAL, V4, V6, NONE = req(True, True), req(True, False), req(False, True), req(False, False)


def n_pauses(r):
    """number of Select calls (= scheduling points) of a request"""
    n = 0
    if r["v4"]:
        n += 1
        if r["err4"]:
            return n
    if r["v6"]:
        n += 1
    return n


def interleavings(seqs):
    """all merges of the given sequences (each keeps its own order)"""
    seqs = [s for s in seqs if s]
    if not seqs:
        yield []
        return
    for i, s in enumerate(seqs):
        rest = seqs[:i] + [s[1:]] + seqs[i + 1:]
        for tail in interleavings(rest):
            yield [s[0]] + tail


def thread_actions(reqs, m):
    seqs = []
    for i, r in enumerate(reqs):
        seqs.append([{"op": "req", "i": i}] + [{"op": "rel", "i": i}] * n_pauses(r))
    for j in range(m):
        seqs.append([{"op": "reload", "i": j}])
    return seqs


def random_merge(rng, seqs):
    seqs = [list(s) for s in seqs if s]
    out = []
    while seqs:
        k = rng.randrange(len(seqs))
        out.append(seqs[k].pop(0))
        if not seqs[k]:
            seqs.pop(k)
    return out


def sched_case(reqs, m, script, nbad=0, bad=None):
    """m reloads in total; those listed in `bad` (default: the last nbad) are given a subnet file that does not exist"""
    return {"kind": "sched", "reqs": reqs, "reloads": m, "script": script, "bad": sorted(bad) if bad is not None else list(range(m - nbad, m))}


def gen_cases(ctx):
    rng = ctx.rng
    quick = ctx.tier == "quick"
    cases = []
    # replayed cases first
    for f in (ctx.replay or {}).get("failures", []) + (ctx.replay or {}).get("theorem_or_correspondence", []):
        c = f.get("case")
        if isinstance(c, dict) and c.get("kind") in ("depth", "sched", "stress"):
            cases.append(c)
    # the deadlock witness of the model (coq/C13/Examples.v old_trace_deadlocks) on the real code:
    # request selects v4, reload announces, request goes on to the v6 selection
    cases.append(sched_case([DUAL], 1, [{"op": "req", "i": 0}, {"op": "reload", "i": 0}, {"op": "rel", "i": 0}, {"op": "rel", "i": 0}]))
    # lock-depth trace of every request kind
    for v4, v6, e4, e6 in itertools.product([True, False], repeat=4):
        for tr in (0, 1):
            cases.append({"kind": "depth", "reqs": [req(v4, v6, e4, e6, tr)]})
    # exhaustive interleavings at the selector scheduling points
    exh = [([DUAL], 1), ([DUAL], 2), ([DUAL, V4], 1), ([V6, V4], 2), ([req(True, True, False, True)], 1), ([req(True, True, True, False), DUAL], 1)]
    # reloads that fail (no subnet file).  The file a reload reads is chosen through a process-wide environment
    # variable at the moment the reload reads it; the driver sets it right before launching the reload, which pins
    # it for the code as it is (the file is read before Lock) but not for every legitimate implementation.  When
    # succeeding and failing reloads are mixed the number of failures is therefore OBSERVED, not asserted: the
    # model is instantiated with that many failing reloads.
    for m in (1, 2):
        for script in interleavings(thread_actions([DUAL], m)):
            cases.append(sched_case([DUAL], m, script, nbad=m))
    for bad in ([0], [1]):
        for script in interleavings(thread_actions([DUAL], 2)):
            cases.append(sched_case([DUAL], 2, script, bad=bad))
    if not quick:
        exh += [([DUAL, DUAL], 1), ([DUAL, DUAL], 2), ([DUAL, V6], 2), ([DUAL, V4, NONE], 1), ([DUAL, V4, V6], 1), ([V4, V4, V6, NONE], 1)]
    for reqs, m in exh:
        for script in interleavings(thread_actions(reqs, m)):
            cases.append(sched_case(reqs, m, script))
    # random larger ones (k <= 3 requests of random kinds, m <= 2 reloads)
    for _ in range(120 if quick else 1500):
        k = rng.choice([1, 2, 2, 3, 3] if quick else [1, 2, 2, 3, 3, 4, 4])
        reqs = []
        for _ in range(k):
            r = rng.choice([DUAL, DUAL, DUAL, V4, V6, NONE, req(True, True, True, False), req(True, True, False, True),
                            req(True, False, True, False), req(False, True, False, True)])
            reqs.append(dict(r))
        m = rng.choice([1, 1, 2, 2, 0, 3])
        bad = [j for j in range(m) if rng.random() < 0.25]
        cases.append(sched_case(reqs, m, random_merge(rng, thread_actions(reqs, m)), bad=bad))
    # the mutex model itself against the real sync.RWMutex: crafted wake-up orders, then random scripts of lock calls
    def mo(t, op):
        return {"t": t, "op": op}
    crafted = [
        # writer holds; a writer queues, then a reader queues; on Unlock Go admits the reader first
        [mo(0, "Lock"), mo(1, "Lock"), mo(2, "RLock"), mo(0, "Unlock"), mo(2, "RUnlock"), mo(1, "Unlock")],
        [mo(0, "Lock"), mo(2, "RLock"), mo(1, "Lock"), mo(0, "Unlock"), mo(2, "RUnlock"), mo(1, "Unlock")],
        [mo(0, "Lock"), mo(1, "Lock"), mo(2, "RLock"), mo(3, "RLock"), mo(0, "Unlock"), mo(2, "RUnlock"), mo(3, "RUnlock"), mo(1, "Unlock")],
        # two queued writers: first come first served
        [mo(0, "Lock"), mo(1, "Lock"), mo(2, "Lock"), mo(0, "Unlock"), mo(1, "Unlock"), mo(2, "Unlock")],
        [mo(0, "Lock"), mo(2, "Lock"), mo(1, "Lock"), mo(0, "Unlock"), mo(2, "Unlock"), mo(1, "Unlock")],
        # reader holds, writer pending, new reader queues; the recursive read lock of the old code
        [mo(0, "RLock"), mo(1, "Lock"), mo(2, "RLock"), mo(0, "RUnlock"), mo(1, "Unlock"), mo(2, "RUnlock")],
        [mo(0, "RLock"), mo(1, "Lock"), mo(0, "RLock"), mo(2, "RLock")],
        [mo(0, "RLock"), mo(0, "RLock"), mo(1, "Lock"), mo(0, "RUnlock"), mo(0, "RUnlock"), mo(1, "Unlock")],
        # upgrade attempt: Lock while holding the read lock
        [mo(0, "RLock"), mo(0, "Lock"), mo(1, "RLock")],
    ]
    for ops in crafted:
        cases.append({"kind": "rwm", "n": 4, "mops": ops, "reqs": []})
    for _ in range(150 if quick else 1500):
        n = rng.choice([2, 3, 3, 4])
        ops = []
        for _ in range(rng.randrange(3, 14)):
            ops.append({"t": rng.randrange(n), "op": rng.choice(["RLock", "RLock", "RUnlock", "RUnlock", "Lock", "Unlock", "Unlock"])})
        cases.append({"kind": "rwm", "n": n, "mops": ops, "reqs": []})
    # unscripted stress
    for k, m, it in ([(4, 2, 300)] if quick else [(4, 2, 2000), (8, 3, 1500), (2, 1, 3000)]):
        cases.append({"kind": "stress", "reqs": [dict(rng.choice([DUAL, DUAL, V4, V6])) for _ in range(k)], "reloads": m,
                      "iters": it, "bound_ms": 20000})
    return cases


def greq(r):
    return "(mkReq %s %s %s %s)" % (gbool(r["v4"]), gbool(r["v6"]), gbool(r["err4"]), gbool(r["err6"]))


def gobs(o):
    v4 = None if o["v4ver"] < 0 else o["v4ver"]
    v6 = None if o["v6ver"] < 0 else o["v6ver"]
    return "(%s, %s, %s)" % (gbool(o["err"] != ""), gopt(v4, str), gopt(v6, str))


MOPS = {"RLock": "MRLock", "RUnlock": "MRUnlock", "Lock": "MLock", "Unlock": "MUnlock"}


def term(c, r):
    if c["kind"] == "rwm":
        if not r["completed"]:
            return ""        # unstable timing: not compared
        return "(CRwm %d %s %s)" % (c["n"], glist(c["mops"], lambda o: "(%d, %s)" % (o["t"], MOPS[o["op"]])),
                                    glist(r["mobs"] or [], lambda o: "(%d, %s)" % (o["code"], glist(o["blocked"], gbool))))
    if c["kind"] == "depth":
        sels = r["sels"] or []
        if any(d < 0 or d > 1000 for _, d in sels) or not 0 <= r["final"] <= 1000:
            return None
        return "(CDepth %s %s %d)" % (greq(c["reqs"][0]), glist(sels, lambda s: "(%s, %d)" % (gbool(s[0] == 1), s[1])), r["final"])
    if c["kind"] == "sched":
        nfail = min(r["reload_errs"], c["reloads"])      # observed (see gen_cases on mixed scenarios)
        return "(CSched %s %d %d %d %s %s %d %d %d)" % (
            glist(c["reqs"], greq), c["reloads"] - nfail, nfail, c["reloads"], gbool(r["completed"]), glist(r["reqs"] or [], gobs),
            sum(1 for x in (r["reloads_done"] or []) if x), r["reload_errs"], max(0, r["final_ver"]))
    return None


def describe(c):
    if c["kind"] == "sched":
        return "k=%d m=%d bad=%s script=%s" % (len(c["reqs"]), c["reloads"], c.get("bad") or [],
                                        " ".join("%s%d" % (a["op"], a["i"]) for a in c["script"]))
    if c["kind"] == "rwm":
        return "rwm n=%d %s" % (c["n"], " ".join("%d:%s" % (o["t"], o["op"]) for o in c["mops"]))
    return "%s %s" % (c["kind"], c["reqs"])


def oracle(ctx, c, r):
    """the property's own statement on the implementation's observables"""
    kind = c["kind"]
    if kind == "rwm":
        return      # no property of conjure is involved: this only validates the model of sync.RWMutex
    if not r["completed"]:
        ctx.fail("stall/" + kind, "requests and reloads did not all complete within the bound (%s); blocked goroutines:\n%s"
                 % (describe(c), r["dump"][:3000]), {**c, "observed": {k: v for k, v in r.items() if k != "dump"}, "goroutines": r["dump"]})
        return
    if r["panic"]:
        ctx.fail("panic/" + kind, "panic: " + r["panic"], c)
    if r["final"] != 0:
        ctx.fail("lock-leak/" + kind, "selector mutex reader count is %d after everything returned (%s)" % (r["final"], describe(c)), c)
    if kind == "sched":
        for i, o in enumerate(r["reqs"]):
            if not o["done"]:
                ctx.fail("stall/sched", "request %d never returned (%s)" % (i, describe(c)), c)
            elif o["v4ver"] >= 0 and o["v6ver"] >= 0 and o["v4ver"] != o["v6ver"]:
                ctx.fail("mixed/sched", "request %d got its IPv4 phantom from subnet set %d and its IPv6 phantom from set %d (%s)"
                         % (i, o["v4ver"], o["v6ver"], describe(c)), {**c, "observed": r["reqs"]})
        nbad = len(c.get("bad") or [])
        pure = nbad in (0, c["reloads"])
        if not all(r["reloads_done"] or []) or (pure and r["reload_errs"] != nbad) or r["reload_errs"] > c["reloads"]:
            ctx.fail("reload/sched", "a reload did not complete, or %d reloads failed where %d have no file (%s)" % (r["reload_errs"], nbad, describe(c)), c)
        if c["reloads"] - r["reload_errs"] > 0 and r["final_ver"] == 0:
            ctx.fail("reload-lost/sched", "all reloads returned but the old selector is still installed (%s)" % describe(c), c)
    if kind == "stress":
        if r["mixed"]:
            ctx.fail("mixed/stress", "%d of %d requests mixed two subnet sets" % (r["mixed"], r["nreq"]), c)
        if r["reload_errs"]:
            ctx.fail("reload/stress", "%d reloads failed" % r["reload_errs"], c)


def run(ctx):
    ctx.assumptions += [
        "sync.RWMutex behaves as modelled in coq/C13/Model.v (writer preference: a pending Lock blocks new RLocks; Lock = announce + enter); the model admits every behaviour Go has",
        "the code between lock operations does not block on anything else (the selections are in-memory computations)",
        "the Go in-package driver (fake ipSelector as scheduling point, reader count read by reflection), the case generator and the emitter are trusted",
    ]
    ctx.cov["trusted_base"] = [
        "Coq 8.16.1 kernel (coqc; coqchk in the thorough tier); vm_compute for evaluating the model on cases and in Examples.v; no native_compute",
        "no axioms: every theorem prints 'Closed under the global context'",
        "hand-written model coq/C13/Model.v (RWMutex LTS + lock traces of processBdReq / ReloadSubnets), tied to the code by the observed lock-depth trace of every request kind and by forced interleavings at the selector call sites",
    ]
    ctx.cov["rule"] = ("depth: one per request kind (v4,v6,err4,err6,transport known/unknown); sched: every interleaving of "
                       "request launch / v4-selection / v6-selection and reload launch for the listed small (k,m), plus random "
                       "k<=3,m<=2; stress: unscripted. A case is non-trivial if it is hash-distinct (all of them exercise the lock).")
    ctx.coq_props()
    cases = gen_cases(ctx)
    results = []
    # the stress cases go last (and under -race in the thorough tier)
    plain = [c for c in cases if c["kind"] != "stress"]
    stress = [c for c in cases if c["kind"] == "stress"]
    rc, out, res = ctx.go_inpkg(".", PKG, {"zz_verif_driver_test.go": "c13/c13_driver_test.go"}, "^TestVerifC13$", plain, timeout=900)
    if res is None or len(res) != len(plain):
        ctx.broken("driver", "Go driver did not produce results: %s" % out[-1500:])
        return
    results += res
    rc, out, res2 = ctx.go_inpkg(".", PKG, {"zz_verif_driver_test.go": "c13/c13_driver_test.go"}, "^TestVerifC13$", stress,
                                 race=(ctx.tier == "thorough"), timeout=900)
    if res2 is None or len(res2) != len(stress):
        ctx.broken("driver", "Go stress driver did not produce results: %s" % out[-1500:])
        return
    if "DATA RACE" in out:
        ctx.fail("race/stress", "the race detector reported a data race between requests and reloads:\n" + out[out.find("DATA RACE") - 40:][:3000], stress[0])
    results += res2
    cases = plain + stress
    terms, tidx = [], []
    for i, (c, r) in enumerate(zip(cases, results)):
        kind = c["kind"]
        sub = kind
        if kind == "depth":
            sub = "depth/" + ("dual" if c["reqs"][0]["v4"] and c["reqs"][0]["v6"] else "single" if c["reqs"][0]["v4"] or c["reqs"][0]["v6"] else "none")
        elif kind == "sched":
            sub = "sched/k%d/m%d" % (len(c["reqs"]), c["reloads"])
        elif kind == "rwm":
            sub = "rwm/" + ("unstable" if not r["completed"] else "blocking" if any(any(o["blocked"]) for o in r["mobs"] or []) else "free")
        ctx.count((kind, repr(c)), nontrivial=True, kind=sub)
        oracle(ctx, c, r)
        t = term(c, r)
        if t == "":
            continue
        if t is not None:
            terms.append(t)
            tidx.append(i)
        elif kind != "stress":
            ctx.broken("correspondence", "observation outside the model's domain (%s)" % describe(c), c)
    ctx.sample({"case": cases[0], "observed": {k: v for k, v in results[0].items() if k != "dump"}})
    ctx.sample({"case": cases[1], "observed": {k: v for k, v in results[1].items() if k != "dump"}})
    ctx.sample({"case": cases[-1], "observed": {k: v for k, v in results[-1].items() if k != "dump"}})
    ctx.require_kinds(["depth/dual", "depth/single", "depth/none", "sched/k1/m1", "sched/k1/m2", "sched/k2/m1", "sched/k2/m2", "sched/k3/m2", "stress", "rwm/blocking", "rwm/free"])
    h = ctx.cov["histogram"]
    if h.get("rwm/unstable", 0) * 5 > h.get("rwm/unstable", 0) + h.get("rwm/blocking", 0) + h.get("rwm/free", 0):
        ctx.broken("driver", "more than a fifth of the sync.RWMutex scripts had no two agreeing executions")
    mm = ctx.coq_mismatches("lock", HEADER, terms, "chk", shard=400, need_vo=["C13/Run.vo", "C13/Examples.vo"])
    if mm:
        ctx.cov["mismatches"] += len(mm)
        i = tidx[mm[0]]
        ctx.broken("correspondence", "the model (coq/C13: lock trace of the request kinds / allowed outcomes of a schedule) and the "
                   "implementation disagree on %d case(s); first: %s observed %s" % (
                       len(mm), describe(cases[i]), {k: v for k, v in results[i].items() if k != "dump"}),
                   {**cases[i], "observed": {k: v for k, v in results[i].items() if k != "dump"}})
