"""C11 — no externally supplied bytes can crash a station or registrar process; an HTTP
registration request always receives a status line.

Per external entry point: deterministic enumeration of absent-sub-message / wrong-length /
out-of-range / mismatched-Any-type inputs on the real code (in-package drivers with recover() and
timeouts as crash / hang oracle) compared with the outcome class of the Coq model; the thorough tier
adds Go native fuzzing per entry point and replays what the fuzzer found against the model."""
import base64
import ipaddress
import os
import re
from concurrent.futures import ThreadPoolExecutor

import lib
from lib import gN, gZ, gbool, gopt, glist, hexs
from props import c11_pb as pb

HEADER0 = "From CJ Require Import Common.Base C11.Model C11.Run.\n"
EXPORT_SHIM = {"pkg/regserver/regprocessor/zz_verif_export.go": "c11/regprocessor_export.go"}
DOMAIN = [b"t", b"example", b"com"]
MAXUDP = 1232


# ================================================================ plumbing
_VIEW_LOCK = __import__("threading").Lock()
_VIEW_DONE = {}


def inst_view(pkg):
    """instantiate the shared Go helper for one package (overlay file under build/): written once per process and
    package, atomically — several go test jobs of one package run in parallel and read it while building"""
    with _VIEW_LOCK:
        if pkg in _VIEW_DONE:
            return _VIEW_DONE[pkg]
        p = os.path.join(lib.BUILD, "c11_view_%s_%d_test.go" % (pkg, os.getpid()))
        with open(os.path.join(lib.INPKG, "c11", "view.go.tmpl")) as f:
            txt = f.read()
        tmp = p + ".tmp"
        with open(tmp, "w") as f:
            f.write("//go:build verif\n\n" + txt.replace("package PKGNAME", "package " + pkg))
        os.replace(tmp, p)
        _VIEW_DONE[pkg] = p
        return p


TIMES = {}


def inst_shim(pkg):
    """the instrumented lock types (sync_shim.go.tmpl) for one package: a non-test overlay file"""
    with _VIEW_LOCK:
        key = "shim:" + pkg
        if key in _VIEW_DONE:
            return _VIEW_DONE[key]
        p = os.path.join(lib.BUILD, "c11_shim_%s_%d.go" % (pkg, os.getpid()))
        with open(os.path.join(lib.INPKG, "c11", "sync_shim.go.tmpl")) as f:
            txt = f.read()
        tmp = p + ".tmp"
        with open(tmp, "w") as f:
            f.write("//go:build verif\n\n" + txt.replace("package PKGNAME", "package " + pkg))
        os.replace(tmp, p)
        _VIEW_DONE[key] = p
        return p


def instrument_sync(rel):
    """scratch copy (under build/) of one source file of the checkout in which the lock TYPES sync.Mutex / sync.RWMutex are
    replaced by the instrumented ones; nothing else changes and nothing is written into the checkout"""
    with open(os.path.join(lib.REPO, rel)) as f:
        src = f.read()
    out, n1 = re.subn(r"\bsync\.RWMutex\b", "verifRWMutex", src)
    out, n2 = re.subn(r"\bsync\.Mutex\b", "verifMutex", out)
    if re.search(r'^\s*(?:import\s+)?"sync"\s*$', out, re.M):
        out += "\nvar _ sync.Once // keeps the import used in the instrumented copy\n"
    p = os.path.join(lib.BUILD, "c11_inst_%d_%s" % (os.getpid(), os.path.basename(rel)))
    tmp = p + ".tmp"
    with open(tmp, "w") as f:
        f.write(out)
    os.replace(tmp, p)
    return p, n1 + n2


def go_run(ctx, pkgpath, pkgname, driver, test, cases, extra=None, timeout=900, more_files=None, race=False):
    import time
    t0 = time.time()
    files = {"zz_verif_driver_test.go": "c11/" + driver, "zz_verif_view_test.go": inst_view(pkgname)}
    files.update(more_files or {})
    r = ctx.go_inpkg(".", pkgpath, files, "^%s$" % test, cases, extra_overlay=extra, timeout=timeout, race=race)
    TIMES["go:%s:%s%s(%d)" % (pkgname, test[len("TestVerifC11"):], "/race" if race else "", len(cases) if cases else 0)] = round(time.time() - t0, 1)
    return r


# ================================================================ Gallina emitters
def g_obool(v):
    return gopt(v, gbool)


def g_oN(v):
    return gopt(v, gN)


def g_oZ(v):
    return gopt(v, gZ)


def g_hex(h):
    return hexs(bytes.fromhex(h))


def g_ohex(h):
    return gopt(h, g_hex)


def url_class(u):
    """UTapdance t: a URL that is not the expected one but becomes it under strings.ReplaceAll(url, "tapdance.", "proto.")"""
    table = {"GenericTransportParams": "TGeneric", "PrefixTransportParams": "TPrefix", "DTLSTransportParams": "TDtls"}
    if u == "":
        return "UEmpty"
    for k, v in table.items():
        if u == pb.URL + "proto." + k:
            return "(UExact %s)" % v
        if u.replace("tapdance.", "proto.") == pb.URL + "proto." + k:
            return "(UTapdance %s)" % v
    return "UOther"


def g_anyrec(a):
    gen = "None" if a["gen"] is None else "(Some {| g_rand := %s |})" % g_obool(a["gen"]["rand"])
    pref = "None" if a["pref"] is None else "(Some {| p_id := %s; p_rand := %s |})" % (g_oZ(a["pref"]["id"]), g_obool(a["pref"]["rand"]))
    dt = "None" if a["dtls"] is None else "(Some {| d_rand := %s |})" % g_obool(a["dtls"]["rand"])
    return "{| a_url := %s; a_gen := %s; a_pref := %s; a_dtls := %s |}" % (url_class(a["url"]), gen, pref, dt)


def g_any(a):
    return "None" if a is None else "(Some %s)" % g_anyrec(a)


def g_enum(v):
    return "None" if v is None else "(Some %s)" % gN(v & 0xFFFFFFFF)


def g_c2s(c):
    if c is None:
        return "None"
    return ("(Some {| cs_gen := %s; cs_libver := %s; cs_disable := %s; cs_transport := %s; cs_params := %s; "
            "cs_v4 := %s; cs_v6 := %s |})" % (g_oN(c["gen"]), g_oN(c["libver"]), g_obool(c["disable"]), g_enum(c["transport"]),
                                             g_any(c["params"]), g_obool(c["v4"]), g_obool(c["v6"])))


def g_resp(r):
    if r is None:
        return "None"
    return ("(Some {| rr_ipv4 := %s; rr_ipv6 := %s; rr_dstport := %s; rr_params := %s; rr_portrand := %s |})"
            % (g_oN(r["ipv4"]), g_ohex(r["ipv6"]), g_oN(r["dstport"]), g_any(r["params"]), g_obool(r["portrand"])))


def g_wrapper_rec(w):
    return ("{| w_secret := %s; w_payload := %s; w_source := %s; w_regaddr := %s; w_decoyaddr := %s; w_resp := %s |}"
            % (g_ohex(w["secret"]), g_c2s(w["payload"]), g_enum(w["source"]), g_ohex(w["regaddr"]), g_ohex(w["decoyaddr"]),
               g_resp(w["resp"])))


def g_view(v):
    return "None" if v is None else "(Some %s)" % g_wrapper_rec(v)


def g_sel(s):
    if s is None or s.get("class", "") == "":
        return "SelErr"
    if s["class"] == "ok":
        return "(SelOk %s %s)" % (g_hex(s["ip"]), gbool(s["rand"]))
    return {"nil": "SelNil", "legacy": "SelErrLegacy"}.get(s["class"], "SelErr")


def g_seltab(sel):
    return glist(sel or [], lambda s: "(%s, %s, %s)" % (gN(s["gen"]), gbool(s["v6"]), g_sel(s)))


def g_pfx_table(tbl):
    return glist(tbl, lambda x: "{| x_id := %s; x_static := %s; x_offset := %s; x_minlen := %s; x_maxlen := %s; x_port := %s |}"
                 % (gZ(x["id"]), g_hex(x["static"]), gZ(x["offset"]), gZ(x["minlen"]), gZ(x["maxlen"]), gN(x["port"])))


TRK = {1: "TrMin", 2: "TrObfs4", 3: "TrDtls", 4: "(TrPrefix pfxtab)"}


def g_oclass(out, ecode=0):
    if out == "panic":
        return "OPanic"
    if ecode:
        return "(OErr %s)" % gN(ecode)
    return "OOk"


def parse_ip16(s):
    """net.ParseIP(strings.TrimSpace(s)).To16() on the clean strings the generator uses"""
    try:
        ip = ipaddress.ip_address(s.strip(" \t\r\n\v\f"))
    except ValueError:
        return None
    return (bytes(10) + b"\xff\xff" + ip.packed) if ip.version == 4 else ip.packed


def is_loopback16(b):
    return b is not None and b in (parse_ip16("127.0.0.1"), parse_ip16("::1"))


def header(tbl):
    return (HEADER0 + "Definition pfxtab : list pfx := %s.\n" % g_pfx_table(tbl) +
            "Definition trs : list (N * trk) := [(1, TrMin); (2, TrObfs4); (3, TrDtls); (4, TrPrefix pfxtab)].\n"
            "Definition pfxids : list Z := map x_id pfxtab.\n"
            "Definition rpcfgx (auth : bool) (enf : N) (hostbits : N) (pid : Z) : rpcfg :=\n"
            "  let sub := {| os_nil := false; os_v4 := true; os_hostbits := hostbits; os_prefix_id := pid |} in\n"
            "  let ex := {| os_nil := false; os_v4 := true; os_hostbits := 8; os_prefix_id := 0%Z |} in\n"
            "  {| rp_transports := trs; rp_overrides := true; rp_auth := auth; rp_privkey_ok := true; rp_enforce := negb (enf =? 0);\n"
            "     rp_min_subnets := if enf =? 1 then [sub] else []; rp_min_weights := if enf =? 1 then 1 else 0;\n"
            "     rp_prefix_subnets := if enf =? 2 then [sub] else []; rp_prefix_weights := if enf =? 2 then 1 else 0;\n"
            "     rp_exclusions := [ex]; rp_prefix_ids := pfxids |}.\n"
            "Definition rpcfg0 (auth : bool) (enf : N) : rpcfg := rpcfgx auth enf 8 0%Z.\n")

# (enforce label) -> (enf, hostbits, prefix id)
ENFORCE = {"": (0, 8, 0), "min": (1, 8, 0), "prefix": (2, 8, 0), "min-slash0": (1, 32, 0), "min-mapped64": None,
           "prefix-id10": (2, 8, 10), "prefix-idrand": (2, 8, -1), "prefix-idmax": (2, 8, 2147483647), "prefix-id-2": (2, 8, -2)}

# ================================================================ generators
SECRET = bytes(range(1, 33))


def any_variants():
    """(label, Any spec or None): type URL x value"""
    gen1, gen0 = pb.enc_generic({"rand": 1}), pb.enc_generic({"rand": 0})
    out = [("noany", None), ("any-empty", {})]
    vals = [("vempty", b""), ("gen1", gen1), ("gen0", gen0), ("garbage", b"\xff\xff\xff"), ("trunc", b"\x08"),
            ("dtls", pb.enc_dtls({"rand": 1, "src4": {"ip": b"\x01\x02\x03\x04", "port": 5}, "src6": {"ip": b"\x01" * 5}})),
            ("dtls0", pb.enc_dtls({"src4": {}}))]
    for pid in (-2, -1, 0, 1, 9, 10, 11, 2 ** 31 - 1):
        vals.append(("pref%d" % pid, pb.enc_prefix({"id": pid})))
        vals.append(("pref%dr" % pid, pb.enc_prefix({"id": pid, "rand": 1, "prefix": b"x", "flush": 2})))
    vals.append(("prefnoid", pb.enc_prefix({"rand": 1})))
    urls = [("u-none", None), ("u-empty", ""), ("u-gen", pb.T_GENERIC), ("u-pref", pb.T_PREFIX), ("u-dtls", pb.T_DTLS),
            ("u-tgen", pb.URL + "tapdance.GenericTransportParams"), ("u-tpref", pb.URL + "tapdance.PrefixTransportParams"),
            ("u-other", pb.URL + "proto.ClientToStation"), ("u-junk", "x")]
    for ul, u in urls:
        for vl, v in vals:
            a = {"value": v}
            if u is not None:
                a["url"] = u
            out.append(("%s/%s" % (ul, vl), a))
    return out


ANYS = any_variants()


def matching_any(tr, rng):
    """a well-formed parameter Any for the transport"""
    if tr == 4:
        return {"url": pb.T_PREFIX, "value": pb.enc_prefix({"id": rng.choice([0, 1, 3, 9]), "rand": rng.choice([0, 1])})}
    if tr == 3:
        return {"url": pb.T_DTLS, "value": pb.enc_dtls({"rand": rng.choice([0, 1]), "src4": {"ip": b"\x0a\x00\x00\x01", "port": 4000}})}
    return {"url": pb.T_GENERIC, "value": pb.enc_generic({"rand": rng.choice([0, 1])})}


SECRETS = [SECRET] + [bytes([i * 17 + 3]) * 32 for i in range(1, 6)]


def base_wrapper(tr=1, libver=4, gen=957, v4=1, v6=1, params="match", rng=None, secret=SECRET):
    c = {"gen": gen, "libver": libver, "transport": tr, "v4": v4, "v6": v6, "covert": "192.0.2.9:443"}
    if params == "match":
        c["params"] = matching_any(tr, rng)
    elif params is not None:
        c["params"] = params
    return {"secret": secret, "payload": c, "regaddr": bytes([10, 1, 2, 3])}


ADDRS = [("a-none", None), ("a-empty", b""), ("a-4", bytes([10, 1, 2, 3])), ("a-5", b"\x01\x02\x03\x04\x05"),
         ("a-16m", bytes(10) + b"\xff\xff" + bytes([10, 1, 2, 3])), ("a-16", bytes([0x20, 1]) + bytes(13) + b"\x01"), ("a-17", bytes(17))]
RESPS = [("r-none", None), ("r-empty", {}), ("r-v4zero", {"ipv4": 0}), ("r-v4", {"ipv4": 0xC0000207}),
         ("r-v6empty", {"ipv6": b""}), ("r-v6-5", {"ipv6": b"\x01\x02\x03\x04\x05"}), ("r-v6-16", {"ipv6": bytes([0x20, 1]) + bytes(14)}),
         ("r-v6-4", {"ipv6": bytes([198, 51, 100, 7])}), ("r-port0", {"dstport": 0}), ("r-port70000", {"dstport": 70000}),
         ("r-port8443", {"dstport": 8443, "portrand": 1}), ("r-cc", {"cc": 5})]


def fixed_rng(tag):
    """the enumerated part of every generator is independent of VERIF_SEED: only the malformed/random streams use ctx.rng"""
    import random
    return random.Random("C11-fixed-" + tag)


def wrapper_corpus(seed_rng, n_random):
    """(label, spec) — single-dimension variations around well-formed bases, then pairs (all independent of the seed),
    then a seeded random stream"""
    rng = fixed_rng("wrappers")
    out = []
    for tr in (1, 2, 3, 4):
        for lv in (0, 2, 3, 4):
            for si, sec in enumerate(SECRETS):
                for gen in (1, 957):
                    out.append(("base/t%d/lv%d/s%d/g%d" % (tr, lv, si, gen), base_wrapper(tr, lv, gen=gen, rng=rng, secret=sec)))
    # absent / odd top-level fields
    out += [("w-empty", {}), ("w-nopayload", {"secret": SECRET}), ("w-payload-empty", {"secret": SECRET, "payload": {}}),
            ("w-nosecret", {"payload": base_wrapper(rng=rng)["payload"]})]
    for n in (0, 1, 7, 8, 9, 16, 31, 33, 64):
        w = base_wrapper(rng=rng)
        w["secret"] = bytes(range(n))
        out.append(("secret%d" % n, w))
    for lbl, a in ADDRS:
        for tr, gen in ((1, 957), (4, 957), (1, 1), (4, 1)):   # generation 1 has a single group with both families
            w = base_wrapper(tr, gen=gen, rng=rng, secret=SECRETS[1])
            if a is not None:
                w["regaddr"] = a
            else:
                del w["regaddr"]
            out.append(("%s/t%d/g%d" % (lbl, tr, gen), w))
        w = base_wrapper(rng=rng)
        if a is not None:
            w["decoyaddr"] = a
        out.append(("decoy-" + lbl, w))
    for src in (0, 1, 2, 3, 4, 5, 6, 77):
        w = base_wrapper(rng=rng)
        w["source"] = src
        out.append(("src%d" % src, w))
    # payload fields
    for tr in (None, 0, 1, 2, 3, 4, 5, 9, 99, 12345, 2 ** 31 - 1):
        w = base_wrapper(rng=rng)
        if tr is None:
            del w["payload"]["transport"]
        else:
            w["payload"]["transport"] = tr
        out.append(("tr-%s" % tr, w))
    for lv in (None, 0, 1, 2, 3, 4, 5, 2 ** 32 - 1):
        for tr in (1, 2, 3, 4):
            w = base_wrapper(tr, rng=rng)
            if lv is None:
                del w["payload"]["libver"]
            else:
                w["payload"]["libver"] = lv
            out.append(("lv-%s/t%d" % (lv, tr), w))
    for gen in (None, 0, 1, 2, 957, 958, 7777, 2 ** 32 - 1):
        for lv in (0, 1, 2, 4):
            w = base_wrapper(1, lv, rng=rng)
            if gen is None:
                del w["payload"]["gen"]
            else:
                w["payload"]["gen"] = gen
            out.append(("gen-%s/lv%d" % (gen, lv), w))
    for v4 in (None, 0, 1):
        for v6 in (None, 0, 1):
            for a in (None, bytes([10, 1, 2, 3]), bytes([0x20, 1]) + bytes(14)):
                w = base_wrapper(rng=rng)
                for k, v in (("v4", v4), ("v6", v6)):
                    if v is None:
                        del w["payload"][k]
                    else:
                        w["payload"][k] = v
                if a is not None:
                    w["regaddr"] = a
                else:
                    del w["regaddr"]
                out.append(("fam-%s-%s-%s" % (v4, v6, "none" if a is None else len(a)), w))
    # parameters: every Any variant under every transport, old and new library version
    for tr in (1, 2, 3, 4):
        for lv in (2, 4):
            for k, (lbl, a) in enumerate(ANYS):
                # rotate the secrets: which weighted subnet (and so whether the port may be randomised) depends on it
                w = base_wrapper(tr, lv, params=a, rng=rng, secret=SECRETS[k % len(SECRETS)])
                out.append(("any/t%d/lv%d/%s" % (tr, lv, lbl), w))
            for si, sec in enumerate(SECRETS):
                out.append(("any/t%d/lv%d/noany/s%d" % (tr, lv, si), base_wrapper(tr, lv, params=None, rng=rng, secret=sec)))
    # a registration response inside the wrapper (only a registrar may set it; the API clears it, ZMQ trusts it)
    for lbl, r in RESPS:
        for tr in (1, 4):
            for dis in (None, 1):
                w = base_wrapper(tr, rng=rng)
                if r is not None:
                    w["resp"] = dict(r)
                if dis:
                    w["payload"]["disable"] = 1
                out.append(("%s/t%d/dis%s" % (lbl, tr, dis), w))
    for lbl, a in ANYS[:40:3] + ANYS[40::17]:
        for pl in ("full", "none"):
            w = base_wrapper(4, rng=rng) if pl == "full" else {"secret": SECRET}
            w["resp"] = {"params": a} if a is not None else {}
            out.append(("resp-params/%s/%s" % (pl, lbl), w))
    # random combinations (malformed stream) — the only seed-dependent part
    rng = seed_rng
    for k in range(n_random):
        w = {}
        if rng.random() < 0.9:
            w["secret"] = bytes(rng.getrandbits(8) for _ in range(rng.choice([0, 7, 8, 16, 32, 32, 32])))
        if rng.random() < 0.85:
            c = {}
            for key, choices in (("gen", [0, 1, 2, 957, 957, 7777]), ("libver", [0, 1, 2, 3, 4, 4, 9]), ("transport", [0, 1, 2, 3, 4, 5, 99]),
                                 ("v4", [0, 1, 1]), ("v6", [0, 1, 1]), ("disable", [0, 1])):
                if rng.random() < 0.8:
                    c[key] = rng.choice(choices)
            if rng.random() < 0.6:
                c["params"] = rng.choice(ANYS)[1] if rng.random() < 0.5 else matching_any(c.get("transport", 1), rng)
                if c["params"] is None:
                    del c["params"]
            w["payload"] = c
        if rng.random() < 0.4:
            w["regaddr"] = rng.choice(ADDRS)[1] or b""
        if rng.random() < 0.3:
            r = dict(rng.choice(RESPS)[1] or {})
            if rng.random() < 0.4:
                a = rng.choice(ANYS)[1]
                if a is not None:
                    r["params"] = a
            w["resp"] = r
        if rng.random() < 0.3:
            w["source"] = rng.choice([0, 1, 2, 4, 5, 6])
        out.append(("rand%d" % k, w))
    return out


def garbage_msgs(rng, n):
    out = [("g-empty", b""), ("g-ff", b"\xff"), ("g-trunc-len", b"\x0a\x20abc"), ("g-badwire", b"\x0f\x01"),
           ("g-nested-trunc", pb.f_bytes(3, b"\x10")), ("g-any-trunc", pb.f_bytes(3, pb.f_bytes(13, b"\x0a\x05ab"))),
           ("g-resp-trunc", pb.f_bytes(8, b"\x0d\x01\x02")), ("g-zero-field", b"\x00\x00")]
    base = pb.enc_wrapper(base_wrapper(4, rng=fixed_rng("garbage")))
    for k in range(n):
        b = bytearray(base)
        for _ in range(rng.choice([1, 1, 2, 4])):
            op = rng.random()
            if op < 0.4 and b:
                b[rng.randrange(len(b))] = rng.getrandbits(8)
            elif op < 0.7 and b:
                del b[rng.randrange(len(b)):rng.randrange(len(b)) + rng.choice([1, 2, 9])]
            else:
                i = rng.randrange(len(b) + 1)
                b[i:i] = bytes(rng.getrandbits(8) for _ in range(rng.choice([1, 2, 5])))
        out.append(("g-mut%d" % k, bytes(b)))
    return out


MAX_BODY = 1 << 20


def sized_wrapper(n):
    """a well-formed registration of exactly n bytes (padding field)"""
    k = n - 100
    for _ in range(8):
        w = base_wrapper(1, gen=1, rng=fixed_rng("sized"))
        w["payload"]["padding"] = b"p" * k
        b = pb.enc_wrapper(w)
        if len(b) == n:
            return b
        k += n - len(b)
    raise AssertionError("cannot size the wrapper")


def pad33(w):
    """the API rejects bodies shorter than 33 bytes before looking at them: pad with an ignored field"""
    b = pb.enc_wrapper(w)
    if len(b) < 33:
        w = dict(w)
        w["rrsig"] = b"p" * (33 - len(b))
        b = pb.enc_wrapper(w)
    return b


# ================================================================ sections
# Each section has gen(ctx, shared) -> (go cases, meta), a Go job, and post(ctx, meta, results, shared) -> Gallina terms.
def fail_driver(ctx, name, out):
    ctx.fail("driver-crash:" + name,
             "the %s driver process died, timed out or produced no output — a panic outside recover() (e.g. in a goroutine the "
             "code itself starts) kills the test binary: %s" % (name, out[-1500:]), {"entry": name})


def crash_check(ctx, entry, cls, out, detail, case):
    """direct oracle: the entry point neither panics nor hangs.  Returns True if it did."""
    if out in ("panic", "hang"):
        ctx.fail("%s:%s/%s" % (out, entry, cls),
                 "%s %s on externally supplied input (%s): %s" % (entry, "panicked" if out == "panic" else "did not return within 10 s", cls, detail[:500]),
                 {"entry": entry, "class": cls, "case": case})
        return True
    return False


# ---------------------------------------------------------------- station + transports
def thin(ctx, items, every):
    """quick tier: keep every n-th item of a large cross product (deterministic); thorough: all"""
    return items if ctx.tier != "quick" else [x for i, x in enumerate(items) if i % every == 0]


def gen_station(ctx, corpus, garbage):
    cases, meta = [], []
    for lbl, w in [x for i, x in enumerate(corpus) if ctx.tier != "quick" or not x[0].startswith("any/") or i % 2 == 0]:
        msg = pb.enc_wrapper(w)
        for (v4, v6) in ((True, True),):
            cases.append({"op": "ingest", "msg": msg.hex(), "v4": v4, "v6": v6, "geofail": False})
            meta.append(("ingest", lbl))
    for i, (lbl, w) in enumerate(corpus):
        if i % 7 == 0:
            msg = pb.enc_wrapper(w)
            for (v4, v6, gf) in ((True, False, False), (False, True, False), (False, False, False), (True, True, True)):
                cases.append({"op": "ingest", "msg": msg.hex(), "v4": v4, "v6": v6, "geofail": gf})
                meta.append(("ingest", lbl + "/cfg%d%d%d" % (v4, v6, gf)))
    for lbl, b in garbage:
        cases.append({"op": "ingest", "msg": b.hex(), "v4": True, "v6": True, "geofail": False})
        meta.append(("ingest", lbl))
    # NewRegistrationC2SWrapper directly, also where parseRegMessage would not call it
    for lbl, w in corpus:
        if lbl.startswith(("w-", "resp-params", "r-", "base/", "tr-", "a-")):
            for v6 in (False, True):
                cases.append({"op": "newreg", "msg": pb.enc_wrapper(w).hex(), "v4": True, "v6": True, "geofail": False, "incv6": v6})
                meta.append(("newreg", lbl))
    # the worker body: parseRegMessage + ingestRegistration, liveness / detector / peer API scripted
    wk = [x for x in corpus if x[0].startswith(("base/", "w-", "a-", "fam-", "tr-", "src", "r-", "secret", "gen-"))]
    for i, (lbl, w) in enumerate(thin(ctx, wk, 3)):
        msg = pb.enc_wrapper(w).hex()
        for live in (False, True):
            cases.append({"op": "worker", "msg": msg, "v4": True, "v6": True, "geofail": False, "live": live, "share": False, "peer": 200, "wait_ms": 0})
            meta.append(("worker", lbl))
    shared_n = 0
    for lbl, w in wk:
        # registrations that came from the detector are shared with the peer station's API, whose answer is attacker-influenced
        if lbl.startswith(("base/t1/lv4", "base/t4/lv4", "src1", "w-nopayload", "a-16/t1/g1")) and shared_n < 40:
            w2 = dict(w)
            w2["source"] = 1
            for peer in (200, 500, 0):
                shared_n += 1
                cases.append({"op": "worker", "msg": pb.enc_wrapper(w2).hex(), "v4": True, "v6": True, "geofail": False, "live": False,
                              "share": True, "peer": peer, "wait_ms": 3000 if lbl.startswith(("base/", "src1")) else 40})
                meta.append(("worker-share", lbl))
    for lbl, b in garbage[:25]:
        cases.append({"op": "worker", "msg": b.hex(), "v4": True, "v6": True, "geofail": False, "live": False, "share": False, "peer": 200, "wait_ms": 0})
        meta.append(("worker", lbl))
    # ingestRegistration on hand-built registrations: every combination of nil fields
    for keys in (True, False):
        for ph in (None, "", "c07abe01", "20010db8000000000000000000000001", "0102030405"):
            for src in (None, 0, 1, 2, 3):
                for tr in (1, 4, 77):
                    for flags in ((False, False, True, False), (True, True, False, True), (False, True, True, True)):
                        presc, live, has_c2s, share = flags
                        raw = {"nil": False, "keys": keys, "phantom": ph or "", "has_phantom": ph is not None, "source": src or 0, "has_source": src is not None,
                               "transport": tr, "prescanned": presc, "has_c2s": has_c2s, "c2s_v4": True, "covert": "192.0.2.9:443" if tr != 4 or keys else ""}
                        cases.append({"op": "rawreg", "raw": raw, "v4": True, "v6": True, "geofail": False, "live": live, "share": share, "peer": 200, "wait_ms": 10})
                        meta.append(("rawreg", "k%d" % keys))
    cases.append({"op": "rawreg", "raw": {"nil": True, "keys": False, "phantom": "", "has_phantom": False, "source": 0, "has_source": False, "transport": 1,
                                          "prescanned": False, "has_c2s": False, "c2s_v4": False, "covert": ""},
                  "v4": True, "v6": True, "geofail": False, "live": False, "share": False, "peer": 200, "wait_ms": 0})
    meta.append(("rawreg", "nil"))
    # ParseParams / GetDstPort of every transport on every Any variant and library version
    for tr in (1, 2, 3, 4):
        for lv in ((0, 2, 3, 4, 2 ** 32 - 1) if ctx.tier != "quick" else (2, 3, 4)):
            for lbl, a in thin(ctx, ANYS, 2):
                c = {"op": "params", "transport": tr, "libver": lv, "has_any": a is not None, "any": pb.enc_any(a).hex() if a is not None else ""}
                cases.append(c)
                meta.append(("params", "t%d/lv%d/%s" % (tr, lv, lbl)))
    # GetDstPort on mismatched / typed-nil parameter values
    pvals = [("nil", ""), ("gen", pb.enc_generic({"rand": 1}).hex()), ("gen", pb.enc_generic({}).hex()), ("gen_nil", ""),
             ("pref_nil", ""), ("dtls", pb.enc_dtls({"rand": 1}).hex()), ("dtls", b"".hex()), ("dtls_nil", "")]
    for pid in (-1, 0, 5, 9, 10):
        pvals.append(("pref", pb.enc_prefix({"id": pid}).hex()))
        pvals.append(("pref", pb.enc_prefix({"id": pid, "rand": 1}).hex()))
    pvals.append(("pref", b"".hex()))
    for tr in (1, 2, 3, 4):
        for lv in (0, 2, 3, 4):
            for kind, val in pvals:
                cases.append({"op": "dstport", "transport": tr, "libver": lv, "pkind": kind, "pval": val})
                meta.append(("dstport", "t%d/lv%d/%s" % (tr, lv, kind)))
    return cases, meta


def g_pval(kind, hexval):
    b = bytes.fromhex(hexval)
    # decode the few fields the generator sets (our own encoder wrote them)
    fields = {}
    i = 0
    while i < len(b):
        key = b[i]
        i += 1
        if key == 0x68 or key == 0x18 or key == 0x08:  # varint fields 13 / 3 / 1
            v, sh = 0, 0
            while True:
                v |= (b[i] & 0x7F) << sh
                sh += 7
                i += 1
                if not b[i - 1] & 0x80:
                    break
            fields[key >> 3] = v
        else:
            break
    if kind == "nil":
        return "PNil"
    if kind == "gen":
        return "(PGen (Some {| g_rand := %s |}))" % g_obool(bool(fields[13]) if 13 in fields else None)
    if kind == "gen_nil":
        return "(PGen None)"
    if kind == "pref":
        pid = fields.get(1)
        if pid is not None and pid >= 2 ** 63:
            pid -= 2 ** 64
        return "(PPref (Some {| p_id := %s; p_rand := %s |}))" % (g_oZ(pid), g_obool(bool(fields[13]) if 13 in fields else None))
    if kind == "pref_nil":
        return "(PPref None)"
    if kind == "dtls":
        return "(PDtls (Some {| d_rand := %s |}))" % g_obool(bool(fields[3]) if 3 in fields else None)
    return "(PDtls None)"


def post_station(ctx, cases, meta, res):
    terms, idx = [], []
    for k, (c, (op, lbl), r) in enumerate(zip(cases, meta, res)):
        crashed = False
        if op == "ingest":
            crashed = crash_check(ctx, "parseRegMessage", lbl.split("/")[0], r["out"], r["detail"], c)
            cfg = "{| sc_v4 := %s; sc_v6 := %s; sc_transports := trs |}" % (gbool(c["v4"]), gbool(c["v6"]))
            orc = "{| so_sel4 := %s; so_sel6 := %s; so_geo_ok := %s |}" % (g_sel(r["sel4"]), g_sel(r["sel6"]), gbool(not c["geofail"]))
            regs = glist(r["regs"] or [], lambda x: "(%s, %s)" % (g_hex(x["ip"]), gN(x["port"])))
            oc = g_oclass(r["out"], r["ecode"] if r["err"] else 0) if not (r["err"] and not r["ecode"]) else "(OErr 0)"
            terms.append("AStation (%s, %s, %s, %s, %s)" % (cfg, orc, g_view(r["view"]), oc, regs))
            kind = "ingest/" + ("panic" if r["out"] != "ret" else ("err%d" % r["ecode"] if r["err"] else "ok%d" % len(r["regs"] or [])))
        elif op == "newreg":
            # not an external entry point: a panic here is compared with the model, not reported
            if r["view"] is None:
                continue
            cfg = "{| sc_v4 := true; sc_v6 := true; sc_transports := trs |}"
            orc = "{| so_sel4 := %s; so_sel6 := %s; so_geo_ok := true |}" % (g_sel(r["sel4"]), g_sel(r["sel6"]))
            oc = g_oclass(r["out"], r["ecode"] if r["err"] else 0) if not (r["err"] and not r["ecode"]) else "(OErr 0)"
            terms.append("ANewReg (%s, %s, %s, %s, %s)" % (cfg, orc, g_wrapper_rec(r["view"]), gbool(c["incv6"]), oc))
            kind = "newreg/" + ("panic" if r["out"] == "panic" else ("err%d" % r["ecode"] if r["err"] else "ok"))
        elif op in ("worker", "worker-share"):
            crash_check(ctx, "ingest worker (parseRegMessage+ingestRegistration)", lbl.split("/")[0], r["out"], r["detail"], c)
            cfg = "{| sc_v4 := true; sc_v6 := true; sc_transports := trs |}"
            orc = "{| so_sel4 := %s; so_sel6 := %s; so_geo_ok := true |}" % (g_sel(r["sel4"]), g_sel(r["sel6"]))
            io = "{| io_blocklisted := false; io_exists := false; io_covert_ok := %s; io_live := %s; io_share := %s |}" % (
                gbool(r["covert_ok"]), gbool(c["live"]), gbool(c["share"]))
            oc = "(OErr 0)" if (r["err"] and r["out"] == "ret") else g_oclass(r["out"])
            terms.append("AWorker (%s, %s, %s, %s, %s, %s, %s)" % (cfg, orc, g_view(r["view"]), io, oc, gN(r["announced"]), gN(r["shares"])))
            kind = op + "/" + ("panic" if r["out"] != "ret" else ("err" if r["err"] else "announced%d%s" % (r["announced"], "/shared" if r["shares"] else "")))
            if c["share"]:
                kind += "/peer%d" % c["peer"]
        elif op == "rawreg":
            crash_check(ctx, "ingestRegistration", lbl, r["out"], r["detail"], c)
            x = c["raw"]
            ir = ("{| ir_nil := %s; ir_keys := %s; ir_phantom := %s; ir_source := %s; ir_transport_known := %s; ir_prescanned := %s; "
                  "ir_has_c2s := %s; ir_c2s_v4 := %s; ir_connecting := None |}" % (
                      gbool(x["nil"]), "(Some [])" if x["keys"] else "None", g_ohex(x["phantom"]) if x["has_phantom"] else "None",
                      g_oN(x["source"]) if x["has_source"] else "None", gbool(x["transport"] in (1, 2, 3, 4)), gbool(x["prescanned"]),
                      gbool(x["has_c2s"]), gbool(x["c2s_v4"])))
            io = "{| io_blocklisted := false; io_exists := false; io_covert_ok := %s; io_live := %s; io_share := %s |}" % (
                gbool(r["covert_ok"]), gbool(c["live"]), gbool(c["share"]))
            terms.append("ARawReg (%s, %s, %s, %s)" % (ir, io, g_oclass(r["out"]), gbool(r["announced"] > 0)))
            kind = "rawreg/" + ("panic" if r["out"] != "ret" else ("announced" if r["announced"] else "dropped"))
        elif op == "params":
            crashed = crash_check(ctx, "ParseParams", "t%d" % c["transport"], r["out"], r["detail"], c)
            crashed = crash_check(ctx, "GetDstPort", "t%d" % c["transport"], r["out2"] or "ret", "", c) or crashed
            data = g_any(r["anyview"]) if c["has_any"] else "None"
            o1 = "(OErr 0)" if (r["ecode"] and r["out"] == "ret") else g_oclass(r["out"])
            o2 = g_oclass(r["out2"] or "ret", r["ecode2"])
            terms.append("AParams (%s, %s, %s, %s, %s, %s)" % (TRK[c["transport"]], gN(c["libver"]), data, o1, o2, gN(r["port"])))
            kind = "params/t%d/%s" % (c["transport"], "err" if r["ecode"] else ("ok-dsterr" if r["ecode2"] else "ok"))
        else:
            crashed = crash_check(ctx, "GetDstPort", "t%d/%s" % (c["transport"], c["pkind"]), r["out"], r["detail"], c)
            terms.append("ADstPort (%s, %s, %s, %s, %s)" % (TRK[c["transport"]], gN(c["libver"]), g_pval(c["pkind"], c["pval"]),
                                                           g_oclass(r["out"], r["ecode"]), gN(r["port"])))
            kind = "dstport/t%d/%s" % (c["transport"], "err" if r["ecode"] else "ok")
        idx.append(k)
        ctx.count((op, sorted((a, str(b)) for a, b in c.items())), nontrivial=True, kind=kind)
    return terms, idx


# ---------------------------------------------------------------- dtls.Connect: use of the client's parameters
def gen_dtlsconn(ctx):
    cases = []
    addrs = [None, {}, {"ip": b""}, {"ip": b"\x0a\x00\x00\x01", "port": 4000}, {"ip": b"\x01\x02\x03\x04\x05", "port": 70000},
             {"ip": bytes(16), "port": 0}, {"ip": bytes([0x20, 1]) + bytes(14), "port": 65535}, {"ip": bytes(17)}, {"port": 1}]
    for ph in ("c07abe01", "20010db8000000000000000000000001"):
        for a4 in addrs:
            for a6 in (addrs if a4 in (None, addrs[3]) else [None, addrs[6]]):
                d = {"rand": 1}
                if a4 is not None:
                    d["src4"] = a4
                if a6 is not None:
                    d["src6"] = a6
                cases.append({"pkind": "dtls", "pval": pb.enc_dtls(d).hex(), "phantom": ph, "ttype": 3})
        for k in ("nil", "gen", "pref"):
            cases.append({"pkind": k, "pval": "", "phantom": ph, "ttype": 3})
        cases.append({"pkind": "dtls", "pval": "", "phantom": ph, "ttype": 1})
    return cases


def post_dtlsconn(ctx, cases, res):
    terms, idx = [], []
    for k, (c, r) in enumerate(zip(cases, res)):
        crash_check(ctx, "dtls.Connect", c["pkind"], r["out"], r["detail"], c)
        pv = {"nil": "PNil", "dtls": "(PDtls (Some {| d_rand := None |}))", "gen": "(PGen (Some {| g_rand := None |}))",
              "pref": "(PPref (Some {| p_id := None; p_rand := None |}))"}[c["pkind"]]
        oc = "OPanic" if r["out"] == "panic" else ("(OErr %d)" % r["ecode"] if r["ecode"] else ("OOk" if r["dnat_n"] >= 1 else "(OErr 0)"))
        terms.append("ADtlsConn (%s, %s, %s)" % (gbool(c["ttype"] == 3), pv, oc))
        idx.append(k)
        ctx.count(sorted(c.items()), nontrivial=True, kind="dtlsconn/" + ("panic" if r["out"] != "ret" else ("err%d" % r["ecode"] if r["ecode"] else "dnat")))
    return terms, idx


# ---------------------------------------------------------------- registrar: processBdReq / processC2SWrapper
def gen_regproc(ctx, corpus):
    cases, meta = [], []
    for lbl, w in thin(ctx, corpus, 2):
        msg = pb.enc_wrapper(w).hex()
        cases.append({"op": "bdreq", "msg": msg, "nil": False, "auth": True, "enforce": ""})
        meta.append(("bdreq", lbl))
        if lbl.startswith(("base/", "w-", "secret", "src", "a-")):
            for auth in (True, False):
                for addr_nil in (False, True):
                    cases.append({"op": "c2sw", "msg": msg, "nil": False, "auth": auth, "enforce": "", "addr_nil": addr_nil})
                    meta.append(("c2sw", lbl))
        if lbl.startswith(("base/", "fam-", "tr-", "w-")):
            for enf in ("min", "prefix", "min-slash0", "prefix-id10", "prefix-idrand", "prefix-idmax", "prefix-id-2"):
                cases.append({"op": "bdreq", "msg": msg, "nil": False, "auth": True, "enforce": enf})
                meta.append(("bdreq-enf", lbl))
    for op in ("bdreq", "c2sw"):
        cases.append({"op": op, "msg": "", "nil": True, "auth": True, "enforce": ""})
        meta.append((op, "nil-wrapper"))
    return cases, meta


def post_regproc(ctx, cases, meta, res):
    terms, idx = [], []
    for k, (c, (op, lbl), r) in enumerate(zip(cases, meta, res)):
        if r["out"] == "skip":
            continue
        view = "None" if c["nil"] else g_view(r["view"])
        ec = r["ecode"] if r["err"] else 0
        oc = "(OErr 0)" if (r["err"] and not ec and r["out"] == "ret") else g_oclass(r["out"], ec)
        enf, hostbits, pid = ENFORCE[c["enforce"]]
        if op.startswith("bdreq"):
            crash_check(ctx, "processBdReq", lbl.split("/")[0], r["out"], r["detail"], c)
            if enf:
                # the override draws are fixed by the configuration (one subnet, 100 %): compare the outcome class
                terms.append("ABdReqE (rpcfgx true %s %s %s, %s, %s, %s)" % (gN(enf), gN(hostbits), gZ(pid), g_seltab(r["sel"]), view, oc))
            else:
                terms.append("ABdReq (rpcfg0 true 0, %s, %s, %s, %s, %s, %s)" % (g_seltab(r["sel"]), view, oc, gbool(r["has4"]), gbool(r["has6"]), gN(r["port"])))
            kind = op + "/" + ("panic" if r["out"] != "ret" else ("err%d" % ec if r["err"] else "ok"))
            if enf and r["out"] == "ret" and not r["err"]:
                kind += "/" + c["enforce"]
        else:
            crash_check(ctx, "processC2SWrapper", lbl.split("/")[0], r["out"], r["detail"], c)
            terms.append("AC2sw (rpcfg0 %s 0, %s, %s)" % (gbool(c["auth"]), view, oc))
            kind = "c2sw/" + ("panic" if r["out"] != "ret" else ("err%d" % ec if r["err"] else "ok"))
        idx.append(k)
        ctx.count((op, sorted(c.items())), nontrivial=True, kind=kind)
    return terms, idx


# ---------------------------------------------------------------- registrar: HTTP handlers
XFFS = [[], ["198.51.100.7"], ["198.51.100.7, 203.0.113.9"], ["junk"], [""], [","], ["198.51.100.7,"], [", 203.0.113.9"],
        ["junk, 203.0.113.9"], ["2001:db8::1"], ["198.51.100.7", "junk"], ["junk", "203.0.113.9, 10.0.0.1"], ["a,b,c,d"]]
REMOTES = ["", "127.0.0.1:999", "[::1]:999", "198.51.100.200:1", "[2001:db8::5]:1", "nonsense", "203.0.113.1", ":80"]


def xff_grammar():
    """the X-Forwarded-For dimension, systematically: (label, header lines).  Items of every class (IPv4, loopback, IPv6, junk,
    empty, blank) at the last and the second-to-last position, separators with and without optional whitespace, values that
    are separators only, many items, huge values, and repeated header lines whose last line is of every class."""
    tok = [("ip4", "198.51.100.7"), ("ip4b", "203.0.113.9"), ("lo", "127.0.0.1"), ("ip6", "2001:db8::1"), ("junk", "junk"),
           ("empty", ""), ("sp", " "), ("tab", "\t"), ("sps", "   ")]
    vals = [("1:" + n, t) for n, t in tok]
    vals += [("2:%s,%s" % (n1, n2), t1 + "," + t2) for n1, t1 in tok for n2, t2 in tok]
    vals += [("2sep%d" % i, "198.51.100.7" + sep + "203.0.113.9") for i, sep in enumerate((", ", " ,", " , ", ",\t", "\t,\t"))]
    for n in (1, 2, 3, 7, 50, 1000):
        vals.append(("commas%d" % n, "," * n))
        vals.append(("blank-commas%d" % n, " ," * n + " "))
    for n in (3, 10, 300, 1500):
        vals.append(("many%d" % n, ",".join("198.51.%d.%d" % (i // 250, i % 250 + 1) for i in range(n))))
        vals.append(("many%d-trailing-comma" % n, ",".join("198.51.%d.%d" % (i // 250, i % 250 + 1) for i in range(n)) + ","))
    vals += [("huge-token", "a" * 20000), ("huge-blank", " " * 20000), ("huge-commas", "," * 5000), ("huge-then-ip", "a" * 20000 + ",198.51.100.7"),
             ("ip-then-huge-blank", "198.51.100.7," + " " * 20000)]
    out = [(lbl, [v]) for lbl, v in vals]
    lasts = [("empty", ""), ("sp", " "), ("comma", ","), ("blank-comma", " , "), ("ip4", "203.0.113.9"), ("junk", "junk"), ("two", "junk, 203.0.113.9")]
    for n, last in lasts:
        out.append(("lines2:ip4|" + n, ["198.51.100.7", last]))
        out.append(("lines2:" + n + "|ip4", [last, "198.51.100.7"]))
        out.append(("lines3:ip4|junk|" + n, ["198.51.100.7", "junk", last]))
    out.append(("lines40", ["198.51.100.%d" % (i + 1) for i in range(40)]))
    out.append(("lines40-empty-last", ["198.51.100.%d" % (i + 1) for i in range(40)] + [""]))
    return out


def clen_grammar(n):
    """the Content-Length / Transfer-Encoding dimension as raw header lines (n: the real body length): absent, empty, signs,
    blanks, non-decimal, overflow, repeated lines (equal and different), lists, both framings at once"""
    c = "Content-Length: "
    return [("absent", []), ("empty", [c]), ("zero", [c + "0"]), ("exact", [c + str(n)]), ("short", [c + str(n - 1)]), ("min-1", [c + "32"]), ("min", [c + "33"]),
            ("plus", [c + "+" + str(n)]), ("minus", [c + "-1"]), ("blank-padded", [c + "  %d  " % n]), ("hex", [c + hex(n)]), ("alpha", [c + "abc"]),
            ("exp", [c + "1e2"]), ("overflow", [c + "9" * 30]), ("twice-equal", [c + str(n), c + str(n)]), ("twice-different", [c + str(n), c + str(n - 1)]),
            ("list-equal", [c + "%d, %d" % (n, n)]), ("longer-than-body", [c + str(n + 50)]),
            ("te-identity", ["Transfer-Encoding: identity", c + str(n)]), ("te-gzip", ["Transfer-Encoding: gzip"]), ("te-chunked-unframed", ["Transfer-Encoding: chunked"]),
            ("te-and-cl", ["Transfer-Encoding: chunked", c + str(n)]), ("expect-continue", ["Expect: 100-continue", c + str(n)]),
            ("lower-case-name", ["content-length: " + str(n)]), ("name-blank", ["Content-Length : " + str(n)])]


def gen_api(ctx, corpus, garbage):
    cases = []

    def add(cls, handler, body, method="POST", xff=(), remote="", clen=None, chunked=False, ccgen=None, zmqfail=False):
        cases.append({"cls": cls, "go": {"handler": handler, "method": method, "body": body.hex(), "xff": list(xff), "remote": remote,
                                         "clen": clen, "chunked": chunked, "ccgen": ccgen, "zmqfail": zmqfail}})

    sel = thin(ctx, [x for x in corpus if not x[0].startswith(("any/", "rand"))], 3) + [x for i, x in enumerate(corpus) if x[0].startswith("any/") and i % 5 == 0] \
        + [x for x in corpus if x[0].startswith("rand")]
    sel = thin(ctx, sel, 2)
    for lbl, w in sel:
        body = pad33(w)
        cls = lbl.split("/")[0]
        nopl = "payload" not in w
        cgen = (w.get("payload") or {}).get("gen", 0) if isinstance(w.get("payload"), dict) else 0
        for handler in ("uni", "bidi"):
            for ccgen in ((None, 1, 1000) if (nopl or lbl.startswith(("base/", "gen-", "w-"))) else (1000,)):
                add(("no-payload" if nopl else cls) + ("/server-cc-newer" if (ccgen is not None and ccgen > cgen) else ""), handler, body, ccgen=ccgen)
    base = pad33(base_wrapper(1, rng=fixed_rng("api")))
    nopl = pad33({"secret": SECRET})
    for handler in ("uni", "bidi"):
        for lbl, b in garbage:
            add("garbage", handler, b if len(b) >= 33 else b + b"\x00" * 0, ccgen=1000)
            add("garbage-padded", handler, b + pb.f_bytes(10, b"p" * 33), ccgen=1000)
        for m in ("GET", "PUT", "HEAD", "DELETE"):
            add("method", handler, base, method=m, ccgen=1000)
        for n in (0, 1, 31, 32, 33, 34):
            add("clen", handler, (base + bytes(40))[:n], ccgen=1000)
            add("clen-override", handler, base, clen=n, ccgen=1000)
        add("clen-override", handler, base, clen=-1, ccgen=1000)
        add("chunked", handler, base, chunked=True, ccgen=1000)
        for xff in XFFS:
            for remote in REMOTES[:3] + REMOTES[5:6]:
                add("xff", handler, base, xff=xff, remote=remote, ccgen=1000)
                add("xff-nopayload", handler, nopl, xff=xff, remote=remote, ccgen=1000)
        # the header dimension, systematically
        good1 = pad33(base_wrapper(1, 4, gen=1, rng=fixed_rng("api-hdr"), secret=SECRETS[1]))
        for lbl, lines in xff_grammar():
            for remote in ("", "127.0.0.1:999"):
                add("xff", handler, good1, xff=lines, remote=remote, ccgen=None)
                cases[-1]["hdr"] = "xff/" + lbl
        for lbl, lines in clen_grammar(len(good1)):
            add("clen-header", handler, good1, ccgen=None)
            cases[-1]["go"].update({"raw_hdr": lines, "no_clen": True, "srv_only": True})
            cases[-1].update({"hdr": "clen/" + lbl, "nomodel": True})
        for remote in REMOTES:
            add("remote", handler, base, remote=remote, ccgen=None)
        for size in (MAX_BODY - 1, MAX_BODY, MAX_BODY + 1):
            add("body-size", handler, sized_wrapper(size), ccgen=None)
        add("body-size", handler, sized_wrapper(MAX_BODY + 1), chunked=True, ccgen=None)
        for body in (base, nopl):
            for ccgen in (None, 0, 1, 957, 958, 2 ** 32 - 1):
                add("ccgen", handler, body, ccgen=ccgen)
            add("zmqfail", handler, body, zmqfail=True, ccgen=1000)
    return cases


def remote_host16(rem):
    """parseIP(r.RemoteAddr)"""
    if rem.startswith("["):
        return parse_ip16(rem[1:rem.index("]")])
    if rem.count(":") == 1:
        h = rem.rsplit(":", 1)[0]
        return parse_ip16(h) if h else None
    return parse_ip16(rem)


def post_api(ctx, cases, res):
    terms, idx = [], []
    for k, (c, r) in enumerate(zip(cases, res)):
        g = c["go"]
        bad = None
        if r["srv_status"] == 0:
            bad = "the client got no HTTP status line (%s)" % r["srv_err"]
        elif not g.get("srv_only") and r["rec_out"] != "ret":
            bad = "the handler %s: %s" % ("panicked" if r["rec_out"] == "panic" else "did not return within 10 s", r["rec_detail"][:400])
        if bad:
            gs = dict(g)
            if sum(len(v) for v in g["xff"]) > 300:
                gs["xff"] = [v if len(v) <= 120 else "%s... (%d bytes: %r repeated)" % (v[:40], len(v), v[:1] if len(set(v)) == 1 else v[:12]) for v in g["xff"]]
            ctx.fail("http:%s/%s" % (g["handler"], c["cls"]), "HTTP %s registration request (%s%s): %s" % (g["handler"], c["cls"], ", " + c["hdr"] if c.get("hdr") else "", bad),
                     {"entry": "api", "case": gs, "observed": {x: y for x, y in r.items() if x not in ("view", "sel")}})
        ctx.count(("api", sorted((x, str(y)) for x, y in g.items())), nontrivial=True, kind="api%s/%s/%s" % ("-hdr" if c.get("hdr") else "", g["handler"], r["srv_status"]))
        if c.get("nomodel"):
            # framing headers net/http itself judges (malformed, repeated, conflicting): the handler may never run; the property's own
            # words are the oracle -- a status line came back
            continue
        xbytes, xitems = sum(len(v) for v in g["xff"]), sum(v.count(",") + 1 for v in g["xff"])
        if g["xff"] and xbytes <= 6000:
            terms.append("AXffSplit (%s, %s)" % (glist(g["xff"], lambda v: hexs(v.encode("latin1"))), glist(r.get("xff_split") or [], gN)))
            idx.append(k)
        if xbytes > 2500 or xitems > 80:
            # very long values: the model is evaluated on the moderate sizes (Coq's parser is slow on long list literals); crash / status oracle only
            continue
        body_len = len(g["body"]) // 2
        g_xff = glist([[parse_ip16(it) for it in v.split(",")] for v in g["xff"]], lambda items: glist(items, lambda b: gopt(b, hexs)))

        def req(remote16, clen):
            return ("{| h_post := %s; h_remote := %s; h_remote_loopback := %s; h_xff := %s; h_clen := %s; h_blen := %s; h_read_ok := true; h_body := %s |}"
                    % (gbool(g["method"] == "POST"), gopt(remote16, hexs), gbool(is_loopback16(remote16)), g_xff, gZ(clen), gZ(body_len), g_view(r["view"])))

        common = "%s, rpcfg0 true 0, %s, %s, %s" % (gbool(g["handler"] == "bidi"), g_seltab(r["sel"]), gbool(not g["zmqfail"]), g_oN(g["ccgen"]))
        # run 1: real server — RemoteAddr is loopback, ContentLength comes from the header (-1 when chunked)
        terms.append("AApi (%s, %s, (%s, %s, %s, %s))" % (common, req(parse_ip16("127.0.0.1"), -1 if g["chunked"] else body_len),
                                                          gbool(r["srv_status"] == 0), gN(r["srv_status"]), gbool(r["srv_cc"]), gN(r["srv_pub"])))
        idx.append(k)
        # run 2: recorder — only status / panic / publications are observable
        rem16 = remote_host16(g["remote"] or "192.0.2.1:1234")
        rec_clen = -1 if g["chunked"] else (g["clen"] if g["clen"] is not None else body_len)
        terms.append("AApiRec (%s, %s, (%s, %s, %s))" % (common, req(rem16, rec_clen), gbool(r["rec_out"] == "panic"), gN(r["rec_code"]), gN(r["rec_pub"])))
        idx.append(k)
    return terms, idx


# ---------------------------------------------------------------- registrar: sequences of requests around a reload
def gen_seq(ctx):
    """[r1 of every error-path class; ReloadSubnets; well-formed r2 (bidirectional and unidirectional)] on one registrar.
    The per-call theorems say nothing about locks held ACROSS calls (that is C13's theorem); this lane is the tie for it:
    a request that leaves the selector lock held makes the reload, and every request after it, hang."""
    rng = fixed_rng("seq")
    sec = SECRETS[1]

    def req(w, handler="bidi", zmqfail=False, body=None):
        return {"kind": "req", "req": {"handler": handler, "method": "POST", "body": (body if body is not None else pad33(w)).hex(), "xff": [],
                                       "remote": "", "clen": None, "chunked": False, "ccgen": None, "zmqfail": zmqfail}}

    def wr(**kw):
        return base_wrapper(kw.pop("tr", 1), kw.pop("lv", 4), rng=rng, secret=kw.pop("secret", sec), **kw)
    good = wr(gen=1)
    firsts = [("v4-select-fails", wr(gen=7777, v4=1, v6=0)), ("v6-select-fails", wr(gen=7777, v4=0, v6=1)), ("both-select-fail", wr(gen=7777)),
              ("v4-ok-v6-fails", wr(gen=957, secret=SECRET)), ("v6-only-ok", wr(gen=1, v4=0, v6=1)), ("v4-only-ok", wr(gen=1, v4=1, v6=0)),
              ("no-family", wr(gen=1, v4=0, v6=0)), ("legacy-libver0-v6", wr(gen=1, lv=0)), ("legacy-libver1", wr(gen=957, lv=1)),
              ("unknown-transport", wr(gen=1, tr=5)), ("params-error", wr(gen=1, tr=4, params={"url": pb.T_PREFIX, "value": pb.enc_prefix({"id": 77})})),
              ("dstport-error", wr(gen=957, tr=4, params=None)), ("no-payload", {"secret": sec}), ("short-secret", dict(wr(gen=1), secret=b"abc")),
              ("well-formed", good)]
    seqs = []
    for lbl, w in firsts:
        seqs.append((lbl, [req(w), {"kind": "reload"}, req(good), req(good, handler="uni")]))
    seqs.append(("garbage", [req(None, body=b"\xff" * 40), {"kind": "reload"}, req(good)]))
    seqs.append(("zmq-fails", [req(good, zmqfail=True), {"kind": "reload"}, req(good)]))
    seqs.append(("uni-first", [req(wr(gen=7777), handler="uni"), {"kind": "reload"}, req(good)]))
    # several failing requests, two reloads
    seqs.append(("many", [req(w) for _, w in firsts[:6]] + [{"kind": "reload"}, req(good), {"kind": "reload"}, req(firsts[1][1]), {"kind": "reload"}, req(good)]))
    return seqs


def post_seq(ctx, seqs, res):
    terms, idx = [], []
    for k, ((lbl, steps), obs) in enumerate(zip(seqs, res)):
        hung = False
        for si, (st, r) in enumerate(zip(steps, obs)):
            what = "ReloadSubnets" if st["kind"] == "reload" else "%s request" % st["req"]["handler"]
            if r["out"] != "ret":
                # the first step that does not come back names the failing sequence; later steps hang for the same reason
                if not hung:
                    ctx.fail("%s:registrar-sequence/%s" % (r["out"], lbl),
                             "registrar sequence '%s': step %d (%s) %s after the preceding externally supplied request(s) — %s"
                             % (lbl, si, what, "did not return within 4 s" if r["out"] == "hang" else "panicked: " + r["detail"][:300],
                                "no status line for this and every later bidirectional request, the reload never completes" if r["out"] == "hang" else ""),
                             {"entry": "registrar-sequence", "label": lbl, "failing_step": si,
                              "steps": [s if s["kind"] == "reload" else {"kind": "req", "handler": s["req"]["handler"], "body": s["req"]["body"][:400], "zmqfail": s["req"]["zmqfail"]} for s in steps]})
                hung = True
                continue
            if st["kind"] == "reload":
                if r["err"]:
                    ctx.broken("driver", "ReloadSubnets failed in the sequence lane: " + r["err"])
                continue
            if hung:
                continue
            g = st["req"]
            body_len = len(g["body"]) // 2
            reqt = ("{| h_post := true; h_remote := %s; h_remote_loopback := false; h_xff := []; h_clen := %s; h_blen := %s; h_read_ok := true; h_body := %s |}"
                    % (gopt(parse_ip16("192.0.2.1"), hexs), gZ(body_len), gZ(body_len), g_view(r["view"])))
            terms.append("AApiRec (%s, rpcfg0 true 0, %s, %s, None, %s, (false, %s, %s))" % (gbool(g["handler"] == "bidi"), g_seltab(r["sel"]), gbool(not g["zmqfail"]),
                                                                                            reqt, gN(r["code"]), gN(r["pub"])))
            idx.append(k)
        ctx.count(("seq", lbl), nontrivial=True, kind="seq/" + ("hang" if hung else "ok"))
    return terms, idx


# ---------------------------------------------------------------- station: concurrent lane (child process)
CONC_PHANTOM = bytes([192, 0, 2, 77])


def gen_conc(ctx):
    rng = fixed_rng("conc")
    templates = []
    for tr in (1, 2, 4):
        w = base_wrapper(tr, gen=1, v4=1, v6=0, rng=rng, secret=bytes(32))
        w["resp"] = {"ipv4": int.from_bytes(CONC_PHANTOM, "big")}     # registrar-supplied override: every registration lands on one phantom
        w["source"] = 2
        b = pb.enc_wrapper(w)
        assert b[:2] == b"\x0a\x20"
        templates.append(b.hex())
    # statistics keys: every generation of the test subnets x wrapping transport x a range of library versions
    msgs, k = [], 0
    for gen in (1, 2, 957):
        for tr in (1, 2, 4):
            for lv in (2, 3, 4, 5, 6, 7):
                k += 1
                w = base_wrapper(tr, gen=gen, libver=lv, v4=1, v6=0, rng=rng, secret=bytes([k]) * 32)
                w["source"] = 2
                msgs.append(pb.enc_wrapper(w).hex())
    return [{"templates": templates, "phantom": CONC_PHANTOM.hex(), "duration_ms": 3500 if ctx.tier == "quick" else 12000, "workers": 4,
             "housekeeping": True, "stats_workers": 4, "stats_msgs": msgs}]


def post_conc(ctx, name, result):
    rc, out, res = result
    ok = res is not None and len(res) == 1 and res[0].get("done") and rc == 0
    if not ok:
        m = re.search(r"(fatal error: [^\n]*|WARNING: DATA RACE|panic: [^\n]*)", out)
        why = m.group(1) if m else ("workers did not stop (deadlock?)" if res and not res[0].get("done") else "no result")
        tail = out[out.index(m.group(1)):][:1500] if m else out[-1200:]
        ctx.fail("crash:station-concurrent/%s" % re.sub(r"[^a-zA-Z]+", "-", why)[:50].strip("-"),
                 "station process ended abnormally (%s) while ZMQ registrations for one phantom were ingested (and accepted registrations under 50 "
                 "generation / transport / library-version keys accounted) concurrently with first-flight bytes handed to every wrapping transport's "
                 "WrapConnection for that phantom, with the sweeper and with the statistics ticker's body (PrintAndReset of every statistics module, "
                 "again and again) [%s]: %s" % (why, name, tail),
                 {"entry": "station-concurrent", "lane": name, "phantom": CONC_PHANTOM.hex(),
                  "inputs": "registration messages with registration_response.ipv4addr = the phantom and fresh shared secrets; well-formed registrations "
                            "of every generation x transport x library version 2..7; connections delivering 32..8192 arbitrary bytes to that phantom"})
        ctx.count(("conc", name), nontrivial=True, kind="conc/%s/crash" % name)
        return
    ctx.cov.setdefault("concurrent_lane", {})[name] = res[0]
    if res[0]["ingested"] < 50 or res[0]["wraps"] < 50 or res[0].get("epochs", 0) < 20 or res[0].get("stats_adds", 0) < 1000 or res[0].get("stats_regs", 0) < 30:
        ctx.broken("generator-selftest", "the concurrent station lane did too little work: %s" % res[0])
    ctx.count(("conc", name), nontrivial=True, kind="conc/%s/clean" % name)


# ---------------------------------------------------------------- station: statistics epoch, forced interleavings
STATS_FILE = "pkg/station/lib/registration_stats.go"


def gen_stats(ctx):
    """threads = ingest workers (real parseRegMessage + ingestRegistration on wire messages) and epoch changes (Reset / the ticker's
    PrintAndReset); the driver measures how many lock-protected regions each thread has on the running code and enumerates the
    interleavings (all of them for two short threads; otherwise: one thread runs to its end while another waits in front of its
    k-th lock, for every k and every ordered pair, plus explicit alternations and random interleavings)"""
    rng = fixed_rng("stats")
    n = [0]

    def msg(tr, gen, lv):
        n[0] += 1
        w = base_wrapper(tr, gen=gen, libver=lv, v4=1, v6=0, rng=rng, secret=bytes([n[0]]) * 32)
        w["source"] = 2
        return pb.enc_wrapper(w).hex()

    W = lambda *ms: {"kind": "ingest", "msgs": list(ms)}
    R = lambda k=1: {"kind": "reset", "n": k}
    T = lambda k=1: {"kind": "printreset", "n": k}
    cases = []
    for tr, gen, lv in ((1, 957, 4), (2, 1, 3), (4, 2, 6)):
        cases.append(("w1-reset", {"threads": [W(msg(tr, gen, lv)), R()], "expand": True, "max_all": 400}))
    cases.append(("w1-ticker", {"threads": [W(msg(1, 2, 5)), T()], "expand": True, "max_all": 400}))
    cases.append(("w2", {"threads": [W(msg(1, 957, 4)), W(msg(1, 957, 4))], "expand": True, "max_all": 400}))
    cases.append(("w2", {"threads": [W(msg(2, 1, 3)), W(msg(4, 957, 7))], "expand": True, "max_all": 400}))
    # a worker handling three registrations against three epoch changes: an epoch change in front of every lock of the worker
    # (1, 2, 3 and 4 steps of the resetter per step of the worker: whatever the number of regions of Reset is, one of them is "one whole Reset")
    alt = [[0] + [1] * k for k in (1, 2, 3, 4)]
    scheds = [a * 40 for a in alt] + [([1] * k + [0]) * 40 for k in (1, 2, 3)]
    cases.append(("mix", {"threads": [W(msg(1, 957, 4), msg(2, 957, 4), msg(1, 1, 3)), R(12)], "scheds": scheds, "expand": True, "max_all": 0, "n_random": 10,
                          "seed": 11}))
    cases.append(("mix", {"threads": [W(msg(4, 2, 6), msg(1, 2, 6)), W(msg(4, 2, 6)), T(2)], "expand": True, "max_all": 0,
                          "n_random": 30 if ctx.tier == "quick" else 400, "seed": ctx.rng.randrange(1 << 30)}))
    return cases


def stats_job(ctx, cases):
    inst, nrepl = instrument_sync(STATS_FILE)
    extra = {STATS_FILE: inst, "pkg/station/lib/zz_verif_sync.go": inst_shim("lib")}
    r = go_run(ctx, "pkg/station/lib", "lib", "stats_sched_driver_test.go", "TestVerifC11StatsSched", [c for _, c in cases], extra=extra, timeout=300,
               more_files={"zz_verif_driver2_test.go": "c11/station_driver_test.go"})
    return r + (nrepl,)


def g_tkind(th, keys):
    if th["kind"] == "ingest":
        return "TWorker [%s]" % "; ".join("(%d, %d, %d)" % tuple(k) for k in (keys or []))
    return "%s %d%%nat" % ("TReset" if th["kind"] == "reset" else "TTicker", th["n"])


def post_stats(ctx, cases, result):
    """direct oracle: under no forced schedule does a thread panic, hang or return with a statistics lock held.  Returns the
    Gallina terms (model on the same threads and schedule: outcome, and the counters when the region structure is the model's)."""
    rc, out, res, nrepl = result
    terms, idx = [], []
    if res is None or len(res) != len(cases):
        if "[build failed]" in out or "[setup failed]" in out:
            # the lock types of the statistics file cannot be substituted (they escape the file): the forced lane does not apply;
            # the free-running lane (housekeeping in the child process) still covers the class
            ctx.cov["stats_sched"] = "instrumented copy does not build: " + out[-400:]
            return None
        fail_driver(ctx, "stats-sched", out)
        return None
    structure = {}
    for ci, ((label, c), o) in enumerate(zip(cases, res)):
        structure.setdefault(label, []).append(o["alone"])
        for th, n in zip(c["threads"], o["alone"]):
            if n == 0:
                ctx.broken("generator-selftest", "statistics lane: a %s thread took no statistics lock when run alone (%d lock types instrumented)" % (th["kind"], nrepl), c)
        for r in o["runs"]:
            kind = "stats-sched/%s/%s" % (label, r["out"])
            ctx.count(("stats", label, tuple(r["sched"]), ci), nontrivial=True, kind=kind)
            if r["out"] != "ok":
                th = c["threads"][r["thread"]] if 0 <= r["thread"] < len(c["threads"]) else {"kind": "?"}
                fn = re.sub(r"\.func\d+(\.\d+)*$", "", r["detail"].split(" <- ")[1]) if r["out"] == "panic" and " <- " in r["detail"] else th["kind"]
                what = {"panic": "panicked in a goroutine nothing recovers (the station dies)", "hang": "did not get on",
                        "leak": "returned with a statistics lock held (the next epoch never starts, then every worker stops)"}[r["out"]]
                ctx.fail("%s:stats-epoch/%s" % (r["out"], fn),
                         "statistics epoch against ingest, forced schedule: thread %d (%s) %s: %s.  Threads: %s; schedule (thread that runs its next "
                         "lock-protected region) %s; locks taken in that order: %s"
                         % (r["thread"], th["kind"], what, r["detail"][:300], [(t["kind"], len(t.get("msgs") or []) or t.get("n")) for t in c["threads"]],
                            r["sched"][:60], r["trace"][:400]),
                         {"entry": "stats-epoch", "threads": c["threads"], "sched": r["sched"], "observed": {k: r[k] for k in ("out", "detail", "thread", "step", "sections")}})
            ocode = {"ok": 0, "panic": 1}.get(r["out"], 2)
            counts = r.get("counts") or [[-1, -1, -1]] * len(c["threads"])
            terms.append("AStats ([%s], [%s]%%nat, [%s], %d, [%s])" % (
                "; ".join(g_tkind(th, o["keys"][i]) for i, th in enumerate(c["threads"])),
                "; ".join(str(x) for x in r["sched"]),
                "; ".join(str(x) for x in r["sections"]), ocode,
                "; ".join("(%s, %s, %s)" % tuple(gopt(None if v < 0 else v, gN) for v in cnt) for cnt in counts)))
            idx.append({"label": label, "threads": c["threads"], "sched": r["sched"], "observed": r})
    ctx.cov["stats_sched"] = {"lock_types_instrumented": nrepl, "regions_alone": structure, "schedules": len(terms)}
    if res and res[0]["runs"]:
        ctx.sample({"entry": "stats-epoch", "threads": cases[0][1]["threads"], "run": res[0]["runs"][len(res[0]["runs"]) // 2]})
    return terms, idx


# ---------------------------------------------------------------- application: connection statistics epoch, forced interleavings
CONN_FILES = ["cmd/application/conns.go", "cmd/application/connectingStats.go"]


def connstats_job(ctx):
    """every accounting method of connStats (listed from the method declarations of the checkout) against Reset / PrintAndReset with the
    epoch change forced in front of every lock the accounting takes; lock types instrumented through an overlay copy"""
    src = ""
    for rel in CONN_FILES:
        with open(os.path.join(lib.REPO, rel)) as f:
            src += f.read() + "\n"
    a = re.findall(r"^func \(\w+ \*connStats\) (\w+)\(\w+ uint, \w+ string, \w+ bool\)\s*\{", src, re.M)
    b = re.findall(r"^func \(\w+ \*connStats\) (\w+)\(\w+ uint, \w+ string, \w+ string\)\s*\{", src, re.M)
    names = os.path.join(lib.BUILD, "c11_inst_%d_csnames_test.go" % os.getpid())
    with open(names + ".tmp", "w") as f:
        f.write("//go:build verif\n\npackage main\n\nvar csOps = map[string]func(*connStats, uint, string, bool){\n"
                + "".join('\t"%s": (*connStats).%s,\n' % (n, n) for n in a) + "}\n\nvar csOpsTp = map[string]func(*connStats, uint, string, string){\n"
                + "".join('\t"%s": (*connStats).%s,\n' % (n, n) for n in b) + "}\n")
    os.replace(names + ".tmp", names)
    extra, nrepl = {"cmd/application/zz_verif_sync.go": inst_shim("main")}, 0
    for rel in CONN_FILES:
        inst, n = instrument_sync(rel)
        extra[rel] = inst
        nrepl += n
    import time
    t0 = time.time()
    files = {"zz_verif_driver_test.go": "c11/connstats_sched_driver_test.go", "zz_verif_names_test.go": names, "zz_verif_view_test.go": inst_view("main")}
    r = ctx.go_inpkg("cmd/application", ".", files, "^TestVerifC11ConnStatsSched$", [{"asn": 64500, "cc": "US"}], extra_overlay=extra, timeout=300)
    TIMES["go:main:ConnStatsSched"] = round(time.time() - t0, 1)
    return r + (nrepl, len(a) + len(b))


def post_connstats(ctx, result):
    rc, out, res, nrepl, nops = result
    terms, idx = [], []
    if res is None or len(res) != 1:
        if "[build failed]" in out or "[setup failed]" in out:
            ctx.cov["connstats_sched"] = "instrumented copy does not build: " + out[-400:]
            return None
        fail_driver(ctx, "connstats-sched", out)
        return None
    o = res[0]
    if nops < 5 or len(o["runs"]) < 50 or nrepl < 1:
        ctx.broken("generator-selftest", "connStats lane: %d accounting methods found, %d lock types instrumented, %d runs" % (nops, nrepl, len(o["runs"])))
    for r in o["runs"]:
        ctx.count(("connstats", r["op"], r["house"], r["v4"], tuple(r["sched"])), nontrivial=True, kind="connstats-sched/%s/%s" % (r["house"], r["out"]))
        if r["out"] != "ok":
            what = {"panic": "panicked in the connection's goroutine (nothing recovers it: the station dies)", "hang": "did not get on",
                    "leak": "returned with the statistics lock held (the next epoch and every later connection of a known country stop)"}[r["out"]]
            ctx.fail("%s:connstats-epoch/%s" % (r["out"], r["op"]),
                     "connection statistics epoch against connection accounting, forced schedule: connStats.%s(asn 64500, \"US\", %s) twice || %s: %s: %s; "
                     "schedule (0: accounting runs its next lock-protected region, 1: the epoch change does) %s"
                     % (r["op"], "IPv4" if r["v4"] else "IPv6", "Reset()" if r["house"] == "reset" else "PrintAndReset()", what, r["detail"][:300], r["sched"]),
                     {"entry": "connstats-epoch", "op": r["op"], "housekeeping": r["house"], "v4": r["v4"], "sched": r["sched"], "observed": r})
        terms.append("AStats ([TConn %s 64500 2%%nat; %s 1%%nat], [%s]%%nat, [%s], %d, [(None, None, None); (None, None, None)])" % (
            gbool(r["v4"]), "TConnReset" if r["house"] == "reset" else "TConnTicker", "; ".join(str(x) for x in r["sched"]),
            "; ".join(str(x) for x in r["sections"]), {"ok": 0, "panic": 1}.get(r["out"], 2)))
        idx.append({"entry": "connstats-epoch", "observed": r})
    ctx.cov["connstats_sched"] = {"lock_types_instrumented": nrepl, "accounting_methods": o["ops"], "schedules": len(o["runs"])}
    return terms, idx


# ---------------------------------------------------------------- registrar: DNS responder under a burst (child process)
def gen_burst(ctx, dns_pkts):
    pk = [{"pkt": p.hex(), "has_plain": pl is not None, "plain": (pl or b"").hex(), "resplen": rl} for _, p, pl, rl in dns_pkts if len(p) <= 1400]
    return [{"pkts": pk, "repeat": 40 if ctx.tier == "quick" else 300, "seed": ctx.rng.randrange(1 << 30), "probes": 8}]


def post_burst(ctx, name, cases, result):
    rc, out, res = result
    o = res[0] if res else {}
    ok = rc == 0 and res is not None and len(res) == 1 and o.get("probes_ok") == cases[0]["probes"] and o.get("loop_ended")
    if not ok:
        m = re.search(r"(fatal error: [^\n]*|WARNING: DATA RACE|panic: [^\n]*)", out)
        if m:
            why, tail = m.group(1), out[out.index(m.group(1)):][:1500]
        elif res and o.get("probes_ok", 0) < cases[0]["probes"]:
            why, tail = "well-formed queries are no longer answered after the burst", str(o)
        elif res and not o.get("loop_ended"):
            why, tail = "the receive loop does not end when its socket is closed", str(o)
        else:
            why, tail = "no result", out[-1200:]
        ctx.fail("crash:dns-burst/%s" % re.sub(r"[^a-zA-Z]+", "-", why)[:50].strip("-"),
                 "DNS registrar ended abnormally or stopped answering (%s) under a burst: every packet of the enumeration (%d datagrams: truncations, "
                 "pointer loops, reserved labels, EDNS variants, noise-valid registrations) %d times over, shuffled and delivered back to back to the real "
                 "RecvAndRespond loop, then %d well-formed probe queries [%s]: %s" % (why, len(cases[0]["pkts"]), cases[0]["repeat"], cases[0]["probes"], name, tail),
                 {"entry": "dns-burst", "lane": name, "seed": cases[0]["seed"], "repeat": cases[0]["repeat"], "packets": len(cases[0]["pkts"]), "observed": o})
        ctx.count(("burst", name), nontrivial=True, kind="dns-burst/%s/crash" % name)
        return
    ctx.cov.setdefault("dns_burst", {})[name] = o
    if o["fed"] < 1000 or o["responses"] < 200 or o["callbacks"] < 10:
        ctx.broken("generator-selftest", "the DNS burst lane did too little work: %s" % o)
    ctx.count(("burst", name), nontrivial=True, kind="dns-burst/%s/clean" % name)


# ---------------------------------------------------------------- registrar: DNS processRequest
def gen_dnsproc(ctx, corpus, garbage):
    cases, meta = [], []
    for lbl, w in thin(ctx, [x for i, x in enumerate(corpus) if not (x[0].startswith("any/") and i % 4)], 2):
        for src in (5, 6):
            w2 = dict(w)
            w2["source"] = src
            cases.append({"msg": pb.enc_wrapper(w2).hex(), "ccgen": 1000, "zmqfail": False})
            meta.append(lbl + "/src%d" % src)
        if lbl.startswith(("w-", "src", "base/")):
            cases.append({"msg": pb.enc_wrapper(w).hex(), "ccgen": 0, "zmqfail": True})
            meta.append(lbl + "/zmqfail")
    for lbl, b in garbage:
        cases.append({"msg": b.hex(), "ccgen": 1000, "zmqfail": False})
        meta.append(lbl)
    return cases, meta


def post_dnsproc(ctx, cases, meta, res):
    terms, idx = [], []
    for k, (c, lbl, r) in enumerate(zip(cases, meta, res)):
        crash_check(ctx, "dnsregserver.processRequest", lbl.split("/")[0], r["out"], r["detail"], c)
        oc = g_oclass(r["out"], 1 if r["err"] else 0)
        terms.append("ADnsProc (rpcfg0 true 0, %s, %s, %s, %s, %s)" % (g_seltab(r["sel"]), gbool(not c["zmqfail"]), g_view(r["view"]), oc, gbool(r["success"])))
        idx.append(k)
        ctx.count(("dnsproc", c["msg"], c["ccgen"], c["zmqfail"]), nontrivial=True,
                  kind="dnsproc/" + ("panic" if r["out"] != "ret" else ("err" if r["err"] else ("success" if r["success"] else "fail"))))
    return terms, idx


# ---------------------------------------------------------------- first flight: min / prefix
def gen_prefix(ctx, tbl):
    rng = fixed_rng("prefix")
    cases = [{"op": "dump"}, {"op": "newfile"}] + [{"op": "tryfromid", "id": i} for i in (-2147483648, -2, -1, 0, 1, 9, 10, 11, 2147483647)]
    regsets = [[], [{"is_prefix": True, "pkind": "pref", "pid": 0}]]
    lens = [0, 1, 5, 6, 16, 31, 32, 33, 63, 64, 65, 69, 70, 71, 79, 80, 81, 84, 85, 86, 100, 300]

    def rb(n):
        return bytes(rng.getrandbits(8) for _ in range(n))
    for n in lens:
        cases.append({"op": "min", "pre": rb(n).hex(), "tag": -1, "post": "", "regs": []})
        cases.append({"op": "prefix", "pre": rb(n).hex(), "tag": -1, "post": "", "regs": []})
    for n in (0, 5, 40):
        cases.append({"op": "min", "pre": "", "tag": 0, "post": rb(n).hex(), "regs": [{"is_prefix": False, "pkind": "nil", "pid": 0}]})
    # every prefix: the static match cut at every length around its thresholds, with and without a valid tag
    for e in tbl:
        st = bytes.fromhex(e["static"])
        for cut in sorted(set([0, 1, len(st) - 1, len(st)]) - {-1}):
            for extra in (0, 1, 62, 63, 64, 65):
                cases.append({"op": "prefix", "pre": (st[:cut] + rb(extra)).hex() if cut < len(st) else (st + rb(extra)).hex(), "tag": -1, "post": "", "regs": []})
        for reg in ({"is_prefix": True, "pkind": "pref", "pid": e["id"]}, {"is_prefix": True, "pkind": "pref", "pid": (e["id"] + 1) % 10},
                    {"is_prefix": True, "pkind": "pref_nil", "pid": 0}, {"is_prefix": True, "pkind": "nil", "pid": 0},
                    {"is_prefix": True, "pkind": "gen", "pid": 0}, {"is_prefix": False, "pkind": "nil", "pid": 0}):
            for post in (0, 1, 30):
                cases.append({"op": "prefix", "pre": st.hex(), "tag": 0, "post": rb(post).hex(), "regs": [reg]})
        # a valid tag at the wrong offset / truncated tag
        cases.append({"op": "prefix", "pre": (st + b"\x00").hex(), "tag": 0, "post": "", "regs": [{"is_prefix": True, "pkind": "pref", "pid": e["id"]}]})
    return cases


def post_prefix(ctx, cases, res):
    terms, idx = [], []
    tbl = res[0]["table"]
    for k, (c, r) in enumerate(zip(cases, res)):
        if c["op"] == "dump":
            continue
        if c["op"] == "newfile":
            crash_check(ctx, "prefix.Default(keys, file)", "prefix-file-configured", r["out"], r["detail"], c)
            ctx.count(("newfile",), nontrivial=True, kind="prefix/newfile/" + ("panic" if r["out"] != "ret" else "ok%d" % r["used"]))
            continue
        if c["op"] == "tryfromid":
            crash_check(ctx, "prefix.TryFromID+overridePrefix", "id%d" % c["id"], r["out"], r["detail"], c)
            terms.append("ATryId (pfxids, %s, %s, %s)" % (gZ(c["id"]), g_oclass(r["out"]), gbool(not r["ecode"])))
            idx.append(k)
            ctx.count(("tryfromid", c["id"]), nontrivial=True, kind="tryfromid/" + ("panic" if r["out"] != "ret" else ("err" if r["ecode"] else "ok")))
            continue
        crash_check(ctx, "%s.WrapConnection" % c["op"], "len%d" % (len(r["data"]) // 2), r["out"], r["detail"], c)
        oc = g_oclass(r["out"], r["ecode"])
        if c["op"] == "min":
            terms.append("AMin (%s, %s, %s, %s)" % (g_hex(r["data"]), gbool(bool(r["found"])), oc, gZ(r["used"])))
        else:
            def rv(i):
                reg = c["regs"][i]
                pv = {"nil": "PNil", "pref": "(PPref (Some {| p_id := Some %s; p_rand := None |}))" % gZ(reg["pid"]),
                      "pref_nil": "(PPref None)", "gen": "(PGen (Some {| g_rand := None |}))"}[reg["pkind"]]
                return "{| rv_is_prefix := %s; rv_params := %s |}" % (gbool(reg["is_prefix"]), pv)
            found = glist(r["found"] or [], lambda f: "(%s, %s)" % (gZ(f[0]), rv(f[1])))
            terms.append("APrefix (pfxtab, %s, %s, %s, %s)" % (g_hex(r["data"]), found, oc, gZ(r["used"])))
        idx.append(k)
        ctx.count((c["op"], r["data"], str(c["regs"])), nontrivial=True,
                  kind="%s/%s" % (c["op"], "panic" if r["out"] != "ret" else ("err%d" % r["ecode"] if r["ecode"] else "found")))
    return terms, idx, tbl


# ---------------------------------------------------------------- first flight: obfs4 / findMarkMac
def gen_obfs4(ctx):
    cases = []
    for n in (0, 1, 31, 32, 63, 64, 65, 108, 109, 140, 141, 142, 1000, 8191, 8192, 8193, 9000):
        for regs in ([], ["ok"], ["ok", "ok"], ["nil"], ["badkeys"]):
            cases.append({"op": "wrap", "len": n, "regs": regs})
    for marklen in (0, 15, 16, 17):
        for buflen in ((0, 16, 31, 32, 33, 108, 109, 140, 141, 142, 200, 8191, 8192, 8193, 9000) if marklen == 16 else (0, 141, 9000)):
            for start in ((-33, -1, 0, 1, 109, 200) if marklen == 16 else (-1, 109)):
                for maxpos in (((-1, 0, 100, 141, 8192, 100000) if ctx.tier != "quick" else (-1, 100, 141, 8192)) if marklen == 16 else (141, 8192)):
                    for tail in (True, False):
                        ats = {-1, 0, start, max(0, buflen - 32), max(0, min(buflen, maxpos) - 32), max(0, min(buflen, maxpos) - 31), max(0, buflen - 16)}
                        if ctx.tier == "quick":
                            ats = {-1, start, max(0, min(buflen, maxpos) - 32), max(0, min(buflen, maxpos) - 31)}
                        if marklen != 16 or buflen > 300:
                            ats = {-1, max(0, min(buflen, maxpos) - 32)}
                        for at in sorted(ats):
                            if at >= 0 and at + marklen > buflen:
                                at = -1
                            cases.append({"op": "markmac", "marklen": marklen, "buflen": buflen, "startpos": start, "maxpos": maxpos,
                                          "fromtail": tail, "markat": at})
    # drop duplicates
    seen, out = set(), []
    for c in cases:
        key = str(sorted(c.items()))
        if key not in seen:
            seen.add(key)
            out.append(c)
    return out


def post_obfs4(ctx, cases, res):
    terms, idx = [], []
    for k, (c, r) in enumerate(zip(cases, res)):
        if c["op"] == "wrap":
            crash_check(ctx, "obfs4.WrapConnection", "len%d/%s" % (c["len"], "+".join(c["regs"])), r["out"], r["detail"], c)
            data = bytes((j * 31 + 7) & 0xFF for j in range(c["len"]))
            regs = glist(c["regs"], lambda x: "{| or_nil := %s; or_keys_ok := %s; or_mark_eq := false |}" % (gbool(x == "nil"), gbool(x != "badkeys")))
            dterm = hexs(data) if len(data) <= 1500 else "(repeat 0 %d)" % len(data)
            terms.append("AObfs4 (%s, %s, %s)" % (regs, dterm, g_oclass(r["out"], r["ecode"])))
            kind = "obfs4/" + ("panic" if r["out"] != "ret" else "err%d" % r["ecode"])
        else:
            # findMarkMac is reachable from the network only with a 16-byte mark and startPos = 109; other arguments are compared
            # with the model (including the panics it predicts), not reported
            if c["marklen"] == 16 and c["startpos"] >= 0:
                crash_check(ctx, "findMarkMac", "buflen%d" % c["buflen"], r["out"], r["detail"], c)
            terms.append("AMarkMac (%s, %s, %s, %s, %s, %s, %s, %s)" % (gZ(c["marklen"]), gZ(c["buflen"]), gZ(c["startpos"]), gZ(c["maxpos"]),
                                                                         gbool(c["fromtail"]), gopt(None if c["markat"] < 0 else c["markat"], gZ),
                                                                         g_oclass(r["out"]), gZ(r["pos"])))
            kind = "markmac/" + ("panic" if r["out"] != "ret" else ("found" if r["pos"] >= 0 else "none"))
        idx.append(k)
        ctx.count(sorted(c.items()), nontrivial=True, kind=kind)
    return terms, idx


# ---------------------------------------------------------------- DNS responder
def dns_name(labels, ptr=None):
    out = b""
    for l in labels:
        out += bytes([len(l)]) + l
    return out + (b"\x00" if ptr is None else bytes([0xC0 | (ptr >> 8), ptr & 0xFF]))


def dns_msg(qid, flags, qs, ans=(), nss=(), ars=(), counts=None):
    """qs: (rawname, type, class); rrs: (rawname, type, class, ttl, data)"""
    c = counts or (len(qs), len(ans), len(nss), len(ars))
    out = b"".join(x.to_bytes(2, "big") for x in (qid, flags) + tuple(c))
    for n, t, cl in qs:
        out += n + t.to_bytes(2, "big") + cl.to_bytes(2, "big")
    for sec in (ans, nss, ars):
        for n, t, cl, ttl, d in sec:
            out += n + t.to_bytes(2, "big") + cl.to_bytes(2, "big") + ttl.to_bytes(4, "big") + len(d).to_bytes(2, "big") + d
    return out


def b32labels(payload, lower=True):
    enc = base64.b32encode(payload).rstrip(b"=")
    if lower:
        enc = enc.lower()
    return [enc[i:i + 63] for i in range(0, len(enc), 63)]


def gen_dns(ctx):
    rng = fixed_rng("dns")
    OPT = (b"\x00", 41, 4096, 0, b"")
    pkts = []

    def rb(n):
        return bytes(rng.getrandbits(8) for _ in range(n))

    def q(labels, t=16, c=1):
        return (dns_name(labels), t, c)
    good_payload = bytes([20]) + rb(20)
    good = b32labels(good_payload) + DOMAIN
    pkts.append(("valid", dns_msg(7, 0x0100, [q(good)], ars=[OPT])))
    # request format: length byte vs payload length
    for ln, body in ((0, b""), (0, b"x"), (1, b""), (5, b"abcde"), (5, b"abcd"), (5, b"abcdef"), (255, rb(100))):
        pkts.append(("reqfmt", dns_msg(1, 0x0100, [q(b32labels(bytes([ln]) + body) + DOMAIN)], ars=[OPT])))
    pkts.append(("empty-payload", dns_msg(1, 0x0100, [q(DOMAIN)], ars=[OPT])))
    # domain suffix / case / partial
    for dom in ([b"T", b"Example", b"COM"], [b"t", b"example"], [b"example", b"com"], [b"x", b"example", b"com"], [b"t", b"example", b"com", b"x"], [], [b"com"]):
        pkts.append(("suffix", dns_msg(2, 0, [q(b32labels(good_payload) + dom)], ars=[OPT])))
    pkts.append(("upper-b32", dns_msg(2, 0, [q(b32labels(good_payload, lower=False) + DOMAIN)], ars=[OPT])))
    pkts.append(("bad-b32", dns_msg(2, 0, [q([b"01189998819991197253", b"!!"] + DOMAIN)], ars=[OPT])))
    for n in (1, 3, 6, 2, 4, 5, 7, 8):
        pkts.append(("b32-len", dns_msg(2, 0, [q([b"a" * n] + DOMAIN)], ars=[OPT])))
    # flags / opcode / qtype / question count / EDNS
    for fl in (0x8000, 0x8100, 0x0800, 0x7800, 0x000F, 0xFFFF, 0x7FFF):
        pkts.append(("flags", dns_msg(3, fl, [q(good)], ars=[OPT])))
    for t in (1, 2, 15, 16, 17, 255, 65535):
        pkts.append(("qtype", dns_msg(3, 0, [q(good, t=t)], ars=[OPT])))
    pkts.append(("noq", dns_msg(3, 0, [], ars=[OPT])))
    pkts.append(("twoq", dns_msg(3, 0, [q(good), q(good)], ars=[OPT])))
    pkts.append(("noopt", dns_msg(3, 0, [q(good)])))
    pkts.append(("twoopt", dns_msg(3, 0, [q(good)], ars=[OPT, OPT])))
    pkts.append(("opt-then-other", dns_msg(3, 0, [q(good)], ars=[(b"\x00", 1, 1, 5, b"abcd"), OPT, (b"\x00", 16, 1, 5, b"")])))
    for cls in (0, 511, 512, 1231, 1232, 1233, 65535):
        pkts.append(("optsize", dns_msg(3, 0, [q(good)], ars=[(b"\x00", 41, cls, 0, b"")])))
    for ttl in (0x00010000, 0x00FF0000, 0x01000000, 0xFF00FFFF):
        pkts.append(("optver", dns_msg(3, 0, [q(good)], ars=[(b"\x00", 41, 4096, ttl, b"")])))
    pkts.append(("answers", dns_msg(3, 0, [q(good)], ans=[(dns_name([b"a"]), 16, 1, 9, b"\x01x")], nss=[(dns_name([], ptr=12), 2, 1, 9, b"")], ars=[OPT])))
    # truncation at every byte of a valid message; trailing bytes; counts larger than content
    full = dns_msg(9, 0x0100, [q(good)], ars=[OPT])
    for n in range(0, len(full)):
        pkts.append(("trunc", full[:n]))
    pkts.append(("trailing", full + b"\x00"))
    pkts.append(("trailing", full + rb(7)))
    for counts in ((2, 0, 0, 1), (1, 1, 0, 1), (1, 0, 0, 2), (65535, 65535, 65535, 65535), (0, 0, 0, 0), (1, 0, 0, 0)):
        pkts.append(("counts", dns_msg(9, 0, [q(good)], ars=[OPT], counts=counts)))
    # names: label types, lengths, compression pointers
    hdr = lambda: (5).to_bytes(2, "big") + (0).to_bytes(2, "big") + (1).to_bytes(2, "big") + bytes(6)   # noqa: E731
    for lt in (0x40, 0x7F, 0x80, 0xBF):
        pkts.append(("reserved-label", hdr() + bytes([lt]) + b"abc\x00" + b"\x00\x10\x00\x01"))
    for n in (1, 62, 63):
        pkts.append(("label-len", hdr() + dns_name([b"a" * n] + DOMAIN) + b"\x00\x10\x00\x01"))
    for total in (3, 4, 5):  # names of 63-byte labels: 253 / 254 / 255 / 256+ bytes on the wire
        labels = [b"b" * 63] * 3 + [b"c" * (61 + total - 3)]
        pkts.append(("name-len", hdr() + dns_name(labels) + b"\x00\x10\x00\x01"))
    pkts.append(("name-len", hdr() + dns_name([b"b" * 63] * 4) + b"\x00\x10\x00\x01"))
    pkts.append(("name-len", hdr() + dns_name([b"d" * 50] * 5) + b"\x00\x10\x00\x01"))
    # pointer to itself, to the header, forward, past the end, chains of 9 / 10 / 11 pointers, loops
    pkts.append(("ptr-self", hdr() + b"\xc0\x0c" + b"\x00\x10\x00\x01"))
    pkts.append(("ptr-header", hdr() + b"\xc0\x00" + b"\x00\x10\x00\x01"))
    pkts.append(("ptr-past-end", hdr() + b"\xc0\xff" + b"\x00\x10\x00\x01"))
    pkts.append(("ptr-max", hdr() + b"\xff\xff" + b"\x00\x10\x00\x01"))
    pkts.append(("ptr-trunc", hdr() + b"\xc0"))
    pkts.append(("ptr-loop2", hdr() + b"\xc0\x0e\xc0\x0c" + b"\x00\x10\x00\x01"))
    pkts.append(("ptr-label-loop", hdr() + b"\x01a\xc0\x0c" + b"\x00\x10\x00\x01"))
    for depth in (1, 2, 9, 10, 11, 12):
        # question name = pointer to a chain of `depth` pointers stored in an Additional record's data area
        body = hdr()[:10] + (1).to_bytes(2, "big")
        qoff = 12
        # question: pointer -> chain start (filled below)
        chain_start = qoff + 2 + 4 + 1 + 10  # after question, root name, fixed RR header
        qn = bytes([0xC0 | (chain_start >> 8), chain_start & 0xFF])
        chain = b""
        for d in range(depth - 1):
            nxt = chain_start + 2 * (d + 1)
            chain += bytes([0xC0 | (nxt >> 8), nxt & 0xFF])
        chain += dns_name([b"zz"] + DOMAIN)
        pkts.append(("ptr-chain%d" % depth, body + qn + b"\x00\x10\x00\x01" + b"\x00" + (41).to_bytes(2, "big") + (4096).to_bytes(2, "big") + bytes(4) + len(chain).to_bytes(2, "big") + chain))
    # compression into the middle of another name, as a real encoder would produce
    first = dns_name(b32labels(good_payload) + DOMAIN)
    off_dom = 12 + len(first) - len(dns_name(DOMAIN))
    pkts.append(("ptr-suffix", dns_msg(9, 0, [(first, 16, 1)], ars=[(dns_name([b"opt"], ptr=off_dom), 41, 4096, 0, b"")])))
    pkts.append(("rdata-trunc", dns_msg(9, 0, [q(good)]) [:-0 or None] + b"\x00\x00\x29\x10\x00\x00\x00\x00\x00\x00\x09ab"))
    # random and mutated packets
    n_rand = 60 if ctx.tier == "quick" else 1500
    if os.environ.get("VERIF_C11_NORANDOM") == "1":
        n_rand = 0
    rng = ctx.rng      # from here on: the seeded stream
    for _ in range(n_rand):
        pkts.append(("random", rb(rng.choice([0, 1, 11, 12, 13, 17, 40, 100]))))
    for _ in range(n_rand):
        b = bytearray(full)
        for _ in range(rng.choice([1, 1, 2, 3])):
            b[rng.randrange(len(b))] = rng.choice([0, 1, 0x3F, 0x40, 0xC0, 0xFF, rng.getrandbits(8)])
        pkts.append(("mutated", bytes(b)))
    for c in (ctx.replay or {}).get("dns_packets", []):
        pkts.insert(0, ("replay", bytes.fromhex(c)))
    pkts = [(l, p, None, 0) for l, p in pkts]
    # well-formed queries whose noise layer decrypts (built by the driver with the responder's public key): the registration
    # callback is reached and its answer travels back through AddResponseFormat / EncodeRDataTXT / WireFormat
    rng = fixed_rng("dns2")
    for plain, rl in ((b"", 0), (b"hello", 10), (pb.enc_wrapper({"secret": SECRET, "payload": {"gen": 957, "transport": 1, "v4": 1}}), 255),
                      (b"x" * 80, 256), (b"y" * 60, 1000), (b"z" * 5, 1190), (b"z" * 6, 5000), (b"w" * 7, 70000)):
        pkts.append(("noise-valid", b"", plain, rl))
    return pkts


def g_name(labels):
    return glist(labels, g_hex)


def post_dns(ctx, pkts, res):
    terms, idx = [], []
    step_crashes = []
    for k, ((lbl, pkt, plain, resplen), r) in enumerate(zip(pkts, res)):
        pkt = bytes.fromhex(r["pkt_built"])
        crash_check(ctx, "dns.MessageFromWireFormat", lbl, r["p_out"], r["p_detail"], {"pkt": pkt.hex()})
        if crash_check(ctx, "responder(responseFor/RemoveRequestFormat/WireFormat)", lbl, r["r_out"] or "ret", r["r_detail"], {"pkt": pkt.hex()}):
            step_crashes.append(pkt.hex())
        if len(pkt) > 1500:
            continue
        qs = glist(r["q"], lambda x: "(%s, %s, %s)" % (g_name(x["name"]), gN(x["type"]), gN(x["class"])))

        def rrs(l):
            return glist(l, lambda x: "(%s, %s, %s, %s, %s)" % (g_name(x["name"]), gN(x["type"]), gN(x["class"]), gN(x["ttl"]), g_hex(x["data"])))
        terms.append("ADnsMsg (%s, %s, %s, (%s, %s, %s, %s, %s, %s))" % (hexs(pkt), g_oclass(r["p_out"]), gN(r["p_err"]), gN(r["id"]), gN(r["flags"]),
                                                                         qs, rrs(r["an"]), rrs(r["ns"]), rrs(r["ar"])))
        idx.append(k)
        if r["p_out"] == "ret":
            b32 = glist(r["b32"] or [], lambda x: "None" if x == "!" else "(Some %s)" % g_hex(x))
            terms.append("ADnsRecv (%s, %s, %s, %s, %s, (%s, %s, %s, %s, %s))" % (
                glist(DOMAIN, hexs), gN(MAXUDP), b32, hexs(pkt), g_oclass(r["r_out"]), gN(r["kind"]), gN(r["rflags"]), gN(r["nadd"]),
                gN(r["addttl"]), g_hex(r["payload"])))
            idx.append(k)
            # the real loop must agree with the step-by-step run: a response is sent exactly for kind 1 (kind 2 fails in the noise layer here)
            want = r["kind"] == 1 or (r["kind"] == 2 and plain is not None and resplen < 65000)
            if plain is not None and (r["kind"] != 2 or (r["loop_done"] and r["loop_proc"] != plain.hex())):
                ctx.broken("correspondence", "a well-formed encrypted query did not reach the registration callback (kind=%d)" % r["kind"], {"pkt": pkt.hex()})
            if r["loop_done"] and (r["loop_resp"] != want or (want and r["loop_flags"] != r["rflags"])):
                ctx.broken("correspondence", "RecvAndRespond and the step-by-step run of its body disagree on packet class %s: loop sent=%s flags=%#x, steps kind=%d flags=%#x"
                           % (lbl, r["loop_resp"], r["loop_flags"], r["kind"], r["rflags"]), {"pkt": pkt.hex()})
        ctx.count(("dns", pkt if plain is None else plain, resplen), nontrivial=True,
                  kind=("dns/parse-%d/kind-%d" % (r["p_err"], r["kind"]) if r["p_out"] == "ret" else "dns/panic") + ("/noise-valid" if plain is not None else ""))
    return terms, idx



# ================================================================ native fuzzing (thorough tier)
def go_unquote(q):
    """the body of a Go %q literal (between the quotes) -> bytes"""
    out = bytearray()
    i = 0
    simple = {"a": 7, "b": 8, "f": 12, "n": 10, "r": 13, "t": 9, "v": 11, "\\": 92, "'": 39, '"': 34}
    while i < len(q):
        ch = q[i]
        if ch != "\\":
            out += ch.encode("utf8")
            i += 1
            continue
        e = q[i + 1]
        if e in simple:
            out.append(simple[e])
            i += 2
        elif e == "x":
            out.append(int(q[i + 2:i + 4], 16))
            i += 4
        elif e == "u":
            out += chr(int(q[i + 2:i + 6], 16)).encode("utf8")
            i += 6
        elif e == "U":
            out += chr(int(q[i + 2:i + 10], 16)).encode("utf8")
            i += 10
        elif e in "01234567":
            out.append(int(q[i + 1:i + 4], 8))
            i += 4
        else:
            raise ValueError("escape \\%s" % e)
    return bytes(out)


def parse_corpus_file(path):
    """a file of Go's fuzz corpus format -> list of values (bytes / str-as-bytes / int / bool), or None"""
    try:
        with open(path, encoding="utf8", errors="surrogateescape") as f:
            lines = f.read().split("\n")
        if not lines or not lines[0].startswith("go test fuzz v1"):
            return None
        vals = []
        for ln in lines[1:]:
            if not ln.strip():
                continue
            m = re.match(r'^(\[\]byte|string)\("(.*)"\)$', ln, flags=re.S)
            if m:
                vals.append(go_unquote(m.group(2)))
                continue
            m = re.match(r"^(byte|rune)\('(.*)'\)$", ln)
            if m:
                b = go_unquote(m.group(2))
                vals.append(b[0] if m.group(1) == "byte" and len(b) == 1 else ord(b.decode("utf8")))
                continue
            m = re.match(r"^(u?int\d*)\((-?\d+)\)$", ln)
            if m:
                vals.append(int(m.group(2)))
                continue
            m = re.match(r"^bool\((true|false)\)$", ln)
            if m:
                vals.append(m.group(1) == "true")
                continue
            return None
        return vals
    except Exception:
        return None


FUZZERS = [
    # name, package path, package name, files (driver + fuzz), target, needs the regprocessor shim
    ("ingest", "pkg/station/lib", "lib", ("station_driver_test.go", "station_fuzz_test.go"), "FuzzVerifC11Ingest", False),
    ("params", "pkg/station/lib", "lib", ("station_driver_test.go", "station_fuzz_test.go"), "FuzzVerifC11Params", False),
    ("api", "pkg/regserver/apiregserver", "apiregserver", ("api_driver_test.go", "api_fuzz_test.go"), "FuzzVerifC11Api", True),
    ("bdreq", "pkg/regserver/regprocessor", "regprocessor", ("regproc_driver_test.go", "regproc_fuzz_test.go"), "FuzzVerifC11BdReq", True),
    ("dnsproc", "pkg/regserver/dnsregserver", "dnsregserver", ("dnsreg_driver_test.go", "dnsreg_fuzz_test.go"), "FuzzVerifC11DnsProc", True),
    ("dns", "pkg/registrars/dns-registrar/responder", "responder", ("responder_driver_test.go", "responder_fuzz_test.go"), "FuzzVerifC11Dns", False),
    ("flight", "pkg/transports/wrapping/prefix", "prefix", ("prefix_driver_test.go", "prefix_fuzz_test.go"), "FuzzVerifC11Flight", False),
    ("obfs4", "pkg/transports/wrapping/obfs4", "obfs4", ("obfs4_driver_test.go", "obfs4_fuzz_test.go"), "FuzzVerifC11Obfs4", False),
]


def go_fuzz(ctx, spec, seeds, fuzztime, cachedir, crashfile):
    """run one native fuzz target through an overlay (nothing is written into the repository: the targets record
    crashes in crashfile instead of failing, new-coverage inputs go to cachedir)"""
    import json
    import time
    name, pkgpath, pkgname, files, target, shim = spec
    t0 = time.time()
    pkgdir = os.path.normpath(os.path.join(lib.REPO, pkgpath))
    repl = {os.path.join(pkgdir, "zz_verif_driver_test.go"): os.path.join(lib.INPKG, "c11", files[0]),
            os.path.join(pkgdir, "zz_verif_fuzz_test.go"): os.path.join(lib.INPKG, "c11", files[1]),
            os.path.join(pkgdir, "zz_verif_view_test.go"): inst_view(pkgname)}
    if shim:
        for dst, src in EXPORT_SHIM.items():
            repl[os.path.join(lib.REPO, dst)] = os.path.join(lib.INPKG, src)
    tag = "%s_%d" % (target, os.getpid())
    ov = os.path.join(lib.BUILD, "ov_%s.json" % tag)
    with open(ov, "w") as f:
        json.dump({"Replace": repl}, f)
    cpath = os.path.join(lib.BUILD, "seeds_%s.json" % tag)
    with open(cpath, "w") as f:
        json.dump([s.hex() for s in seeds], f)
    env = dict(lib.GOENV)
    env.pop("GOFLAGS")
    env.update({"VERIF_CASES": cpath, "VERIF_FUZZ_CRASH": crashfile})
    cmd = ["go", "test", "-vet=off", "-tags", "verif", "-overlay", ov, "-run", "^$", "-fuzz", "^%s$" % target,
           "-fuzztime", "%ds" % fuzztime, "-parallel", "2", "./" + pkgpath, "-test.fuzzcachedir=" + cachedir]
    rc, out = lib.sh(cmd, cwd=lib.REPO, env=env, timeout=fuzztime + 600)
    for p in (ov, cpath):
        if os.path.exists(p):
            os.remove(p)
    m = re.findall(r"execs: (\d+)", out)
    TIMES["fuzz:%s" % name] = round(time.time() - t0, 1)
    return rc, out, int(m[-1]) if m else 0


def fuzz_all(ctx, corpus, garbage, dns_pkts, fuzztime):
    """returns {name: [value lists the fuzzer kept as interesting]}; crashes are reported through ctx.fail"""
    import json
    import shutil
    cachedir = os.path.join(lib.BUILD, "c11_fuzzcache_%d" % os.getpid())
    crashfile = os.path.join(lib.BUILD, "c11_fuzzcrash_%d.jsonl" % os.getpid())
    shutil.rmtree(cachedir, ignore_errors=True)
    if os.path.exists(crashfile):
        os.remove(crashfile)
    wr = [pb.enc_wrapper(w) for l, w in corpus if not l.startswith("rand")][::7] + [b for _, b in garbage[:20]]
    seeds = {"ingest": wr, "api": [pad33(w) for l, w in corpus if not l.startswith(("rand", "any/"))][::9],
             "bdreq": wr, "dnsproc": wr, "params": [a["value"] for _, a in ANYS if a and "value" in a][::3],
             "dns": [p for _, p, pl, _ in dns_pkts if pl is None and len(p) < 600][::2],
             "flight": [bytes(range(64)), b"GET / HTTP/1.1\r\n", b"\x16\x03\x03\x40\x00\x01" + bytes(70), b""],
             "obfs4": [bytes(64), bytes(141), bytes(200)]}
    stats = {}
    with ThreadPoolExecutor(max_workers=len(FUZZERS)) as ex:
        futs = {spec[0]: ex.submit(go_fuzz, ctx, spec, seeds[spec[0]], fuzztime, cachedir, crashfile) for spec in FUZZERS}
        for name, f in futs.items():
            rc, out, execs = f.result()
            stats[name] = {"rc": rc, "execs": execs}
            if rc != 0 or execs == 0:
                ctx.broken("fuzz", "native fuzzing of %s did not run to completion (rc=%d): %s" % (name, rc, out[-600:]))
    found = {}
    for spec in FUZZERS:
        d = os.path.join(cachedir, spec[4])
        vals = []
        if os.path.isdir(d):
            for fn in sorted(os.listdir(d)):
                v = parse_corpus_file(os.path.join(d, fn))
                if v is not None:
                    vals.append(v)
        found[spec[0]] = vals
        stats[spec[0]]["kept"] = len(vals)
    if os.path.exists(crashfile):
        with open(crashfile) as f:
            for ln in f:
                try:
                    c = json.loads(ln)
                except ValueError:
                    continue
                ctx.fail("fuzz:%s/%s" % (c["outcome"], c["entry"]),
                         "native fuzzing found an input on which %s %s: %s" % (c["entry"], "panicked" if c["outcome"] == "panic" else "did not return within 5 s", c["detail"][:400]),
                         {"entry": c["entry"], "fuzz_input": c["input"]})
        os.remove(crashfile)
    shutil.rmtree(cachedir, ignore_errors=True)
    ctx.cov["fuzz"] = stats
    return found


CORPUS_DIR = os.path.join(lib.VERIF, "corpus", "C11")
CORPUS_CAP = 400          # per fuzz target


def load_corpus(limit):
    """{target: [value list]} from corpus/C11/fuzz_<target>.json (bytes are stored as {"b": hex})"""
    import json
    out = {spec[0]: [] for spec in FUZZERS}
    for name in out:
        path = os.path.join(CORPUS_DIR, "fuzz_%s.json" % name)
        if os.path.exists(path):
            try:
                with open(path) as f:
                    for vals in json.load(f)[:limit]:
                        out[name].append([bytes.fromhex(v["b"]) if isinstance(v, dict) else v for v in vals])
            except (ValueError, KeyError, TypeError):
                pass
    return out


def save_corpus(found):
    import json
    os.makedirs(CORPUS_DIR, exist_ok=True)
    for name, vals in found.items():
        # smallest inputs first, capped: the corpus is a regression set, not an archive
        vals = sorted(vals, key=lambda v: (sum(len(x) for x in v if isinstance(x, bytes)), repr(v)))[:CORPUS_CAP]
        with open(os.path.join(CORPUS_DIR, "fuzz_%s.json" % name), "w") as f:
            json.dump([[{"b": x.hex()} if isinstance(x, bytes) else x for x in v] for v in vals], f)


def is_utf8(b):
    try:
        b.decode("utf8")
        return True
    except UnicodeDecodeError:
        return False


# ================================================================ run
REQUIRED_KINDS = [
    "ingest/ok0", "ingest/ok1", "ingest/ok2", "ingest/err1", "ingest/err3", "ingest/err5", "ingest/err6", "ingest/err7", "ingest/err9", "ingest/err15", "ingest/err16",
    "newreg/panic", "newreg/ok", "newreg/err5", "newreg/err8", "newreg/err16",
    "params/t1/ok", "params/t1/err", "params/t4/ok", "params/t4/err", "params/t3/ok", "params/t3/err", "dstport/t1/err", "dstport/t4/err", "dstport/t4/ok",
    "bdreq/ok", "bdreq/err10", "bdreq/err3", "bdreq/err5", "bdreq/err6", "bdreq/err7", "bdreq-enf/ok/min", "bdreq-enf/ok/prefix", "bdreq-enf/ok/min-slash0", "bdreq-enf/ok/prefix-id10", "bdreq-enf/ok/prefix-idrand",
    "bdreq-enf/ok/prefix-idmax", "bdreq-enf/ok/prefix-id-2", "c2sw/ok", "c2sw/err10", "c2sw/err11",
    "api/uni/204", "api/uni/400", "api/uni/405", "api/uni/500", "api/bidi/200", "api/bidi/400", "api/bidi/405", "api/bidi/500",
    "dnsproc/success", "dnsproc/fail", "dnsproc/err",
    "worker/announced0", "worker/announced1", "worker/announced2", "worker/err", "worker-share/announced2/shared/peer200",
    "worker-share/announced2/shared/peer500", "worker-share/announced2/shared/peer0", "rawreg/announced", "rawreg/dropped",
    "seq/ok", "conc/plain/clean", "conc/race/clean", "dns-burst/plain/clean", "dns-burst/race/clean", "api-hdr/uni/204", "api-hdr/uni/400", "api-hdr/bidi/200", "api-hdr/bidi/400",
    "dtlsconn/dnat", "dtlsconn/err6", "dtlsconn/err21", "tryfromid/ok", "tryfromid/err", "prefix/newfile/ok10",
    "min/found", "min/err20", "min/err21", "prefix/found", "prefix/err20", "prefix/err21", "prefix/err22", "prefix/err23",
    "obfs4/err20", "obfs4/err21", "obfs4/err24", "markmac/panic", "markmac/found", "markmac/none",
    "dns/parse-0/kind-2", "dns/parse-0/kind-1", "dns/parse-0/kind-0", "dns/parse-30/kind-1", "dns/parse-31/kind-1", "dns/parse-32/kind-1",
    "dns/parse-33/kind-1", "dns/parse-34/kind-1", "dns/parse-34/kind-2", "dns/parse-0/kind-2/noise-valid",
]


# produced when the lock types of the statistics file can be instrumented (always, on the code as it is)
STATS_KINDS = ["stats-sched/w1-reset/ok", "stats-sched/w1-ticker/ok", "stats-sched/w2/ok", "stats-sched/mix/ok"]


def cleanup():
    import glob
    for f in (glob.glob(os.path.join(lib.BUILD, "c11_view_*_%d_test.go" % os.getpid())) + glob.glob(os.path.join(lib.BUILD, "c11_shim_*_%d.go" % os.getpid()))
              + glob.glob(os.path.join(lib.BUILD, "c11_inst_%d_*" % os.getpid()))):
        try:
            os.remove(f)
        except OSError:
            pass


def run(ctx):
    try:
        run_(ctx)
    finally:
        cleanup()


def run_(ctx):
    ctx.assumptions += [
        "protobuf decoding is the library's: the model takes the decoded record (and what the library makes of each Any value) as input; "
        "panics inside protobuf, TOML, zmq, pion, obfs4, noise, gopacket, maxminddb, net/http are outside the model",
        "the phantom selector never returns (nil, nil) and an IPv4 selection is an IPv4 address (C14's theorems); its verdict is an oracle input of the model",
        "the registrar's configuration satisfies wf_rpcfg (a signing key of the right size when authentication is on; with enforcement on: "
        "non-nil exclusions, weight tables no longer than their subnet lists, the default prefix table's keys are 0..n-1; metrics object present) — configuration, not external input",
        "strings.Split returns a non-empty slice (wf_req); the default prefix table satisfies tbl_wf (re-checked on the dumped table on every run)",
        "the Go in-package drivers, the case generators and the JSON->Gallina emitter are trusted",
    ]
    ctx.cov["trusted_base"] = [
        "Coq 8.16.1 kernel (coqc; coqchk in the thorough tier); vm_compute for evaluating the model on cases; no native_compute",
        "no axioms: every theorem prints 'Closed under the global context'",
        "hand-written model coq/C11/{Prim,Msg,Flight,Dns,Down}.v tied to the code by the correspondence run (drivers + emitter trusted)",
    ]
    ctx.cov["rule"] = ("per entry point, single-dimension and pairwise variations of absent sub-messages / field values at and around every guard / "
                       "wrong-length addresses and secrets / mismatched Any types around well-formed messages, plus a seeded malformed stream; "
                       "a case is non-trivial if it is hash-distinct; the histogram lists outcome classes per entry point and every class must be hit")
    ctx.coq_props()
    # one more turn at the tree lock for everything else the run needs (Examples: non-vacuity; Run: the case checker)
    rc, out = ctx.coq_make(["C11/Examples.vo", "C11/Run.vo"])
    if rc != 0:
        ctx.broken("examples", "coq/C11/Examples.v (non-vacuity examples, witness of finding #8 on the pre-fix model) or Run.v no longer compiles: " + out[-500:])
    quick = ctx.tier == "quick"
    rng = ctx.rng
    norandom = os.environ.get("VERIF_C11_NORANDOM") == "1"   # self-test: the enumerated part alone must hit every required class
    corpus = wrapper_corpus(rng, 0 if norandom else (120 if quick else 2500))
    garbage = garbage_msgs(rng, 0 if norandom else (40 if quick else 800))
    for c in (ctx.replay or {}).get("wrappers", []):
        garbage.insert(0, ("replay", bytes.fromhex(c)))

    st_cases, st_meta = gen_station(ctx, corpus, garbage)
    rp_cases, rp_meta = gen_regproc(ctx, corpus)
    api_cases = gen_api(ctx, corpus, garbage)
    dp_cases, dp_meta = gen_dnsproc(ctx, corpus, garbage)
    ob_cases = gen_obfs4(ctx)
    dns_pkts = gen_dns(ctx)
    dc_cases = gen_dtlsconn(ctx)
    seqs = gen_seq(ctx)
    conc_cases = gen_conc(ctx)
    ss_cases = gen_stats(ctx)
    burst_cases = gen_burst(ctx, dns_pkts)
    pf_extra = []
    # cases carried by a replay file (the enumeration itself is deterministic, so re-running the check replays it anyway)
    for f in (ctx.replay or {}).get("failures", []):
        c = f.get("case") or {}
        inner = c.get("case") or {}
        if c.get("entry") == "api" and "handler" in inner:
            api_cases.insert(0, {"cls": "replay", "go": inner})
        elif inner.get("op") in ("ingest", "newreg", "params", "dstport"):
            st_cases.insert(0, inner)
            st_meta.insert(0, (inner["op"], "replay"))
        elif "pkt" in inner:
            dns_pkts.insert(0, ("replay", bytes.fromhex(inner["pkt"]), None, 0))
        elif "pkt" in c:
            dns_pkts.insert(0, ("replay", bytes.fromhex(c["pkt"]), None, 0))
    # what earlier fuzzing runs kept (corpus/C11) is replayed first, in both tiers; the thorough tier fuzzes and adds to it
    found = load_corpus(150 if quick else 100000)
    if not quick:
        # coverage-guided search per entry point; what the fuzzers kept is replayed below against the model
        fresh = fuzz_all(ctx, corpus, garbage, dns_pkts, int(os.environ.get("VERIF_FUZZTIME", "180")))
        for k, vals in fresh.items():
            found.setdefault(k, [])
            have = {repr(v) for v in found[k]}
            found[k] += [v for v in vals if repr(v) not in have]
        if os.environ.get("VERIF_C11_NO_CORPUS_WRITE") != "1":
            save_corpus(found)
    ctx.cov["corpus_replayed"] = {k: len(v) for k, v in found.items()}
    if True:
        for v in found["ingest"]:
            if len(v) == 2 and isinstance(v[0], bytes):
                st_cases.append({"op": "ingest", "msg": v[0].hex(), "v4": bool(v[1] & 1), "v6": bool(v[1] & 2), "geofail": bool(v[1] & 4)})
                st_meta.append(("ingest", "fuzz"))
        for v in found["params"]:
            if len(v) == 5 and isinstance(v[3], bytes) and isinstance(v[4], bytes) and is_utf8(v[3]):
                a = {"url": v[3].decode("utf8"), "value": v[4]}
                st_cases.append({"op": "params", "transport": v[0] % 4 + 1, "libver": v[1], "has_any": bool(v[2]), "any": pb.enc_any(a).hex() if v[2] else ""})
                st_meta.append(("params", "fuzz"))
        for v in found["api"]:
            if len(v) == 3 and isinstance(v[0], bytes):
                api_cases.append({"cls": "fuzz", "go": {"handler": "bidi" if v[1] & 1 else "uni", "method": "POST", "body": v[0].hex(), "xff": [], "remote": "",
                                                       "clen": None, "chunked": False, "ccgen": v[2] if v[1] & 2 else None, "zmqfail": False}})
        for v in found["bdreq"]:
            if len(v) == 2 and isinstance(v[0], bytes):
                rp_cases.append({"op": "bdreq", "msg": v[0].hex(), "nil": False, "auth": bool(v[1] & 1), "enforce": ""})
                rp_meta.append(("bdreq", "fuzz"))
                rp_cases.append({"op": "c2sw", "msg": v[0].hex(), "nil": False, "auth": bool(v[1] & 1), "enforce": "", "addr_nil": False})
                rp_meta.append(("c2sw", "fuzz"))
        for v in found["dnsproc"]:
            if len(v) == 2 and isinstance(v[0], bytes):
                dp_cases.append({"msg": v[0].hex(), "ccgen": v[1], "zmqfail": False})
                dp_meta.append("fuzz")
        for v in found["dns"]:
            if len(v) == 1 and isinstance(v[0], bytes) and len(v[0]) <= 1400:
                dns_pkts.append(("fuzz", v[0], None, 0))
        kinds = [{"is_prefix": True, "pkind": "pref", "pid": 0}, {"is_prefix": True, "pkind": "pref", "pid": 1}, {"is_prefix": True, "pkind": "pref", "pid": 9},
                 {"is_prefix": True, "pkind": "pref_nil", "pid": 0}, {"is_prefix": True, "pkind": "nil", "pid": 0}, {"is_prefix": True, "pkind": "gen", "pid": 0},
                 {"is_prefix": False, "pkind": "nil", "pid": 0}]
        for v in found["flight"]:
            if len(v) == 4 and isinstance(v[0], bytes) and len(v[0]) <= 1400:
                raw, tagpos = v[0], v[1]
                c = {"op": "min" if v[3] else "prefix", "regs": [kinds[v[2] % len(kinds)]]}
                if tagpos <= len(raw):
                    c.update({"pre": raw[:tagpos].hex(), "tag": 0, "post": raw[tagpos:].hex()})
                else:
                    c.update({"pre": raw.hex(), "tag": -1, "post": ""})
                pf_extra.append(c)
        for v in found["obfs4"]:
            if len(v) == 3 and isinstance(v[0], bytes):
                n = len(v[0])
                ob_cases.append({"op": "wrap", "len": n, "regs": ["ok"] * (v[1] % 3)})
                for tail in (True, False):
                    ob_cases.append({"op": "markmac", "marklen": 16, "buflen": n, "startpos": 109, "maxpos": 8192, "fromtail": tail,
                                     "markat": v[2] if (v[2] >= 0 and v[2] + 16 <= n) else -1})
    # the prefix cases need the table: dump it first (cheap), then generate
    jobs = {
        "station": lambda: go_run(ctx, "pkg/station/lib", "lib", "station_driver_test.go", "TestVerifC11Station", st_cases),
        "regproc": lambda: go_run(ctx, "pkg/regserver/regprocessor", "regprocessor", "regproc_driver_test.go", "TestVerifC11RegProc", rp_cases, extra=EXPORT_SHIM),
        "api": lambda: go_run(ctx, "pkg/regserver/apiregserver", "apiregserver", "api_driver_test.go", "TestVerifC11Api", [c["go"] for c in api_cases], extra=EXPORT_SHIM),
        "dnsproc": lambda: go_run(ctx, "pkg/regserver/dnsregserver", "dnsregserver", "dnsreg_driver_test.go", "TestVerifC11DnsProc", dp_cases, extra=EXPORT_SHIM),
        "obfs4": lambda: go_run(ctx, "pkg/transports/wrapping/obfs4", "obfs4", "obfs4_driver_test.go", "TestVerifC11Obfs4", ob_cases),
        "dns": lambda: go_run(ctx, "pkg/registrars/dns-registrar/responder", "responder", "responder_driver_test.go", "TestVerifC11Responder",
                              [{"pkt": p.hex(), "has_plain": pl is not None, "plain": (pl or b"").hex(), "resplen": rl} for _, p, pl, rl in dns_pkts]),
        "seq": lambda: go_run(ctx, "pkg/regserver/apiregserver", "apiregserver", "api_driver_test.go", "TestVerifC11ApiSeq",
                              [{"steps": st} for _, st in seqs], extra=EXPORT_SHIM),
        "conc": lambda: go_run(ctx, "pkg/station/lib", "lib", "station_driver_test.go", "TestVerifC11StationConc", conc_cases, timeout=300),
        "stats": lambda: stats_job(ctx, ss_cases),
        "connstats": lambda: connstats_job(ctx),
        "burst": lambda: go_run(ctx, "pkg/registrars/dns-registrar/responder", "responder", "responder_driver_test.go", "TestVerifC11ResponderBurst", burst_cases, timeout=300),
        "dtlsconn": lambda: go_run(ctx, "pkg/transports/connecting/dtls", "dtls", "dtls_driver_test.go", "TestVerifC11DtlsConnect", dc_cases),
        "prefix-dump": lambda: go_run(ctx, "pkg/transports/wrapping/prefix", "prefix", "prefix_driver_test.go", "TestVerifC11Prefix", [{"op": "dump"}]),
    }
    results = {}
    if os.environ.get("VERIF_C11_RACE", "1") == "1":
        jobs["conc-race"] = lambda: go_run(ctx, "pkg/station/lib", "lib", "station_driver_test.go", "TestVerifC11StationCon[c]", conc_cases, timeout=600, race=True)
        jobs["burst-race"] = lambda: go_run(ctx, "pkg/registrars/dns-registrar/responder", "responder", "responder_driver_test.go", "TestVerifC11ResponderBurs[t]", burst_cases,
                                            timeout=600, race=True)
    with ThreadPoolExecutor(max_workers=12) as ex:
        futs = {k: ex.submit(f) for k, f in jobs.items()}
        # the prefix run proper depends on the dumped table
        rc, out, res = futs["prefix-dump"].result()
        if res is None or not res or not res[0].get("table"):
            fail_driver(ctx, "prefix", out)
            tbl = None
        else:
            tbl = res[0]["table"]
            pf_cases = gen_prefix(ctx, tbl) + pf_extra
            futs["prefix"] = ex.submit(lambda: go_run(ctx, "pkg/transports/wrapping/prefix", "prefix", "prefix_driver_test.go", "TestVerifC11Prefix", pf_cases))
        for k, f in futs.items():
            results[k] = f.result()

    def ok(name, n):
        rc, out, res = results[name]
        if res is None or len(res) != n:
            fail_driver(ctx, name, out)
            return None
        return res

    terms, origin = [], []

    def add(name, t_idx, cases):
        ts, idx = t_idx
        for t, i in zip(ts, idx):
            terms.append(t)
            origin.append((name, cases[i] if not isinstance(cases[i], tuple) else {"label": cases[i][0], "pkt": cases[i][1].hex()}))

    res = ok("station", len(st_cases))
    if res:
        add("station", post_station(ctx, st_cases, st_meta, res), st_cases)
        ctx.sample({"entry": "parseRegMessage", "case": st_cases[0], "observed": {k: v for k, v in res[0].items() if k != "view"}})
    res = ok("regproc", len(rp_cases))
    if res:
        add("regproc", post_regproc(ctx, rp_cases, rp_meta, res), rp_cases)
    res = ok("api", len(api_cases))
    if res:
        add("api", post_api(ctx, api_cases, res), [c["go"] for c in api_cases])
        ctx.sample({"entry": "registerBidirectional", "case": api_cases[0]["go"], "observed": {k: v for k, v in res[0].items() if k not in ("view", "sel")}})
    res = ok("dnsproc", len(dp_cases))
    if res:
        add("dnsproc", post_dnsproc(ctx, dp_cases, dp_meta, res), dp_cases)
    if tbl is not None:
        res = ok("prefix", len(pf_cases))
        if res:
            ts, idx, _ = post_prefix(ctx, pf_cases, res)
            add("prefix", (ts, idx), pf_cases)
    res = ok("obfs4", len(ob_cases))
    if res:
        add("obfs4", post_obfs4(ctx, ob_cases, res), ob_cases)
    res = ok("seq", len(seqs))
    if res:
        add("seq", post_seq(ctx, seqs, res), [{"label": l} for l, _ in seqs])
    st = post_stats(ctx, ss_cases, results["stats"])
    required = list(REQUIRED_KINDS)
    if st is not None:
        for t, o in zip(*st):
            terms.append(t)
            origin.append(("stats-epoch", o))
        required += STATS_KINDS
    cs = post_connstats(ctx, results["connstats"])
    if cs is not None:
        for t, o in zip(*cs):
            terms.append(t)
            origin.append(("connstats-epoch", o))
        required += ["connstats-sched/reset/ok", "connstats-sched/printreset/ok"]
    post_conc(ctx, "plain", results["conc"])
    if "conc-race" in results:
        post_conc(ctx, "race", results["conc-race"])
    res = ok("dtlsconn", len(dc_cases))
    if res:
        add("dtlsconn", post_dtlsconn(ctx, dc_cases, res), dc_cases)
    res = ok("dns", len(dns_pkts))
    if res:
        add("dns", post_dns(ctx, dns_pkts, res), dns_pkts)
        ctx.sample({"entry": "dns responder", "pkt": dns_pkts[0][1].hex(), "observed": {k: res[0][k] for k in ("p_err", "kind", "rflags")}})
    # after the per-packet oracle, so that a concrete failing packet is reported before the crash of the burst
    post_burst(ctx, "plain", burst_cases, results["burst"])
    if "burst-race" in results:
        post_burst(ctx, "race", burst_cases, results["burst-race"])
    if os.environ.get("VERIF_C11_RACE", "1") != "1":
        required = [k for k in required if "/race/" not in k]
    ctx.require_kinds(required)
    ctx.cov["timing_s"] = TIMES
    if tbl is None:
        return
    hdr = header(tbl) + ("Lemma pfxtab_wf : tbl_wf pfxtab = true. Proof. vm_compute. reflexivity. Qed.\n"
                         "Lemma pfxids_contiguous : ids_contiguous pfxids = true. Proof. vm_compute. reflexivity. Qed.\n")
    import time
    t0 = time.time()
    mm = ctx.coq_mismatches("all", hdr, terms, "chk", shard=max(150, len(terms) // 15 + 1))
    TIMES["coq(%d terms)" % len(terms)] = round(time.time() - t0, 1)
    if mm:
        ctx.cov["mismatches"] += len(mm)
        by = {}
        for i in mm:
            by.setdefault(origin[i][0], []).append(i)
        for name, l in by.items():
            i = l[0]
            ctx.broken("correspondence", "the C11 model and the implementation disagree on %d %s case(s); first term: %s"
                       % (len(l), name, terms[i][:700]), origin[i][1])
