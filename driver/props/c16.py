"""C16 — DTLS sessions: same secret on both ends, right acceptor, faithful byte stream,
bounded buffering, heartbeat timeout (pkg/dtls)."""
import itertools

from lib import gN, gbool, glist, gopt, hexs, bspec_in, bspec_obs, lcg_bytes

HEADER = "From CJ Require Import Common.Base C16.Model C16.Run.\n"
DRV = {"zz_verif_common_test.go": "c16/common_driver_test.go", "zz_verif_shim_test.go": "c16/shim_driver_test.go"}

E_EOS, E_CLOSED, E_SHORT = 1, 2, 3
E_HANG, E_PANIC = 98, 97


def driver_failed(ctx, what, out):
    """the Go driver gave no results: say whether it did not even compile against the tree under test"""
    import re
    out = out or ""
    if "[build failed]" in out or re.search(r"\.go:\d+:\d+: ", out):
        if not getattr(ctx, "_c16_compile_reported", False):
            ctx._c16_compile_reported = True
            errs = [l for l in out.splitlines() if re.search(r"\.go:\d+:\d+: ", l)][:6]
            ctx.broken("driver-compile", "in-package driver no longer compiles against the tree under test: %s; this says nothing "
                       "about conjure's behaviour (unexported names the drivers use were changed: adapt harness/inpkg/c16, "
                       "field accesses are all in shim_driver_test.go)" % " | ".join(errs or [out[-400:]]))
        return
    ctx.broken("driver", "%s did not produce results: %s" % (what, out[-800:]))


def corpus_cases(key):
    """minimised earlier failures under corpus/C16: always run first"""
    import glob
    import json
    import os
    import lib
    out = []
    for fn in sorted(glob.glob(os.path.join(lib.VERIF, "corpus", "C16", "*.json"))):
        with open(fn) as f:
            out += json.load(f).get(key, [])
    return out


def replay_cases(ctx, key):
    """cases of one sub-check stored in a replay file written by a previous run"""
    rp = ctx.replay or {}
    out = list(rp.get(key, []))
    if not ctx.replay:
        return corpus_cases(key)
    for f in list(rp.get("failures", [])) + list(rp.get("theorem_or_correspondence", [])) + list(rp.get("broken", [])):
        out += ((f or {}).get("case") or {}).get(key, [])
    return out


REPLAY_KEYS = {"mw": "mw_cases", "mws": "mws_cases", "mr": "mr_cases", "mrs": "mrs_cases", "win": "win_cases", "read": "read_cases", "rp": "rp_cases", "fc": "fc_cases", "hbq": "hbq_cases", "reg": "reg_cases", "mat": "mat_cases",
               "wd": "wd_cases", "lb": "lb_cases"}


# ------------------------------------------------------------------ (i)/(ii) reads
def msg(d, e=None, role="data"):
    return {"d": d, "e": e, "role": role}


def read_case(server, mx, hb, script, sizes):
    return {"server": server, "mx": mx, "hb": hb, "script": script, "sizes": sizes}


def drain_sizes(pattern, script, extra=2):
    """repeat a pattern of read sizes until every byte and message of the script is certainly consumed"""
    need = sum(len(m["d"]) for m in script) + len(script) + extra
    out = []
    i = 0
    while len(out) < need or len(out) < len(pattern):
        out.append(pattern[i % len(pattern)])
        i += 1
    return out


def gen_read_cases(ctx):
    rng = ctx.rng
    quick = ctx.tier == "quick"
    cases = []
    hb = bytes([0xAA, 0xBB])
    mx = 3
    # exhaustive over small alphabets: message sizes x error position x heartbeat position x read-size pattern
    alpha = [0, 1, 2, 3]
    patterns = [(1,), (2,), (3,), (4,), (1, 2), (2, 1), (1, 3), (3, 1), (2, 4), (4, 1), (1, 1, 3), (0, 1), (2, 0, 5)]
    allc = []
    for ln in (1, 2, 3):
        for szs in itertools.product(alpha, repeat=ln):
            for errpos in [None] + list(range(ln)):
                for hbpos in [None] + list(range(ln + 1)):
                    for server in (False, True):
                        if hbpos is not None and not server:
                            continue
                        allc.append((szs, errpos, hbpos, server))
    if quick:
        allc = rng.sample(allc, 260)
    for (szs, errpos, hbpos, server) in allc:
        script = []
        ctr = 1
        for k, n in enumerate(szs):
            d = bytes((ctr + j) % 250 + 1 for j in range(n))
            ctr += n
            script.append(msg(d, 10 + k if errpos == k else None))
        if hbpos is not None:
            # the keep-alive itself may arrive with an error attached
            script.insert(hbpos, msg(hb, None, role="hb"))
        pats = patterns if not quick else rng.sample(patterns, 3)
        for p in pats:
            cases.append(read_case(server, mx, hb, script, drain_sizes(p, script)))
    # random longer scripts, realistic and boundary sizes
    for _ in range(60 if quick else 1200):
        server = rng.random() < 0.6
        m = rng.choice([1, 2, 3, 4, 5, 8, 16, 64, 300])
        h = bytes(rng.getrandbits(8) for _ in range(min(m, rng.choice([1, 2, m])) if m < 32 else 32))
        script = []
        for _ in range(rng.randrange(1, 9)):
            r = rng.random()
            if server and r < 0.25:
                script.append(msg(h, rng.choice([None, None, None, 40]), role="hb"))
                continue
            n = rng.choice([0, 1, m - 1, m, m, rng.randrange(0, m + 1)])
            d = bytes(rng.getrandbits(8) for _ in range(max(0, n)))
            if d == h:
                continue
            script.append(msg(d, rng.choice([None] * 6 + [20, 21])))
        if not script:
            script.append(msg(b"\x01", None))
        szalpha = [1, 1, 2, 3, m - 1, m, m + 1, 2 * m + 1, 0]
        sizes = [max(0, rng.choice(szalpha)) for _ in range(sum(len(x["d"]) for x in script) + len(script) + 3)]
        cases.append(read_case(server, m, h, script, sizes))
    # the real maximum message size, reads beyond it (bypass) and just below it
    for server in (False, True):
        big = lcg_bytes(rng.randrange(1 << 30), 65535)
        mid = lcg_bytes(rng.randrange(1 << 30), 40000)
        h = b"6v3jyM521GkBo1lsMyVLcRyzdZ7FKEM3"
        script = [msg(big), msg(b"xyz"), msg(mid, 33)]
        if server:
            script.insert(1, msg(h, role="hb"))
        cases.append(read_case(server, 65535, h, script, [65534, 1, 70000, 65535, 5, 39999, 2, 1, 1]))
    # a message longer than the maximum message size (outside the property's domain; model and code must still agree)
    cases.append(read_case(True, 4, b"\xaa\xbb", [msg(b"\x01\x02"), msg(b"\x01\x02\x03\x04\x05"), msg(b"\x06")], [4, 4, 4, 4]))
    cases.append(read_case(False, 4, b"\xaa\xbb", [msg(b"\x01\x02"), msg(b"\x01\x02\x03\x04\x05"), msg(b"\x06")], [2, 9, 3, 4, 4]))
    # candidate 13(b): a peer data message equal to the heartbeat payload
    h = b"6v3jyM521GkBo1lsMyVLcRyzdZ7FKEM3"
    cases.append(read_case(True, 64, h, [msg(b"before"), msg(h, role="data"), msg(b"after", 50)], [64] * 6))
    cases.append(read_case(False, 64, h, [msg(b"before"), msg(h, role="data"), msg(b"after", 50)], [64] * 6))
    for c in replay_cases(ctx, "read_cases"):
        c = dict(c)
        c["hb"] = bytes.fromhex(c["hb"])
        roles = c.get("roles") or [m.get("role", "data") for m in c["script"]]
        c["script"] = [msg(lcg_bytes(m["seed"], m["n"]) if m.get("n") else bytes.fromhex(m.get("d", "")),
                           None if m["e"] in (None, -1) else m["e"], ro) for m, ro in zip(c["script"], roles)]
        cases.insert(0, c)
    if ctx.replay:
        cases = cases[:len(replay_cases(ctx, "read_cases"))]
    return cases


def read_oracle(c, reads):
    """The property's own statement on the observed reads; returns None or (class, text).
    Expected stream: the data messages in order (keep-alives removed on the server side), every
    error reported by the read that hands out the last byte of the message it came with."""
    exp = [m for m in c["script"] if not (c["server"] and m["role"] == "hb")]
    if c["server"]:
        cut = next((i for i, m in enumerate(exp) if m["e"] is not None), None)
        if cut is not None:
            exp = exp[:cut + 1]
    # an empty message without an error carries nothing the caller could see
    had_empty = any(not m["d"] and m["e"] is None for m in exp)
    exp = [m for m in exp if m["d"] or m["e"] is not None]
    mi, off = 0, 0
    for n, (d, e) in zip(c["sizes"], reads):
        if e in (E_HANG, E_PANIC):
            return ("hang" if e == E_HANG else "panic", "read %s" % ("hung" if e == E_HANG else "panicked"))
        if mi >= len(exp):
            # nothing left: only an end-of-stream/closed error without data is acceptable
            if d:
                return ("extra-bytes", "bytes %s returned after the end of the stream" % d.hex()[:40])
            if c["server"]:
                return None
            continue
        m = exp[mi]
        if len(d) > n:
            return ("overlong", "read returned more than the buffer size")
        if d:
            if m["d"][off:off + len(d)] != d:
                if c["server"] and any(x["role"] == "hb" and x["d"] == d for x in c["script"]):
                    return ("hb-surfaced", "a keep-alive heartbeat was returned as data")
                return ("lost-or-reordered", "message %d offset %d: expected %s got %s"
                        % (mi, off, m["d"][off:off + len(d)].hex()[:40], d.hex()[:40]))
            off += len(d)
        if not d and e is None and (n == 0 or had_empty):
            continue      # nothing visible happened (a size-0 read, or an empty message without error was consumed)
        if off == len(m["d"]):
            if d or not m["d"]:
                # this read handed out the last byte (or found an empty message): the error belongs here
                if e != m["e"]:
                    if m["e"] is not None and e is None:
                        return ("error-deferred", "message %d: error %s not reported with its last byte" % (mi, m["e"]))
                    return ("wrong-error", "message %d: expected error %s got %s" % (mi, m["e"], e))
                mi, off = mi + 1, 0
                if c["server"] and e is not None:
                    return None
                continue
        if e is not None:
            return ("error-before-data", "error %s reported while %d byte(s) delivered with message %d were still unread"
                    % (e, len(m["d"]) - off, mi))
        if not d and n > 0 and not had_empty:
            return ("empty-read", "read of %d bytes returned nothing although message %d has data left" % (n, mi))
    return None


def run_reads(ctx):
    cases = gen_read_cases(ctx)
    js = []
    for c in cases:
        js.append({"server": c["server"], "mx": c["mx"], "hb": c["hb"].hex(), "sizes": c["sizes"],
                   "script": [({"seed": m["d"].seed, "n": len(m["d"]), "e": -1 if m["e"] is None else m["e"]}
                               if hasattr(m["d"], "seed") and len(m["d"]) > 64 else
                               {"d": m["d"].hex(), "e": -1 if m["e"] is None else m["e"]}) for m in c["script"]]})
    res, out = yield ("go", "read", js)
    if res is None or len(res) != len(cases):
        driver_failed(ctx, "Go read driver", out)
        return
    terms = []
    for c, j, r in zip(cases, js, res):
        reads = [(bytes.fromhex(x["d"] or ""), None if x["e"] < 0 else x["e"]) for x in (r.get("reads") or [])]
        nhb = sum(1 for m in c["script"] if m["role"] == "hb")
        nerr = sum(1 for m in c["script"] if m["e"] is not None)
        dup = any(m["role"] == "data" and m["d"] == c["hb"] for m in c["script"])
        kind = "read/%s/%s%s%s" % ("server" if c["server"] else "client", "hb" if nhb else "nohb",
                                   "+err" if nerr else "", "+bypass" if any(n >= c["mx"] for n in c["sizes"]) else "")
        ctx.count((c["server"], c["mx"], c["hb"], [(m["d"], m["e"], m["role"]) for m in c["script"]], c["sizes"]),
                  nontrivial=True, kind=kind)
        if dup:
            ctx.count(("dup", c["server"]), kind="read/data-equals-heartbeat")
        oversize = any(len(m["d"]) > c["mx"] for m in c["script"])
        if oversize:
            ctx.count(("oversize", len(terms)), nontrivial=False, kind="read/oversize-message")
        # the property speaks about messages that fit the maximum message size
        v = None if oversize else read_oracle(c, reads)
        if v is not None:
            cls, text = v
            key = "read/%s/%s" % ("server" if c["server"] else "client", cls)
            if dup and c["server"]:
                # does the failure disappear when the data messages equal to the heartbeat are not expected?
                c2 = dict(c)
                c2["script"] = [dict(m, role="hb") if m["d"] == c["hb"] else m for m in c["script"]]
                if read_oracle(c2, reads) is None:
                    key = "read/server/data-message-equals-heartbeat"
            ctx.fail(key, "SCTPConn.Read over the heartbeat %s: %s" % ("server" if c["server"] else "client", text),
                     {"read_cases": [dict(j, roles=[m["role"] for m in c["script"]])],
                      "observed": [(d.hex()[:200], e) for d, e in reads][:40]})
        terms.append("CRead %s %s %s %s %s %s" % (
            gbool(c["server"]), gN(c["mx"]), hexs(c["hb"]),
            glist(c["script"], lambda m: "(%s, %s)" % (bspec_in(m["d"]), gopt(m["e"], gN))),
            glist(c["sizes"], gN),
            glist(reads, lambda x: "(%s, %s)" % (bspec_obs(x[0]), gopt(x[1], gN)))))
    try:
        ctx.sample({"sub": "read", "case": js[0], "observed": res[0]})
    except (IndexError, KeyError):
        pass
    try:
        ctx.sample({"sub": "read", "case": {k: v for k, v in js[-1].items()}, "observed": res[-1]})
    except (IndexError, KeyError):
        pass
    mm = yield ("coq", terms)
    if mm:
        ctx.cov["mismatches"] += len(mm)
        i = mm[0]
        c = cases[i]
        ctx.broken("correspondence", "read model (sctp_read over hb_filter) and SCTPConn.Read disagree on %d case(s); first: %s mx=%d"
                   % (len(mm), "server" if c["server"] else "client", c["mx"]),
                   {"read_cases": [js[i]], "observed": res[i]})


# ------------------------------------------------------------------ (viii) real pair at the association's maximum message size
RP_DIR = {0: "dialer-to-acceptor", 1: "acceptor-to-dialer"}
RP_COQ_MAX_READS = 3000


def gen_rp_cases(ctx):
    """message-size sequences x read-size patterns, both relative to the REAL association's maximum message size
    (resolved by the driver from the constructed objects), in both directions"""
    rng = ctx.rng
    if ctx.replay:
        return replay_cases(ctx, "rp_cases")
    seedc = itertools.count(1000 + rng.randrange(1000))

    def m(n, rel=False):
        return {"rel": rel, "n": n, "seed": next(seedc)}

    def rs(n, rel=False):
        return {"rel": rel, "n": n}
    pats = {"1000": [rs(1000)], "max-1": [rs(-1, True)], "max": [rs(0, True)], "max+4464": [rs(4464, True)],
            "mixed": [rs(1), rs(1000), rs(-1, True), rs(0, True), rs(4464, True), rs(7)]}
    cases = []
    for d in (0, 1):
        for name, pat in pats.items():
            cases.append({"dir": d, "msgs": [m(5), m(0, True), m(5)], "rsizes": pat})
            cases.append({"dir": d, "msgs": [m(-1, True), m(0, True), m(1, True), m(7), m(0, True)], "rsizes": pat})
        # one byte at a time through a maximal message
        cases.append({"dir": d, "msgs": [m(3), m(0, True), m(2)], "rsizes": [rs(1)]})
    nrand = 6 if ctx.tier == "quick" else 30
    for _ in range(nrand):
        msgs = []
        for _ in range(rng.randrange(2, 6)):
            k = rng.random()
            if k < 0.35:
                msgs.append(m(rng.randrange(1, 3000)))
            elif k < 0.85:
                msgs.append(m(rng.choice([-2, -1, 0, 0, 0, 1, 2]), True))
            else:
                msgs.append(m(-rng.randrange(3, 30000), True))
        pat = [rng.choice([rs(rng.randrange(1, 5000)), rs(-1, True), rs(0, True), rs(rng.randrange(1, 9000), True),
                           rs(-rng.randrange(2, 40000), True)]) for _ in range(rng.randrange(1, 4))]
        cases.append({"dir": rng.randrange(2), "msgs": msgs, "rsizes": pat})
    return cases


def rp_oracle(c, r, datas):
    """the property's words on a real pair: the reader obtains exactly the concatenation of everything Write reported
    as written, and no error before the peer closes (the driver closes only after every written byte was read)"""
    written = b"".join(d[:w["n"]] for d, w in zip(datas, r.get("writes") or []))
    for i, w in enumerate(r.get("writes") or []):
        if w["e"] == E_PANIC:
            return ("panic", "Write panicked")
        if w["n"] > len(datas[i]):
            return ("write-overcount", "Write of %d bytes reported %d written" % (len(datas[i]), w["n"]))
    got = 0
    for k, x in enumerate(r.get("reads") or []):
        d = bytes.fromhex(x["d"] or "")
        if x["e"] == E_PANIC:
            return ("panic", "Read panicked: %s" % x.get("err", ""))
        if len(d) > x["size"]:
            return ("overlong", "read %d returned %d bytes into a buffer of %d" % (k, len(d), x["size"]))
        if written[got:got + len(d)] != d:
            return ("lost-or-reordered" if got + len(d) <= len(written) else "extra-bytes",
                    "read %d (buffer %d) at stream offset %d: expected %s... got %s... (%d bytes)"
                    % (k, x["size"], got, written[got:got + len(d)].hex()[:24], d.hex()[:24], len(d)))
        got += len(d)
        if x["e"] >= 0:
            if got < len(written):
                return ("error-mid-stream", "read %d (buffer %d) returned error %r after %d of the %d bytes that Write reported as "
                        "written, before the peer closed" % (k, x["size"], x.get("err") or x["e"], got, len(written)))
            break
    if got < len(written):
        return ("bytes-missing", "the reader obtained %d of the %d bytes that Write reported as written (%s)"
                % (got, len(written), r.get("note") or "no error"))
    return None


def run_rp(ctx):
    cases = gen_rp_cases(ctx)
    res, out = yield ("go", "rp", cases)
    if res is None or len(res) != len(cases):
        driver_failed(ctx, "Go real-pair driver", out)
        return
    terms, tcase = [], []
    for c, r in zip(cases, res):
        dname = RP_DIR[c["dir"]]
        note = r.get("note") or ""
        if note.startswith("setup:") or note.startswith("driver panic"):
            ctx.broken("driver", "real-pair driver: %s" % note, {"rp_cases": [c]})
            continue
        wmax, rbufs = r["wmax"], r["rbufs"]
        rbuf = min(rbufs)
        sizes = r["msgs"]
        datas = [lcg_bytes(m["seed"], n) for m, n in zip(c["msgs"], sizes)]
        writes = r.get("writes") or []
        reads = r.get("reads") or []
        nb = r.get("before_close", 0)
        ctx.count((c["dir"], tuple(sizes), tuple((x["rel"], x["n"]) for x in c["rsizes"])), nontrivial=bool(reads),
                  kind="rp/%s" % dname)
        for n, w in zip(sizes, writes):
            if n == wmax and w["n"] == n and w["e"] < 0:
                ctx.count(("max", c["dir"]), nontrivial=False, kind="rp/%s/max-accepted" % dname)
            if n == wmax - 1 and w["n"] == n:
                ctx.count(("max-1", c["dir"]), nontrivial=False, kind="rp/max-1-accepted")
            if n > wmax and w["n"] == 0 and w["e"] >= 0:
                ctx.count(("over", c["dir"]), nontrivial=False, kind="rp/over-max-refused")
        for sz in set(x["size"] for x in reads[:nb]):
            k = ("read=1" if sz == 1 else "read=max-1" if sz == wmax - 1 else "read=max" if sz == wmax
                 else "read>max" if sz > wmax else None)
            if k:
                ctx.count((k, c["dir"]), nontrivial=False, kind="rp/" + k)
        v = rp_oracle(c, r, datas)
        if v is not None:
            cls, text = v
            ctx.fail("realpair/%s/%s" % (dname, cls),
                     "real Server/Client pair over net.Pipe (DTLS+SCTP, association maximum message size %d, receive buffers %s), "
                     "%s, writes of %s bytes reported %s: %s"
                     % (wmax, rbufs, dname, sizes, [w["n"] for w in writes], text),
                     {"rp_cases": [c], "resolved": {"wmax": wmax, "rbufs": rbufs, "msgs": sizes},
                      "observed": [(x["size"], len(x["d"]) // 2, x["e"], x.get("err", "")) for x in reads[max(0, nb - 6):nb + 2]]})
        # the model comparison costs seconds per 64 KiB message (lists of bytes under vm_compute): every case with one
        # maximal message, every other one of the longer ones; the direct oracle above judges all of them
        heavy = sum(1 for n in sizes if n > 30000)
        if nb <= RP_COQ_MAX_READS and len(writes) == len(sizes) and (heavy <= 1 or v is not None or len(tcase) % 2 == 0):
            terms.append("CRp %s %s %s %s %s %s" % (
                gN(wmax), gN(rbuf), glist(datas, bspec_in), glist([w["n"] for w in writes], gN),
                glist([x["size"] for x in reads[:nb]], gN),
                glist(reads[:nb], lambda x: "(%s, %s)" % (bspec_obs(bytes.fromhex(x["d"] or "")), gopt(None if x["e"] < 0 else x["e"], gN)))))
            tcase.append((c, r))
    try:
        ctx.sample({"sub": "realpair", "case": cases[0], "wmax": res[0].get("wmax"), "rbufs": res[0].get("rbufs"),
                    "writes": res[0].get("writes"), "reads": len(res[0].get("reads") or [])})
    except (IndexError, KeyError):
        pass
    mm = yield ("coq", terms)
    if mm:
        ctx.cov["mismatches"] += len(mm)
        c, r = tcase[mm[0]]
        ctx.broken("correspondence", "real pair and the model instance pair_reads wmax rbuf (wmax, rbuf read from the constructed "
                   "association and connection) disagree, or the instance violates wmax <= rbuf, on %d case(s); first: %s wmax=%s "
                   "receive buffers=%s" % (len(mm), RP_DIR[c["dir"]], r.get("wmax"), r.get("rbufs")),
                   {"rp_cases": [c], "resolved": {"wmax": r.get("wmax"), "rbufs": r.get("rbufs"), "msgs": r.get("msgs")}})


# ------------------------------------------------------------------ (iii) flow control
FC_OPS = {"W": 0, "D": 1, "X": 2, "G": 3, "C": 4}
WMAX, WTHR = 262144, 131072


def gen_fc_cases(ctx):
    rng = ctx.rng
    quick = ctx.tier == "quick"
    cases = []
    # the stale-token run that reaches the bound exactly, and the plain blocking run
    cases.append([("W", WTHR), ("G", 0), ("W", WTHR), ("G", 0), ("D", WTHR), ("W", WTHR), ("G", 0),
                  ("W", WTHR), ("G", 0), ("W", 1), ("D", 300000), ("G", 0), ("W", WTHR + 1), ("W", 0), ("X", 32)])
    cases.append([("W", WTHR), ("G", 0), ("W", WTHR), ("G", 0), ("W", 1), ("D", 1), ("D", WTHR), ("G", 0),
                  ("W", WTHR), ("C", 0), ("D", 5)])
    cases.append([("W", WTHR), ("G", 0), ("W", WTHR), ("G", 0), ("W", 70000), ("C", 0), ("D", 400000), ("X", 32)])
    wn = [0, 1, 1000, 65536, 100000, WTHR - 1, WTHR, WTHR, WTHR, WTHR + 1, 200000]
    dn = [1, 1000, 65536, WTHR - 1, WTHR, WTHR + 1, WMAX, 400000]
    for _ in range(60 if quick else 1500):
        ops = []
        closed = False
        for _ in range(rng.randrange(4, 40)):
            r = rng.random()
            if r < 0.35 and not closed:
                ops.append(("W", rng.choice(wn)))
                if rng.random() < 0.7:
                    ops.append(("G", 0))
            elif r < 0.6:
                ops.append(("D", rng.choice(dn)))
            elif r < 0.75:
                ops.append(("G", 0))
            elif r < 0.85:
                ops.append(("X", 32))
            elif r < 0.88 and not closed:
                ops.append(("C", 0))
                closed = True
            else:
                ops.append(("D", rng.choice(dn)))
        cases.append(ops)
    for c in replay_cases(ctx, "fc_cases"):
        cases.insert(0, [(o[0], o[1]) for o in c])
    if ctx.replay:
        cases = cases[:len(replay_cases(ctx, "fc_cases"))]
    return cases


def run_fc(ctx):
    cases = gen_fc_cases(ctx)
    js = [{"ops": [{"op": o, "n": n} for o, n in c]} for c in cases]
    res, out = yield ("go", "fc", js)
    if res is None or len(res) != len(cases):
        driver_failed(ctx, "Go flow-control driver", out)
        return
    terms = []
    for c, r in zip(cases, res):
        steps = r.get("steps") or []
        foreign = 0
        kinds = set()
        bad = None
        for (o, n), st in zip(c, steps):
            if o == "X":
                foreign += n
            if st["buffered"] > WMAX + WTHR + foreign:
                bad = ("over-bound", "buffered amount %d exceeds 256 KiB + 128 KiB (+%d bytes written past flow control)"
                       % (st["buffered"], foreign))
            if st["buffered"] > WMAX:
                kinds.add("stale-token")
            if st["writer"] == 1:
                kinds.add("blocked")
            if st["ret"] and st["rete"] == 4:
                kinds.add("limit")
            if st["ret"] and st["rete"] == 5:
                kinds.add("closed-while-blocked")
            if st["ret"] and st["rete"] in (E_HANG, E_PANIC):
                bad = ("hang-or-panic", "Write hung or panicked")
            if o == "W" and n > WTHR and st["ret"] and not (st["rete"] == 4 and st["retn"] == 0):
                bad = ("limit-not-enforced", "a %d-byte write was not refused" % n)
        if r.get("maxseen", 0) > WMAX + WTHR + foreign:
            bad = ("over-bound", "buffered amount reached %d" % r["maxseen"])
        if len(steps) != len(c):
            bad = bad or ("driver-stopped", r.get("note", ""))
        ctx.count(tuple(c), kind="fc/" + ("+".join(sorted(kinds)) or "plain"))
        for k in kinds:
            ctx.count(("k", k, tuple(c)), nontrivial=False, kind="fc/has-" + k)
        if bad:
            ctx.fail("fc/" + bad[0], "SCTPConn.Write flow control: " + bad[1], {"fc_cases": [c], "observed": steps[:60]})
        terms.append("CFc %s %s" % (
            glist(c, lambda x: "(%s, %s)" % (gN(FC_OPS[x[0]]), gN(x[1]))),
            glist(steps, lambda st: "(%s, %s, %s, %s)" % (
                gN(st["buffered"]), gbool(st["token"] > 0), gN(st["writer"]),
                ("(Some (%s, %s))" % (gN(st["retn"]), gopt(None if st["rete"] < 0 else st["rete"], gN))) if st["ret"] else "None"))))
    try:
        ctx.sample({"sub": "fc", "ops": cases[0], "observed": res[0]})
    except (IndexError, KeyError):
        pass
    mm = yield ("coq", terms)
    if mm:
        ctx.cov["mismatches"] += len(mm)
        i = mm[0]
        ctx.broken("correspondence", "flow-control model (fc_step) and SCTPConn.Write disagree on %d case(s)" % len(mm),
                   {"fc_cases": [cases[i]], "observed": res[i]})


# ------------------------------------------------------------------ (vi) several goroutines writing to one connection
MW_EV = {"S": "EStart", "aB": "EArrBA", "B": "ERelBA", "aW": "EArrW", "W": "ERelW", "R": "ERet", "D": "EDrain", "X": "EForeign",
         "C": "EClose", "Q": "EQuiet"}


def gen_mw_cases(ctx):
    rng = ctx.rng
    quick = ctx.tier == "quick"
    cases = []

    def case(k, sizes, policy, drains=(), mode="never", seed=0, foreign=0, close=False):
        return {"k": k, "sizes": [list(x) for x in sizes], "policy": policy, "seed": seed, "drains": list(drains),
                "drain_mode": mode, "foreign": foreign, "close": close}
    for k in (1, 2, 4, 8):
        # a network that never drains: every writer tests before any writes whenever the code lets it
        cases.append(case(k, [[WTHR, WTHR]] * k, "ba-first"))
        cases.append(case(k, [[100 * 1024]] * k, "ba-first"))
        cases.append(case(k, [[50000] * 3] * k, "ba-first"))
        cases.append(case(k, [[60000, 1, WTHR]] * k, "w-first"))
        # drains in scripted steps, only when every writer is held back
        cases.append(case(k, [[50000] * 6] * k, "ba-first", [WTHR, 1, WTHR, 300000, 70000, WTHR] * 3, "stuck"))
        cases.append(case(k, [[WTHR] * 3] * k, "w-first", [1, WTHR - 1, WTHR, WTHR + 1, WMAX] * 4, "stuck"))
        # the stale token: a drain crosses the threshold while nobody waits, the amount climbs to 256 KiB, the next writer
        # is let through by the old token (256 KiB + 128 KiB, the bound exactly)
        nmsg = max(1, 8 // k)
        cases.append(case(k, [[WTHR] * nmsg] * k, "ba-first", [0, WTHR, 0, 0, 0, 3 * WTHR, 0, WTHR, 0, 0], "every"))
        # the network keeps pace
        cases.append(case(k, [[WTHR, 100000, 65536]] * k, "w-first", [WTHR, 100000, 65536] * (k + 1), "every"))
    szs = [1, 1000, 50000, 65536, 100000, WTHR - 1, WTHR, WTHR, 90000, 0, WTHR + 1]
    dns = [1, 1000, 65536, WTHR - 1, WTHR, WTHR + 1, WMAX, 400000, 0]
    for _ in range(28 if quick else 600):
        k = rng.choice([1, 2, 2, 3, 4, 4, 5, 8, 8])
        sizes = [[rng.choice(szs) for _ in range(rng.randrange(1, 6))] for _ in range(k)]
        mode = rng.choice(["never", "stuck", "random", "random", "every"])
        drains = [rng.choice(dns) for _ in range(rng.randrange(0, 14))] if mode != "never" else []
        cases.append(case(k, sizes, rng.choice(["random", "random", "ba-first", "w-first"]), drains, mode,
                          seed=rng.randrange(1 << 30), foreign=rng.choice([0, 0, 2, 5]), close=rng.random() < 0.3))
    rp = replay_cases(ctx, "mw_cases")
    for c in rp:
        cases.insert(0, c)
    if ctx.replay:
        cases = cases[:len(rp)]
    return cases


def mw_term(events):
    out = []
    for e in events:
        k = e["e"]
        if k == "S":
            out.append("EStart %d%%nat %s" % (e["t"], gN(e["n"])))
        elif k == "aB":
            out.append("EArrBA %d%%nat" % e["t"])
        elif k == "B":
            out.append("ERelBA %d%%nat %s" % (e["t"], gN(e["n"])))
        elif k == "aW":
            out.append("EArrW %d%%nat %s" % (e["t"], gN(e["n"])))
        elif k == "W":
            out.append("ERelW %d%%nat" % e["t"])
        elif k == "R":
            out.append("ERet %d%%nat %s %s" % (e["t"], gN(max(0, e["k"])), gopt(None if e["err"] < 0 else e["err"], gN)))
        elif k == "D":
            out.append("EDrain %s" % gN(e["n"]))
        elif k == "X":
            out.append("EForeign %s" % gN(e["n"]))
        elif k == "C":
            out.append("EClose")
        elif k == "Q":
            out.append("EQuiet %s %s %s" % (glist(e.get("parked") or [], gbool), gN(e["buf"]), gbool(e["token"])))
    return "CMw [%s]" % "; ".join(out)


def mw_oracle(c, r):
    """the property's words on the observables: the buffered amount never exceeds the fixed bound (the same for every
    number of writers), a writer that is held back proceeds once the network has drained, Write returns what it was given"""
    evs = r.get("events") or []
    foreign, fired, closed = 0, False, False
    pend = {}
    kinds = set()
    bad = None
    many = c["k"] > 1
    for e in evs:
        k = e["e"]
        if k == "X":
            foreign += e["n"]
        elif k == "D" and e.get("fired"):
            fired = True
        elif k == "C":
            closed = True
        elif k in ("aB", "aW"):
            pend[e["t"]] = k
        elif k in ("B", "W"):
            pend.pop(e["t"], None)
        elif k == "R":
            if e["err"] in (E_HANG, E_PANIC):
                bad = bad or ("panic", "Write panicked (writer %d)" % e["t"])
            elif e["err"] == 5:
                kinds.add("closed-while-blocked")
                if not closed:
                    bad = bad or ("closed-without-close", "writer %d was refused with 'closed' although the connection was never closed" % e["t"])
            elif e["err"] == 4:
                kinds.add("limit")
            elif e["err"] >= 0:
                bad = bad or ("unexpected-error", "writer %d: Write returned an unexpected error" % e["t"])
        elif k == "Q":
            bound = WMAX + foreign + (WTHR if fired else 0)
            parked = e.get("parked") or []
            if e["buf"] > bound:
                if fired:
                    what = ("buffered amount %d exceeds 256 KiB + 128 KiB (+%d bytes written past flow control) with %d writer(s)"
                            % (e["buf"], foreign, c["k"]))
                else:
                    what = ("buffered amount %d exceeds writeMaxBufferedAmount = 262144 (+%d bytes written past flow control) with %d "
                            "writer(s) although the network never released a token" % (e["buf"], foreign, c["k"]))
                bad = bad or (("concurrent-writers-over-bound" if many else "over-bound"), what)
            if e["buf"] > WMAX + foreign:
                kinds.add("stale-token")
            if any(parked) and pend:
                kinds.add("contention")
            if any(parked) and not pend:
                kinds.add("held-back")
                if e["buf"] <= WTHR and not closed:
                    bad = bad or ("held-back-on-drained-buffer", "writer(s) %s still held back although the buffered amount is down "
                                  "to %d (<= the low threshold) and nothing else can move" % ([i for i, p in enumerate(parked) if p], e["buf"]))
    if r.get("maxseen", 0) > WMAX + WTHR + foreign:
        bad = bad or (("concurrent-writers-over-bound" if many else "over-bound"),
                      "buffered amount reached %d with %d writer(s)" % (r["maxseen"], c["k"]))
    note = (r.get("note") or "").strip()
    if note:
        bad = bad or ("hang", "driver: " + note)
    return bad, kinds


def remeasure(ctx, key, case, timed_out, lane):
    """A hang / not-at-rest-in-time verdict of the schedule lanes is a statement about time: before it is reported the case is
    run again ALONE (nothing else in the test process) up to 2 more times with deadlines stretched 4x (15 s -> 60 s).
    A real deadlock or lost wake-up times out in every attempt; a writer that merely was not scheduled in time on a loaded
    machine does not.  Returns the first result without a timeout (counted as unstable-under-load) or None."""
    files = dict(DRV)
    for fn in ("read", "rp", "stream", "listener", "mw", "mr", "all"):
        files["zz_verif_%s_test.go" % fn] = "c16/%s_driver_test.go" % fn
    for attempt in range(2):
        rc, out, res = ctx.go_inpkg(".", "pkg/dtls", files, "^TestVerifC16All$", {key: [case]}, timeout=900,
                                    env={"VERIF_C16_SLACK": "4"})
        r = ((res or {}).get(key) or [None])[0]
        if r is not None and not timed_out(r):
            ctx.cov.setdefault("unstable_under_load", []).append(
                {"lane": lane, "attempts_timed_out": attempt + 1, "case": {k: case[k] for k in list(case)[:8]}})
            ctx.count(("unstable", lane, len(ctx.cov["unstable_under_load"])), nontrivial=False, kind=lane + "/unstable-under-load")
            return r
    return None


def run_mw(ctx):
    cases = gen_mw_cases(ctx)
    res, out = yield ("go", "mw", cases)
    if res is None or len(res) != len(cases):
        driver_failed(ctx, "Go concurrent-writers driver", out)
        return
    terms = []
    for i, (c, r) in enumerate(zip(cases, res)):
        bad, kinds = mw_oracle(c, r)
        if (r.get("note") or "").strip():
            r2 = remeasure(ctx, "mw", c, lambda x: bool((x.get("note") or "").strip()), "mw")
            if r2 is not None:
                r = res[i] = r2
                bad, kinds = mw_oracle(c, r)
        ctx.count((c["k"], str(c["sizes"]), c["policy"], c["seed"], tuple(c["drains"]), c["drain_mode"]),
                  kind="mw/k=%d/%s/%s" % (c["k"], c["policy"], c["drain_mode"]))
        ctx.count(("mwk", c["k"], len(terms)), nontrivial=False, kind="mw/k=%d" % c["k"])
        for k in kinds:
            ctx.count(("mwkind", k, len(terms)), nontrivial=False, kind="mw/has-" + k)
        if bad:
            ctx.fail("fc/" + bad[0], "SCTPConn.Write from %d goroutine(s) on one connection (policy %s, network %s): %s"
                     % (c["k"], c["policy"], c["drain_mode"], bad[1]), {"mw_cases": [c], "observed": (r.get("events") or [])[:120]})
        terms.append(mw_term(r.get("events") or []))
    try:
        ctx.sample({"sub": "mw", "case": cases[1], "observed": {"maxseen": res[1]["maxseen"], "events": res[1]["events"][:40]}})
    except (IndexError, KeyError):
        pass
    mm = yield ("coq", terms)
    if mm:
        ctx.cov["mismatches"] += len(mm)
        i = mm[0]
        ctx.broken("correspondence", "the order of (start, BufferedAmount, stream.Write, return) events observed on the real "
                   "SCTPConn.Write with %d writer(s) is not one the multi-writer LTS (mw_step, check and write inside the mutex) "
                   "allows; %d case(s)" % (cases[i]["k"], len(mm)), {"mw_cases": [cases[i]], "observed": (res[i].get("events") or [])[:120]})


def gen_mws_cases(ctx):
    rng = ctx.rng
    if ctx.replay:
        return replay_cases(ctx, "mws_cases")
    quick = ctx.tier == "quick"
    cases = []
    for k, drain, msgs, mx in [(8, "never", 4, 100 * 1024), (2, "never", 6, 50000), (4, "slow", 20, WTHR), (8, "fast", 40, WTHR),
                               (1, "fast", 40, WTHR)]:
        cases.append({"k": k, "msgs": msgs if quick else msgs * 10, "seed": rng.randrange(1 << 30), "drain": drain, "max_size": mx,
                      "budget_ms": 400 if drain == "slow" else 8000})
    if not quick:
        for k in (2, 3, 16, 32):
            for drain in ("never", "slow", "fast"):
                cases.append({"k": k, "msgs": 200, "seed": rng.randrange(1 << 30), "drain": drain,
                              "max_size": rng.choice([WTHR, 100 * 1024, 70000]), "budget_ms": 1500 if drain == "slow" else 20000})
    return cases


def mws_eval(ctx, cases, res, raced):
    for c, r in zip(cases, res):
        bound = WMAX + (WTHR if r["fired"] else 0)
        ctx.count(("mws", c["k"], c["drain"], c["seed"]), nontrivial=r["written"] > 0,
                  kind="mw/stress/%s%s" % (c["drain"], "+race" if raced else ""))
        many = c["k"] > 1
        if r["maxseen"] > bound:
            ctx.fail("fc/" + ("concurrent-writers-over-bound" if many else "over-bound"),
                     "free-running stress, %d goroutine(s) writing to one SCTPConn, network %s: buffered amount reached %d, bound %d%s"
                     % (c["k"], c["drain"], r["maxseen"], bound, "" if r["fired"] else " (no token was ever released)"),
                     {"mws_cases": [c], "observed": r})
        if r.get("panics"):
            ctx.fail("fc/panic", "free-running stress, %d goroutine(s) writing to one SCTPConn: Write panicked" % c["k"],
                     {"mws_cases": [c], "observed": r})
        if r["hung"]:
            ctx.fail("fc/hang", "free-running stress: writers did not return within 5 s after Close", {"mws_cases": [c], "observed": r})
        if r["short"]:
            ctx.fail("fc/short-write", "Write returned a length different from the buffer's", {"mws_cases": [c], "observed": r})
        if c["drain"] == "fast" and r["returned"] != c["k"] * c["msgs"]:
            ctx.fail("fc/held-back-on-drained-buffer", "free-running stress with a fast network: only %d of %d Writes returned within "
                     "%d ms" % (r["returned"], c["k"] * c["msgs"], c["budget_ms"]), {"mws_cases": [c], "observed": r})


def run_mws(ctx):
    cases = gen_mws_cases(ctx)
    res, out = yield ("go", "mws", cases)
    if res is None or len(res) != len(cases):
        driver_failed(ctx, "Go concurrent-writers stress driver", out)
        return
    for i, (c, r) in enumerate(zip(cases, res)):
        late = lambda x, c=c: bool(x["hung"]) or (c["drain"] == "fast" and x["returned"] != c["k"] * c["msgs"])
        if late(r):
            r2 = remeasure(ctx, "mws", dict(c, budget_ms=c["budget_ms"] * 4), late, "mw/stress")
            if r2 is not None:
                res[i] = r2
    mws_eval(ctx, cases, res, False)
    ctx.cov["mw_stress"] = [dict(c, **r) for c, r in zip(cases, res)][:6]
    yield ("coq", [])


def run_mws_race(ctx):
    """thorough tier: the same free-running writers under the race detector"""
    cases = gen_mws_cases(ctx)
    files = dict(DRV)
    files["zz_verif_mw_test.go"] = "c16/mw_driver_test.go"
    rc, out, res = ctx.go_inpkg(".", "pkg/dtls", files, "^TestVerifC16MwStress$", cases, timeout=900, race=True)
    if "WARNING: DATA RACE" in out:
        ctx.fail("fc/data-race", "go test -race reports a data race with several goroutines writing to one SCTPConn",
                 {"race_report": out[out.index("WARNING: DATA RACE"):][:1500]})
    if res is None or len(res) != len(cases):
        driver_failed(ctx, "Go concurrent-writers stress driver (-race)", out)
        return
    mws_eval(ctx, cases, res, True)
    rcases = gen_mrs_cases(ctx)
    files["zz_verif_mr_test.go"] = "c16/mr_driver_test.go"
    rc, out, res = ctx.go_inpkg(".", "pkg/dtls", files, "^TestVerifC16MrStress$", rcases, timeout=900, race=True)
    if "WARNING: DATA RACE" in out:
        ctx.fail("read/concurrent/data-race", "go test -race reports a data race with several goroutines reading one SCTPConn",
                 {"race_report": out[out.index("WARNING: DATA RACE"):][:1500]})
    if res is None or len(res) != len(rcases):
        driver_failed(ctx, "Go concurrent-readers stress driver (-race)", out)
        return
    mrs_eval(ctx, rcases, res, True)


# ------------------------------------------------------------------ (i) under concurrency: several goroutines reading one connection
def gen_mr_cases(ctx):
    rng = ctx.rng
    quick = ctx.tier == "quick"
    cases = []

    def script_of(ms):
        return [{"d": d.hex(), "e": -1 if e is None else e} for d, e in ms]
    ctr = [1]

    def data(n):
        out = bytes((ctr[0] + j) % 251 + 1 for j in range(n))
        ctr[0] += n
        return out
    # one reader inside the stream, the others queued on the read mutex; a message larger than any of their buffers is
    # handed out piecewise to different goroutines; the error comes with the last piece
    cases.append({"k": 2, "mx": 8, "script": script_of([(data(5), None), (data(2), None), (data(3), 30)]),
                  "sizes": [[2, 2, 2, 2], [3, 3, 3, 3]], "policy": "all-first", "seed": 1})
    cases.append({"k": 4, "mx": 8, "script": script_of([(data(8), None), (data(8), 31)]),
                  "sizes": [[1, 1, 1], [2, 2], [3, 3], [1, 9, 1]], "policy": "all-first", "seed": 2})
    cases.append({"k": 3, "mx": 4, "script": script_of([(data(4), None), (data(1), None), (b"", None), (data(3), None)]),
                  "sizes": [[1, 9, 1], [2, 2, 2], [4, 1, 1]], "policy": "grant-first", "seed": 3})
    for _ in range(30 if quick else 500):
        k = rng.choice([2, 2, 3, 4])
        mx = rng.choice([2, 3, 4, 8, 16])
        ms = []
        for _ in range(rng.randrange(1, 7)):
            n = rng.choice([0, 1, mx - 1, mx, mx, rng.randrange(0, mx + 1)])
            ms.append((data(n), rng.choice([None] * 7 + [20, 21])))
        sizes = [[max(0, rng.choice([1, 1, 2, 3, mx - 1, mx, mx + 1, 2 * mx, 0])) for _ in range(rng.randrange(1, 6))] for _ in range(k)]
        cases.append({"k": k, "mx": mx, "script": script_of(ms), "sizes": sizes,
                      "policy": rng.choice(["all-first", "grant-first", "random"]), "seed": rng.randrange(1 << 30)})
    rp = replay_cases(ctx, "mr_cases")
    for c in rp:
        cases.insert(0, c)
    if ctx.replay:
        cases = cases[:len(rp)]
    return cases


def mr_seq_read(state, script, n, mx):
    """one sequential SCTPConn.Read on (buffer, offset, error, script position): used ONLY to choose among the possible serial
    orders of one driver action (0-byte Reads are invisible in the results but not in the buffer); the chosen order is then
    judged by the Coq model and by the oracle, never by this function"""
    buf, off, err, pos = state
    if off == len(buf):
        cap = n if n >= mx else mx
        if pos < len(script):
            d, e = script[pos]
            pos += 1
            d, e = (d, e) if len(d) <= cap else (b"", E_SHORT)
        else:
            d, e = b"", E_EOS
        if n >= mx:
            return (buf, off, err, pos), (d, e)
        buf, off, err = d, 0, e
    out = buf[off:off + n]
    off += len(out)
    return (buf, off, err, pos), (out, err if off == len(buf) else None)


def mr_linearize(c, r):
    """The read mutex serialises the Reads; recover that order from the observables: by driver action, and within one action
    (where a returning reader hands the mutex to the next) by search over the permutations of that action's returns -- the
    reader that was inside the stream when the message was delivered first.  Returns (ordered [(size, (bytes, err))],
    violation or None): a violation when NO serial order is accepted by the sequential read oracle."""
    script = [msg(bytes.fromhex(m["d"] or ""), None if m["e"] < 0 else m["e"]) for m in c["script"]]
    plain = [(m["d"], m["e"]) for m in script]
    rc = read_case(False, c["mx"], b"\xaa\xbb", script, [])
    order, state, explained = [], (b"", 0, None, 0), True
    conv = lambda q: (q["size"], (bytes.fromhex(q["d"] or ""), None if q["e"] < 0 else q["e"]))
    for ph in r.get("phases") or []:
        rets = ph.get("rets") or []
        if not rets:
            continue
        head = [q for q in rets if ph.get("op") == "G" and q["r"] == ph.get("t")]
        tail = [q for q in rets if q not in head]
        perms = [tuple(head) + p for p in itertools.permutations(tail)]
        pick = None
        if explained:
            for perm in perms:
                st2, ok = state, True
                for q in perm:
                    st2, got = mr_seq_read(st2, plain, q["size"], c["mx"])
                    if got != conv(q)[1]:
                        ok = False
                        break
                if ok:
                    pick, state = perm, st2
                    break
        if pick is None:
            explained = False
            for perm in perms + list(itertools.permutations(rets)):
                cand = order + [conv(q) for q in perm]
                rc["sizes"] = [sz for sz, _ in cand]
                if read_oracle(rc, [x for _, x in cand]) is None:
                    pick = perm
                    break
        if pick is None:
            cand = order + [conv(q) for q in rets]
            rc["sizes"] = [sz for sz, _ in cand]
            return cand, read_oracle(rc, [x for _, x in cand])
        order += [conv(q) for q in pick]
    rc["sizes"] = [sz for sz, _ in order]
    return order, read_oracle(rc, [x for _, x in order])


def run_mr(ctx):
    cases = gen_mr_cases(ctx)
    res, out = yield ("go", "mr", cases)
    if res is None or len(res) != len(cases):
        driver_failed(ctx, "Go concurrent-readers driver", out)
        return
    terms, tcases = [], []
    for i, (c, r) in enumerate(zip(cases, res)):
        if (r.get("note") or "").strip():
            r2 = remeasure(ctx, "mr", c, lambda x: bool((x.get("note") or "").strip()), "mr")
            if r2 is not None:
                r = res[i] = r2
        phases = r.get("phases") or []
        ctx.count((c["k"], c["mx"], str(c["script"]), str(c["sizes"]), c["policy"], c["seed"]), kind="mr/k=%d/%s" % (c["k"], c["policy"]))
        if any(any(ph.get("parked") or []) for ph in phases):
            ctx.count(("mrc", len(terms)), nontrivial=False, kind="mr/has-contention")
        if any(len(ph.get("rets") or []) >= 2 for ph in phases):
            ctx.count(("mrh", len(terms)), nontrivial=False, kind="mr/has-handover")
        oversize = any(len(m["d"]) // 2 > c["mx"] for m in c["script"])
        order, v = mr_linearize(c, r)
        note = (r.get("note") or "").strip()
        if any(x[1][1] in (E_HANG, E_PANIC) for x in order):
            v = ("panic", "Read panicked")
        if note:
            v = v or ("hang", "driver: " + note)
        if v is not None and not oversize:
            ctx.fail("read/concurrent/" + v[0], "SCTPConn.Read from %d goroutines on one connection: no serial order of the Reads "
                     "explains what they returned (%s)" % (c["k"], v[1]), {"mr_cases": [c], "observed": phases[:60]})
        script = [(bytes.fromhex(m["d"] or ""), None if m["e"] < 0 else m["e"]) for m in c["script"]]
        terms.append("CRead false %s %s %s %s %s" % (
            gN(c["mx"]), hexs(b"\xaa\xbb"),
            glist(script, lambda m: "(%s, %s)" % (bspec_in(m[0]), gopt(m[1], gN))),
            glist([sz for sz, _ in order], gN),
            glist([x for _, x in order], lambda x: "(%s, %s)" % (bspec_obs(x[0]), gopt(x[1], gN)))))
        tcases.append((c, r))
    try:
        ctx.sample({"sub": "mr", "case": cases[0], "observed": res[0]})
    except (IndexError, KeyError):
        pass
    mm = yield ("coq", terms)
    if mm:
        ctx.cov["mismatches"] += len(mm)
        c, r = tcases[mm[0]]
        ctx.broken("correspondence", "Reads of %d goroutines, put in the order the read mutex serialised them, differ from the sequential "
                   "read model (sctp_read) on %d case(s)" % (c["k"], len(mm)), {"mr_cases": [c], "observed": (r.get("phases") or [])[:60]})


def gen_mrs_cases(ctx):
    if ctx.replay:
        return replay_cases(ctx, "mrs_cases")
    rng = ctx.rng
    quick = ctx.tier == "quick"
    out = []
    for k, mx, rd in [(4, 64, 100), (8, 16, 5), (2, 300, 1000)] + ([] if quick else [(16, 64, 70), (3, 65535, 70000), (32, 8, 3)]):
        out.append({"k": k, "mx": mx, "msgs": 300 if quick else 3000, "seed": rng.randrange(1 << 30), "max_rd": rd})
    return out


def mrs_eval(ctx, cases, res, raced):
    for c, r in zip(cases, res):
        ctx.count(("mrs", c["k"], c["mx"], c["seed"]), nontrivial=r["got"] > 0, kind="mr/stress" + ("+race" if raced else ""))
        if r.get("panics"):
            ctx.fail("read/concurrent/panic", "%d goroutines reading one SCTPConn: Read panicked (%d reader(s))" % (c["k"], r["panics"]),
                     {"mrs_cases": [c], "observed": r})
        elif r["hung"]:
            ctx.fail("read/concurrent/hang", "free-running readers did not return within 5 s after Close", {"mrs_cases": [c], "observed": r})
        elif r["got"] != r["fed"] or r["got_sum"] != r["fed_sum"] or r["overlong"]:
            ctx.fail("read/concurrent/bytes-lost-or-duplicated", "%d goroutines reading one SCTPConn: %d bytes fed, %d returned (order-"
                     "independent checksums %s)" % (c["k"], r["fed"], r["got"], "equal" if r["got_sum"] == r["fed_sum"] else "differ"),
                     {"mrs_cases": [c], "observed": r})


def run_mrs(ctx):
    cases = gen_mrs_cases(ctx)
    res, out = yield ("go", "mrs", cases)
    if res is None or len(res) != len(cases):
        driver_failed(ctx, "Go concurrent-readers stress driver", out)
        return
    for i, (c, r) in enumerate(zip(cases, res)):
        if r["hung"] and not r.get("panics"):
            r2 = remeasure(ctx, "mrs", c, lambda x: bool(x["hung"]), "mr/stress")
            if r2 is not None:
                res[i] = r2
    mrs_eval(ctx, cases, res, False)
    yield ("coq", [])


# ------------------------------------------------------------------ (ii) queue under a schedule
def gen_hbq_cases(ctx):
    rng = ctx.rng
    quick = ctx.tier == "quick"
    cases = []
    hb = bytes([0xAA, 0xBB])
    for _ in range(80 if quick else 1500):
        script = []
        for _ in range(rng.randrange(1, 8)):
            r = rng.random()
            if r < 0.3:
                script.append(msg(hb, rng.choice([None, None, 41]), role="hb"))
            else:
                n = rng.randrange(0, 5)
                d = bytes(rng.randrange(1, 200) for _ in range(n))
                if d == hb:
                    continue
                script.append(msg(d, rng.choice([None] * 5 + [30, 31])))
        ops = ""
        bal = 0
        for _ in range(rng.randrange(4, 30)):
            if rng.random() < 0.5 and bal < 50:
                ops += "r"
                bal += 1
            else:
                ops += "R"
                bal = max(0, bal - 1)
        ops += "rR" * 3
        cases.append({"mx": 8, "hb": hb, "script": script, "ops": ops})
    # everything queued (and the error) before the reader starts: the case that lost data before the fix
    cases.append({"mx": 8, "hb": hb, "script": [msg(b"\x01\x02"), msg(hb, role="hb"), msg(b"\x03"), msg(b"\x04\x05", 30)],
                  "ops": "rrrr" + "R" * 6})
    # the full queue: recvLoop holds the 65th message; a Read hands it over (nothing lost, order kept) ...
    many = [msg(bytes([1 + i % 200, 1 + i // 200]), None) for i in range(70)]
    cases.append({"mx": 8, "hb": hb, "script": many[:30] + [msg(hb, role="hb")] + many[30:], "ops": "r" * 67 + "RRR" + "rr" + "R" * 70})
    cases.append({"mx": 8, "hb": hb, "script": many[:64] + [msg(b"\x09\x09", 33)] + many[65:], "ops": "r" * 66 + "R" * 67})
    # ... or nobody reads within the interval: recvLoop closes; what was queued is still delivered, then closed
    for _ in range(1 if quick else 3):
        cases.append({"mx": 8, "hb": hb, "script": many, "ops": "r" * 66 + "T" + "R" * 66, "interval_ms": 2500})
    rp = replay_cases(ctx, "hbq_cases")
    for c in rp:
        hbb = bytes.fromhex(c["hb"])
        cases.insert(0, {"mx": c["mx"], "hb": hbb, "ops": c["ops"], "interval_ms": c.get("interval_ms", 0),
                         "script": [msg(bytes.fromhex(m["d"]), None if m["e"] in (None, -1) else m["e"],
                                        "hb" if bytes.fromhex(m["d"]) == hbb else "data") for m in c["script"]]})
    if ctx.replay:
        cases = cases[:len(rp)]
    return cases


def run_hbq(ctx):
    cases = gen_hbq_cases(ctx)
    js = [{"mx": c["mx"], "hb": c["hb"].hex(), "ops": c["ops"], "interval_ms": c.get("interval_ms", 0),
           "script": [{"d": m["d"].hex(), "e": -1 if m["e"] is None else m["e"]} for m in c["script"]]} for c in cases]
    res, out = yield ("go", "hbq", js)
    if res is None or len(res) != len(cases):
        driver_failed(ctx, "Go heartbeat-queue driver", out)
        return
    terms = []
    for c, r in zip(cases, res):
        outp = r.get("out") or []
        exp = [m for m in c["script"] if m["role"] != "hb"]
        cut = next((i for i, m in enumerate(exp) if m["e"] is not None), None)
        exp = exp[:cut + 1] if cut is not None else exp + [msg(b"", E_EOS)]
        got = [(bytes.fromhex(o["d"] or ""), None if o["e"] < 0 else o["e"]) for o in outp if o["kind"] == 2]
        closed_seen = any(o["kind"] == 3 for o in outp)
        bad = None
        if got != [(m["d"], m["e"]) for m in exp[:len(got)]]:
            bad = ("lost-or-reordered", "hbConn.Read returned %s, the stream without heartbeats is %s"
                   % ([(d.hex(), e) for d, e in got], [(m["d"].hex(), m["e"]) for m in exp]))
        elif closed_seen:
            first_closed = next(j for j, x in enumerate(outp) if x["kind"] == 3)
            ngot_before = sum(1 for o in outp[:first_closed] if o["kind"] == 2)
            # everything recvLoop had queued must come out before closed: all of it, or (when the loop gave up
            # waiting for room, op 'T') the 64 queued messages
            need = min(len(exp), 64) if "T" in c["ops"] else len(exp)
            if any(o["kind"] == 2 for o in outp[first_closed:]):
                bad = ("message-after-closed", "hbConn.Read returned a message after it had reported net.ErrClosed")
            elif ngot_before < need:
                bad = ("closed-before-drain", "net.ErrClosed reported after %d of %d queued message(s)" % (ngot_before, need))
        if any(o["kind"] == 2 and o["e"] in (E_HANG, E_PANIC) for o in outp):
            bad = ("hang", "hbConn.Read hung")
        ctx.count((tuple((m["d"], m["e"], m["role"]) for m in c["script"]), c["ops"]),
                  kind="hbq/%s%s%s" % ("closed" if closed_seen else "open", "+blocked" if any(o["kind"] == 1 for o in outp) else "",
                                       "+queue-timeout" if "T" in c["ops"] else ("+full-queue" if c["ops"].startswith("r" * 66) else "")))
        if bad:
            ctx.fail("hbq/" + bad[0], "heartbeat server queue: " + bad[1],
                     {"hbq_cases": [js[cases.index(c)]], "observed": outp})
        terms.append("CHbq %s %s %s %s %s" % (
            gN(c["mx"]), hexs(c["hb"]),
            glist(c["script"], lambda m: "(%s, %s)" % (bspec_in(m["d"]), gopt(m["e"], gN))),
            glist(c["ops"], lambda ch: gN({"r": 0, "R": 1, "T": 2}[ch])),
            glist(outp, lambda o: "(%s, %s, %s)" % (gN(o["kind"]), bspec_obs(bytes.fromhex(o["d"] or "")),
                                                     gopt(None if o["e"] < 0 or o["kind"] != 2 else o["e"], gN)))))
    try:
        ctx.sample({"sub": "hbq", "case": js[-1], "observed": res[-1]})
    except (IndexError, KeyError):
        pass
    mm = yield ("coq", terms)
    if mm:
        ctx.cov["mismatches"] += len(mm)
        i = mm[0]
        ctx.broken("correspondence", "queue model (hb_step) and hbConn disagree on %d schedule(s)" % len(mm),
                   {"hbq_cases": [js[i]], "observed": res[i]})


# ------------------------------------------------------------------ observation: client heartbeats bypass flow control
def run_hbb(ctx):
    res, out = yield ("go", "hbb", [1])
    if not res:
        driver_failed(ctx, "Go heartbeat-bypass driver", out)
        return
    r = res[0]
    ctx.count(("hbb",), nontrivial=r["heartbeats"] > 0, kind="fc/heartbeat-bypass-observed")
    ctx.cov.setdefault("observations", {})["client heartbeats bypass SCTPConn.Write flow control"] = dict(
        r, verdict="not a violation: the keep-alive sender is paced by its timer (32 bytes per Interval/2), it cannot outpace "
        "the network; the bound is proved with that term (C16_buffered_bounded: 393216 + bytes written past flow control)")
    # the theorem's bound, with the heartbeats as the foreign term
    if r["maxseen"] > 393216 + 32 * r["heartbeats"]:
        ctx.fail("fc/over-bound", "with the real heartbeat client the buffered amount reached %d, more than 393216 + 32 x %d heartbeats"
                 % (r["maxseen"], r["heartbeats"]), {"observed": r})
    yield ("coq", [])


# ------------------------------------------------------------------ (ii') the window between Read's two selects: a search
def run_win(ctx):
    iters = 100000 if ctx.tier == "quick" else 1000000
    res, out = yield ("go", "win", [{"iters": iters}])
    if not res:
        driver_failed(ctx, "Go read-window driver", out)
        return
    r = res[0]
    ctx.count(("win", iters), nontrivial=r["complete"] > 0, kind="hbq/window-search")
    ctx.cov["window_search"] = dict(r, iters=iters, note="search for the schedule 'queue found empty, then message+close, then the "
                                    "blocking select with both cases ready'; not reachable deterministically without a hook inside Read")
    if r["hits"]:
        ctx.fail("hbq/closed-before-drain-window", "hbConn.Read reported net.ErrClosed while the last message (delivered with the "
                 "stream error) was still queued, in %d of %d racing runs" % (r["hits"], iters), {"win_cases": [{"iters": iters}], "observed": r})
    if r["complete"] < iters * 0.5:
        ctx.broken("driver", "read-window search: only %d of %d runs delivered both messages in order" % (r["complete"], iters))
    yield ("coq", [])


# ------------------------------------------------------------------ (ii) watchdog, measured
def gen_wd_cases(ctx):
    rng = ctx.rng
    quick = ctx.tier == "quick"
    cases = []
    iv = 120
    fixed = [([2, 6, 10], [3], 30), ([2, 6, 10, 14, 18], [], 22), ([], [], 14), ([2], [1, 5], 20),
             ([2, 3, 6, 6, 10], [], 26), ([6], [], 20), ([2, 6, 14], [], 28)]
    for hb, data, q in fixed:
        cases.append({"interval_ms": iv, "hb_at": hb, "data_at": data, "quarters": q, "deadlines": False})
    for _ in range(8 if quick else 40):
        n = rng.randrange(0, 6)
        hb = sorted(rng.sample([2, 6, 10, 14, 18, 22], n)) if n else []
        if rng.random() < 0.3:
            hb += [x + 1 for x in hb[:1]]
        cases.append({"interval_ms": iv, "hb_at": sorted(hb), "data_at": [], "quarters": 34, "deadlines": False})
    # the read deadline of the stream as a second watchdog (oracle only)
    cases.append({"interval_ms": iv, "hb_at": [2], "data_at": [], "quarters": 16, "deadlines": True})
    cases.append({"interval_ms": iv, "hb_at": [2, 6, 10, 14], "data_at": [], "quarters": 18, "deadlines": True})
    if ctx.replay:
        cases = replay_cases(ctx, "wd_cases")
    return cases


def wd_expect(c):
    """per-sleep heartbeat counts for the model"""
    nint = c["quarters"] // 4          # complete sleeps inside the observation
    hbs = [0] * nint
    for q in c["hb_at"]:
        if q // 4 < nint:
            hbs[q // 4] += 1
    return hbs


def wd_eval(ctx, c, r, final):
    """returns (problem or None, unstable?)"""
    iv = c["interval_ms"]
    closed = r["closed_at_ms"]
    if r["surfaced"]:
        return ("hb-surfaced", "%d heartbeat(s) were returned by Read" % r["surfaced"]), False
    last_hb = max(c["hb_at"]) * iv / 4 if c["hb_at"] else 0
    end = c["quarters"] * iv / 4
    tol = 0.6 * iv
    if closed < 0:
        if end > last_hb + 2 * iv + tol:
            return ("silent-peer-not-closed", "no heartbeat after %.0f ms, still open at %.0f ms (interval %d ms)" % (last_hb, end, iv)), False
        return None, False
    if closed > last_hb + 2 * iv + tol:
        return ("silent-peer-closed-late", "closed %.0f ms after the last heartbeat (interval %d ms)" % (closed - last_hb, iv)), True
    # never closed while every sleep so far saw a heartbeat (mid-interval heartbeats only)
    if not c["deadlines"]:
        tick = int(closed // iv)            # the wake-up that closed is tick >= 1
        covered = all(any(q // 4 == k and q % 4 in (1, 2, 3) for q in c["hb_at"]) for k in range(0, max(0, round(closed / iv))))
        if covered and round(closed / iv) >= 1:
            return ("live-peer-closed", "closed at %.0f ms although every interval before it had a heartbeat" % closed), True
    return None, False


def run_wd(ctx):
    cases = gen_wd_cases(ctx)
    files = dict(DRV)
    files["zz_verif_stream_test.go"] = "c16/stream_driver_test.go"

    def go(cs):
        rc, out, res = ctx.go_inpkg(".", "pkg/dtls", files, "^TestVerifC16Watchdog$", cs, timeout=300)
        if res is None or len(res) != len(cs):
            driver_failed(ctx, "Go watchdog driver", out)
            return None
        return res
    res = go(cases)
    if res is None:
        return
    terms, tcases = [], []
    for c, r in zip(cases, res):
        iv = c["interval_ms"]
        prob, _ = wd_eval(ctx, c, r, False)
        model_ok = True
        if not c["deadlines"]:
            tick = 0 if r["closed_at_ms"] < 0 else int(round(r["closed_at_ms"] / iv))
            off = abs(r["closed_at_ms"] - tick * iv) if tick else 0
            model_ok = (tick, off)
        # timing-sensitive: confirm by re-running alone before reporting
        attempts = 0
        while (prob is not None) and attempts < 2:
            attempts += 1
            r2 = go([c])
            if r2 is None:
                return
            r = r2[0]
            prob, _ = wd_eval(ctx, c, r, True)
        ctx.count((tuple(c["hb_at"]), tuple(c["data_at"]), c["quarters"], c["deadlines"]),
                  kind="wd/%s%s" % ("closed" if r["closed_at_ms"] >= 0 else "open", "+deadline" if c["deadlines"] else ""))
        if prob:
            ctx.fail("wd/" + prob[0], "heartbeat watchdog (measured, interval %d ms): %s" % (iv, prob[1]),
                     {"wd_cases": [c], "observed": r})
        if not c["deadlines"]:
            tick = 0 if r["closed_at_ms"] < 0 else int(round(r["closed_at_ms"] / iv))
            terms.append("CWd %s %s" % (glist(wd_expect(c), lambda n: "%d%%nat" % n), gN(tick)))
            tcases.append((c, r))
    try:
        ctx.sample({"sub": "watchdog", "case": cases[0], "observed": res[0]})
    except (IndexError, KeyError):
        pass
    mm = yield ("coq", terms)
    if mm:
        # a mismatch may be a timer that fired late under load: re-measure those cases alone
        still = []
        for i in mm:
            c, _ = tcases[i]
            okay = False
            for _ in range(2):
                r2 = go([c])
                if r2 is None:
                    return
                tick = 0 if r2[0]["closed_at_ms"] < 0 else int(round(r2[0]["closed_at_ms"] / c["interval_ms"]))
                t = "CWd %s %s" % (glist(wd_expect(c), lambda n: "%d%%nat" % n), gN(tick))
                m2 = ctx.coq_mismatches("wd_retry", HEADER, [t], "chk")
                if m2 == []:
                    okay = True
                    break
            if not okay:
                still.append(i)
        if still:
            ctx.cov["mismatches"] += len(still)
            c, r = tcases[still[0]]
            ctx.broken("correspondence", "watchdog automaton (wstep) and hbLoop disagree on %d measured case(s) (confirmed by re-runs)"
                       % len(still), {"wd_cases": [c], "observed": r})


# ------------------------------------------------------------------ (iv) registry, scripted
REG_OPS = {"start": 0, "cancel": 1, "astep": 2, "arecv": 3, "acancelled": 4, "cstep": 5, "csend": 6, "ctimeout": 7}


def gen_reg_cases(ctx):
    rng = ctx.rng
    quick = ctx.tier == "quick"
    cases = []

    def finish(c):
        # let every acceptor return so that the final snapshot is "after all calls returned"
        for a in range(len(c["asec"])):
            c["ops"].append(("cancel", a))
            if not c["areal"][a]:
                c["ops"] += [("astep", a), ("astep", a), ("acancelled", a), ("arecv", a), ("astep", a), ("astep", a)]
        return c
    # hand-written: concurrent accepts with distinct, equal and unregistered secrets
    cases.append(finish({"nsec": 3, "asec": [0, 0, 1], "areal": [True, True, False], "csec": [0, 1, 0, 2],
                         "ops": [("start", 0), ("start", 1), ("astep", 2), ("astep", 2), ("cstep", 0), ("cstep", 0), ("cstep", 0),
                                 ("csend", 0), ("cstep", 1), ("cstep", 1), ("cstep", 1), ("csend", 1), ("arecv", 2), ("astep", 2),
                                 ("astep", 2), ("cstep", 2), ("cstep", 2), ("cstep", 3), ("cstep", 3)]}))
    # a manual acceptor paused between registerCert and registerChannel, and between the two removals
    cases.append(finish({"nsec": 2, "asec": [0, 0, 0], "areal": [False, True, True], "csec": [0],
                         "ops": [("astep", 0), ("start", 1), ("astep", 0), ("cancel", 0), ("acancelled", 0), ("astep", 0), ("start", 2),
                                 ("astep", 0)]}))
    # stale channel: the connection thread holds a channel whose acceptor left
    cases.append(finish({"nsec": 2, "asec": [0, 0], "areal": [True, True], "csec": [0, 0],
                         "ops": [("start", 0), ("cstep", 0), ("cstep", 0), ("cstep", 0), ("cancel", 0), ("start", 1), ("csend", 0),
                                 ("cstep", 1), ("cstep", 1), ("cstep", 1), ("csend", 1)]}))
    for _ in range(120 if quick else 3000):
        nsec = rng.randrange(2, 4)
        na = rng.randrange(2, 6)
        nc = rng.randrange(1, 6)
        reg_secs = nsec - 1 if rng.random() < 0.5 else nsec   # sometimes the last secret is never used by an acceptor
        c = {"nsec": nsec, "asec": [rng.randrange(reg_secs) for _ in range(na)],
             "areal": [rng.random() < 0.5 for _ in range(na)],
             "csec": [rng.randrange(nsec) for _ in range(nc)], "ops": []}
        for _ in range(rng.randrange(8, 45)):
            r = rng.random()
            if r < 0.45:
                a = rng.randrange(na)
                if c["areal"][a]:
                    c["ops"].append((rng.choice(["start", "start", "start", "cancel"]), a))
                else:
                    c["ops"].append((rng.choice(["astep", "astep", "astep", "arecv", "acancelled", "cancel"]), a))
            else:
                t = rng.randrange(nc)
                c["ops"].append((rng.choice(["cstep", "cstep", "cstep", "csend", "csend", "ctimeout"]), t))
        cases.append(finish(c))
    if ctx.replay:
        cases = [{"nsec": len(j["secrets"]), "asec": j["asec"], "areal": j["areal"], "csec": j["csec"],
                  "ops": [(o["op"], o["t"]) for o in j["ops"]]} for j in replay_cases(ctx, "reg_cases")]
    return cases


def run_reg(ctx):
    cases = gen_reg_cases(ctx)
    js = []
    for c in cases:
        secrets = [bytes([0x51 + i]) * (8 + i) for i in range(c["nsec"])]
        js.append({"secrets": [x.hex() for x in secrets], "asec": c["asec"], "areal": c["areal"], "csec": c["csec"],
                   "ops": [{"op": o, "t": t} for o, t in c["ops"]]})
    res, out = yield ("go", "reg", js)
    if res is None or len(res) != len(cases):
        driver_failed(ctx, "Go registry driver", out)
        return
    terms = []
    for c, j, r in zip(cases, js, res):
        steps = r.get("steps") or []
        ares = r.get("ares") or []
        apc = r.get("apc") or []
        bad = None
        if r.get("note") or len(steps) != len(c["ops"]):
            bad = ("driver-stopped", r.get("note", "driver stopped early"))
        seen = {}
        for a, x in enumerate(ares):
            if x >= 100:
                cidx = x - 100
                if c["csec"][cidx] != c["asec"][a]:
                    bad = ("cross-delivery", "acceptor %d (secret %d) received connection %d made with secret %d"
                           % (a, c["asec"][a], cidx, c["csec"][cidx]))
                if cidx in seen:
                    bad = ("double-delivery", "connection %d delivered to acceptors %d and %d" % (cidx, seen[cidx], a))
                seen[cidx] = a
        # a refused second accept must leave the registrations of the first untouched
        first_op = {}
        for i, (o, t) in enumerate(c["ops"]):
            if o in ("start", "astep") and t not in first_op and (o == "start") == c["areal"][t]:
                first_op[t] = i
        for a, x in enumerate(ares):
            i = first_op.get(a)
            if x == 1 and i is not None and 0 < i < len(steps):
                if (steps[i]["ncerts"], steps[i]["nchans"]) != (steps[i - 1]["ncerts"], steps[i - 1]["nchans"]):
                    bad = ("duplicate-accept-disturbs-first", "the refused accept %d (secret %d already registered) changed the maps "
                           "from %d/%d to %d/%d entries" % (a, c["asec"][a], steps[i - 1]["ncerts"], steps[i - 1]["nchans"],
                                                            steps[i]["ncerts"], steps[i]["nchans"]))
        if steps and all(p in (0, 5) for p in apc) and (steps[-1]["ncerts"] or steps[-1]["nchans"]):
            bad = ("registry-leak", "after every accept returned: %d certificate entr(y/ies), %d channel entr(y/ies) left"
                   % (steps[-1]["ncerts"], steps[-1]["nchans"]))
        kinds = []
        if r.get("unclosed"):
            kinds.append("undelivered-unclosed")
            ctx.cov.setdefault("observations", {})["a connection handed to the channel of an accept that has left"] = {
                "example": {"case": j, "unclosed_connections": r["unclosed"]},
                "verdict": "not a violation of C16 as stated (nothing stays registered, nobody else receives it); the connection "
                           "is neither delivered nor closed by the listener: a resource leak outside the statement, recorded"}
        if any(x >= 100 for x in ares):
            kinds.append("delivered")
        if 1 in ares:
            kinds.append("dup")
        if 3 in ares:
            kinds.append("cancelled")
        ctx.count((c["nsec"], tuple(c["asec"]), tuple(c["areal"]), tuple(c["csec"]), tuple(c["ops"])),
                  kind="reg/" + ("+".join(kinds) or "idle"))
        for k in kinds:
            ctx.count(("k", k, len(terms)), nontrivial=False, kind="reg/has-" + k)
        if bad:
            ctx.fail("registry/" + bad[0], "listener registry (scripted schedule): " + bad[1], {"reg_cases": [j], "observed": r})
        terms.append("CReg %d%%nat %s %s %s %s %s %s %s" % (
            c["nsec"], glist(c["asec"], gN), glist(c["areal"], gbool), glist(c["csec"], gN),
            glist(c["ops"], lambda x: "(%s, %d%%nat)" % (gN(REG_OPS[x[0]]), x[1])),
            glist(steps, lambda st: "(%s, %s, %s)" % (gN(st["r"] + 1), gN(st["ncerts"]), gN(st["nchans"]))),
            glist(ares, lambda x: gN(x + 1)), glist(apc, gN)))
    try:
        ctx.sample({"sub": "registry", "case": js[0], "observed": res[0]})
    except (IndexError, KeyError):
        pass
    mm = yield ("coq", terms)
    if mm:
        ctx.cov["mismatches"] += len(mm)
        i = mm[0]
        ctx.broken("correspondence", "registry LTS (lstep) and the Listener's registry methods disagree on %d schedule(s)" % len(mm),
                   {"reg_cases": [js[i]], "observed": res[i]})


# ------------------------------------------------------------------ (v) key material
def run_mat(ctx):
    rng = ctx.rng
    quick = ctx.tier == "quick"
    cases = []
    for ln in [0, 1, 15, 16, 32, 33, 64, 100] + [rng.randrange(1, 80) for _ in range(12 if quick else 300)]:
        s = bytes(rng.getrandbits(8) for _ in range(ln))
        o = bytes(rng.getrandbits(8) for _ in range(rng.choice([ln, ln + 1, 32])))
        if o == s:
            o = s + b"\x00"
        cases.append({"secret": s.hex(), "other": o.hex()})
    # near-equal secrets
    base = bytes(range(32))
    cases.append({"secret": base.hex(), "other": (base[:-1] + b"\x20").hex()})
    cases.append({"secret": base.hex(), "other": (base + b"\x00").hex()})
    if ctx.replay:
        cases = replay_cases(ctx, "mat_cases")
    res, out = yield ("go", "mat", cases)
    if res is None or len(res) != len(cases):
        driver_failed(ctx, "Go key-material driver", out)
        return
    terms = []
    hellos = {}
    for c, r in zip(cases, res):
        bad = None
        if r.get("err"):
            bad = ("derivation-error", r["err"])
        elif not r["again"]:
            bad = ("same-secret-different-material", "two derivations from the same secret differ")
        elif not r["self_verify"]:
            bad = ("same-secret-not-verified", "certificates derived twice from one secret do not verify against each other")
        elif r["cross_verify"]:
            bad = ("different-secret-verified", "a certificate derived from another secret passes verifyCert")
        elif r["hello"] == r["other_hello"]:
            bad = ("hello-random-collision", "two different secrets give the same hello-random")
        elif not (r["client"]["pubok"] and r["server"]["pubok"]):
            bad = ("public-key-mismatch", "certificate public key is not the derived key")
        ctx.count(c["secret"], kind="mat/len%s" % ("0" if not c["secret"] else "N"))
        if bad:
            ctx.fail("material/" + bad[0], "seedtocert: " + bad[1], {"mat_cases": [c], "observed": r})
            continue
        if r["hello"] in hellos and hellos[r["hello"]] != c["secret"]:
            ctx.fail("material/hello-random-collision", "two different secrets give the same hello-random", {"mat_cases": [c]})
        hellos[r["hello"]] = c["secret"]
        if len(terms) < (2 * 40 if ctx.tier == "quick" else 2 * 150):
            # from the secret alone: concrete HKDF-SHA256 (coq/C14) -> hello-random, keys, serials, names
            terms.append("CMatS %s %s %s %s %s %s %s %s" % (
                hexs(bytes.fromhex(c["secret"])), hexs(bytes.fromhex(r["hello"])),
                gN(int(r["client"]["d"], 16)), gN(int(r["client"]["serial"], 16)), hexs(bytes.fromhex(r["client"]["cn"])),
                gN(int(r["server"]["d"], 16)), gN(int(r["server"]["serial"], 16)), hexs(bytes.fromhex(r["server"]["cn"]))))
            ctx.count(("concrete", c["secret"]), nontrivial=False, kind="mat/from-secret-concrete-hkdf")
        terms.append("CMat %s %s %s %s %s %s %s %s %s" % (
            hexs(bytes.fromhex(r["stream_hello"])), hexs(bytes.fromhex(r["stream_certs"])), hexs(bytes.fromhex(r["hello"])),
            gN(int(r["client"]["d"], 16)), gN(int(r["client"]["serial"], 16)), hexs(bytes.fromhex(r["client"]["cn"])),
            gN(int(r["server"]["d"], 16)), gN(int(r["server"]["serial"], 16)), hexs(bytes.fromhex(r["server"]["cn"]))))
    try:
        ctx.sample({"sub": "material", "case": cases[2], "observed": {k: v for k, v in res[2].items() if k != "stream_certs"}})
    except (IndexError, KeyError):
        pass
    mm = yield ("coq", terms)
    if mm:
        ctx.cov["mismatches"] += len(mm)
        i = mm[0]
        ctx.broken("correspondence", "derivation model (hello_random / cert_of over the concrete HKDF-SHA256, and over the "
                   "driver-supplied streams) and seedtocert.go disagree on %d term(s)" % len(mm),
                   {"mat_cases": cases[:3]})


# ------------------------------------------------------------------ real Listener + Dial over loopback (oracle only)
def gen_lb_cases(ctx):
    rng = ctx.rng
    quick = ctx.tier == "quick"
    sizes = [2, 8] if quick else [2, 3, 5, 8, 12, 16, 24, 32, 32]
    cases = []
    for npairs in sizes:
        nsec = npairs + 2
        secrets = [bytes(rng.getrandbits(8) for _ in range(rng.choice([16, 32])))for _ in range(nsec)]
        accs, dials = [], []
        for s in range(npairs):
            cancel = -1
            if npairs > 2 and rng.random() < 0.3:
                cancel = rng.randrange(0, 120)
            accs.append({"sec": s, "cancel_ms": cancel, "dup": False})
            dials.append({"sec": s, "delay_ms": rng.randrange(0, 100) if cancel >= 0 else rng.randrange(0, 20)})
        # a second accept for a registered secret, a second dial with an equal secret, dials with unregistered secrets
        for s in rng.sample(range(npairs), max(1, npairs // 4)):
            accs.append({"sec": s, "cancel_ms": -1, "dup": True})
        if npairs > 2:
            dials.append({"sec": rng.randrange(npairs), "delay_ms": rng.randrange(0, 30)})
        dials.append({"sec": nsec - 1, "delay_ms": 0})
        dials.append({"sec": nsec - 2, "delay_ms": rng.randrange(0, 30)})
        cases.append({"secrets": [x.hex() for x in secrets], "accs": accs, "dials": dials, "npairs": npairs,
                      "budget_ms": 2500 if quick else 8000, "dial_ms": 2500 if quick else 6000})
    if ctx.replay:
        cases = replay_cases(ctx, "lb_cases")
    return cases


def lb_eval(c, r):
    probs = []
    if r.get("note"):
        probs.append(("driver", r["note"], True))
        return probs
    npairs = c["npairs"]
    delivered = {}
    for i, (a, ar) in enumerate(zip(c["accs"], r["accs"])):
        if ar["err"] == 0 and ar["tag"]:
            sec, di = [int(x) for x in ar["tag"].split("/")]
            if sec != a["sec"]:
                probs.append(("cross-delivery", "accept %d for secret %d got the connection of dial %d made with secret %d"
                              % (i, a["sec"], di, sec), False))
            if di in delivered:
                probs.append(("double-delivery", "dial %d was delivered to accepts %d and %d" % (di, delivered[di], i), False))
            delivered[di] = i
        if a["dup"] and ar["err"] != 1:
            probs.append(("duplicate-accept-not-refused", "second accept for registered secret %d returned %r (%s)"
                          % (a["sec"], ar["err"], ar.get("errtext", "")), True))
        if not a["dup"] and a["cancel_ms"] < 0:
            nd = sum(1 for d in c["dials"] if d["sec"] == a["sec"])
            if nd >= 1 and ar["err"] != 0:
                probs.append(("accept-failed", "accept %d for secret %d with a matching dial failed: %s" % (i, a["sec"], ar.get("errtext", "")), True))
        if a["cancel_ms"] >= 0 and ar["err"] == 3 and ar["elapsed_ms"] > 1500:
            probs.append(("cancel-not-prompt", "accept %d returned %.0f ms after its context was cancelled" % (i, ar["elapsed_ms"]), True))
    used = set(a["sec"] for a in c["accs"])
    for i, (d, dr) in enumerate(zip(c["dials"], r["dials"])):
        if d["sec"] not in used and dr["ok"]:
            probs.append(("unregistered-dial-succeeded", "dial %d with a secret nobody accepts completed" % i, False))
        if dr["ok"]:
            sec, ai = [int(x) for x in dr["echo"].split("/")]
            if sec != d["sec"]:
                probs.append(("cross-delivery", "dial %d with secret %d talked to accept %d of secret %d" % (i, d["sec"], ai, sec), False))
    if r["ncerts_after"] or r["nchans_after"]:
        probs.append(("registry-leak", "after all calls returned connToCert has %d and connMap %d entr(y/ies)"
                      % (r["ncerts_after"], r["nchans_after"]), False))
    if r["ncerts_mid"] != sum(1 for a in c["accs"] if not a["dup"]):
        probs.append(("registration-count", "%d certificates registered while %d accepts wait" %
                      (r["ncerts_mid"], sum(1 for a in c["accs"] if not a["dup"])), True))
    return probs


def run_lb(ctx):
    cases = gen_lb_cases(ctx)
    files = dict(DRV)
    files["zz_verif_listener_test.go"] = "c16/listener_driver_test.go"
    race = ctx.tier == "thorough"

    def go(cs):
        rc, out, res = ctx.go_inpkg(".", "pkg/dtls", files, "^TestVerifC16Loopback$",
                                    [{k: v for k, v in c.items() if k != "npairs"} for c in cs], timeout=900, race=race)
        if "WARNING: DATA RACE" in out:
            ctx.fail("loopback/data-race", "go test -race reports a data race in pkg/dtls under concurrent Accept/Dial",
                     {"race_report": out[out.index("WARNING: DATA RACE"):][:1500]})
        if res is None or len(res) != len(cs):
            driver_failed(ctx, "Go loopback driver", out)
            return None
        return res
    res = go(cases)
    if res is None:
        return
    for c, r in zip(cases, res):
        probs = lb_eval(c, r)
        # timing-dependent complaints are confirmed by re-running the case alone
        deterministic_seen = any(f["key"].startswith("registry/") for f in ctx.failures)
        if probs and all(p[2] for p in probs) and not deterministic_seen:
            for _ in range(1):
                r2 = go([c])
                if r2 is None:
                    return
                probs = lb_eval(c, r2[0])
                r = r2[0]
                if not probs:
                    break
        nacc_ok = sum(1 for a in r.get("accs", []) if a["err"] == 0)
        ctx.count((tuple(c["secrets"]), str(c["accs"]), str(c["dials"])),
                  kind="lb/pairs=%d" % c["npairs"], nontrivial=nacc_ok > 0)
        if any(a["err"] == 1 for a in r.get("accs", [])):
            ctx.count(("dup", c["npairs"]), nontrivial=False, kind="lb/has-dup-refused")
        if any(a["err"] == 3 for a in r.get("accs", [])):
            ctx.count(("cancel", c["npairs"]), nontrivial=False, kind="lb/has-cancelled")
        for p in probs:
            ctx.fail("loopback/" + p[0], "real Listener + Dial over loopback UDP (%d pairs): %s" % (c["npairs"], p[1]),
                     {"lb_cases": [c], "observed": r})
    try:
        ctx.sample({"sub": "loopback", "pairs": cases[0]["npairs"], "observed": res[0]})
    except (IndexError, KeyError):
        pass
    ctx.cov["measured_only"] = ["pion DTLS handshake and SCTP association over loopback UDP (oracle on outcomes, no model comparison)",
                                "heartbeat interval timers (watchdog close time within 2 intervals + tolerance)",
                                "accept cancellation latency"]


def run(ctx):
    ctx.assumptions += [
        "pion DTLS/SCTP, x509, ECDSA and real timers are outside the model",
        "the Go in-package drivers (scripted msgStream), the case generator and the JSON->Gallina emitter are trusted",
    ]
    ctx.cov["trusted_base"] = [
        "Coq 8.16.1 kernel (coqc; coqchk in the thorough tier); vm_compute used for evaluating the model on cases; no native_compute",
        "no axioms: every theorem prints 'Closed under the global context'",
        "hand-written model coq/C16/Model.v tied to pkg/dtls by the correspondence run (drivers + emitter trusted)",
    ]
    ctx.cov["rule"] = ("a case is one scripted stream x read-size sequence (or op sequence / schedule / secret set); "
                       "non-trivial if hash-distinct and it delivers at least one byte, error, heartbeat or registry event")
    ctx.assumptions += [
        "HKDF-SHA256 is a section variable; 'its 28-byte hello-random output separates secrets' is a named hypothesis (hkdf_hello_injective)",
        "pion completes a DTLS handshake iff both sides hold certificates of the same derived key (assumption of the registry model, step C1)",
        "the code between Lock/Unlock and single channel operations are atomic steps (Go memory model; -race in the thorough tier)",
        "sync.Mutex gives mutual exclusion (assumed by mw_step's MLockOp); its fairness is not modelled: starvation freedom is "
        "stated as 'every pending Write CAN complete' (C16_mw_every_write_can_complete), not 'will under every scheduler'",
        "the watchdog automaton is tied to hbLoop by measured close times only (real timers)",
    ]
    # coq/C14 provides the concrete SHA-256 / HMAC / HKDF that Concrete.v instantiates (v) on; its files are built
    # (not cleaned, not edited) through this property's Makefile
    if "C14" not in ctx.extra_dirs:
        ctx.extra_dirs.append("C14")
    ctx.coq_props(props_files=["C16/Props.v", "C16/Refuted.v"])
    rc, out = ctx.coq_make(["C16/Examples.vo", "C16/Run.vo"])
    if rc != 0:
        ctx.broken("examples", "non-vacuity examples (coq/C16/Examples.v) no longer check: " + out[-500:])
    only = (ctx.replay or {}).get("only")
    if ctx.replay and not only:
        only = [k for k, v in REPLAY_KEYS.items() if replay_cases(ctx, v)] or ["none"]
    subs = [("read", run_reads), ("rp", run_rp), ("fc", run_fc), ("mw", run_mw), ("mws", run_mws), ("mr", run_mr), ("mrs", run_mrs), ("hbq", run_hbq), ("win", run_win), ("hbb", run_hbb), ("reg", run_reg), ("mat", run_mat), ("wd", run_wd), ("lb", run_lb)]
    import time
    ctx.cov["timing_s"] = {}
    t0 = time.time()
    gens, want_go, want_coq = {}, {}, {}

    def advance(name, val=None):
        g = gens[name]
        try:
            req = next(g) if val is None else g.send(val)
        except StopIteration:
            return
        if req[0] == "go":
            want_go[name] = req
        else:
            want_coq[name] = req[1]
    # the watchdog is measured first (real timers), then everything deterministic in one test-binary run
    for name, f in subs:
        if only and name not in only:
            continue
        if name == "lb":
            continue
        gens[name] = f(ctx)
        advance(name)
    ctx.cov["timing_s"]["generate+watchdog"] = round(time.time() - t0, 1)
    t0 = time.time()
    if want_go:
        files = dict(DRV)
        for fn in ("read", "rp", "stream", "listener", "mw", "mr", "all"):
            files["zz_verif_%s_test.go" % fn] = "c16/%s_driver_test.go" % fn
        batch = {req[1]: req[2] for req in want_go.values()}
        rc, out, res = ctx.go_inpkg(".", "pkg/dtls", files, "^TestVerifC16All$", batch, timeout=1500)
        pending = dict(want_go)
        want_go.clear()
        for name, req in pending.items():
            r = (res or {}).get(req[1])
            advance(name, (r, out))
    ctx.cov["timing_s"]["go-drivers"] = round(time.time() - t0, 1)
    t0 = time.time()
    if (not only or "lb" in only):
        run_lb(ctx)
    if ctx.tier == "thorough" and (not only or "mws" in only):
        run_mws_race(ctx)
    ctx.cov["timing_s"]["loopback"] = round(time.time() - t0, 1)
    t0 = time.time()
    if want_coq:
        names = list(want_coq)
        allterms, offs = [], {}
        for n in names:
            offs[n] = len(allterms)
            allterms += want_coq[n]
        # the real-pair terms are few and expensive: spread them evenly over the shards
        order = [i for i in range(len(allterms)) if not ("rp" in offs and offs["rp"] <= i < offs["rp"] + len(want_coq["rp"]))]
        rpi = list(range(offs["rp"], offs["rp"] + len(want_coq["rp"]))) if "rp" in offs else []
        if rpi:
            step = max(1, len(order) // len(rpi))
            for j, i in enumerate(rpi):
                order.insert(min(len(order), j * (step + 1)), i)
        mm = ctx.coq_mismatches("all", HEADER, [allterms[i] for i in order], "chk", shard=max(60, len(allterms) // 14 + 1))
        if mm is not None:
            mm = sorted(order[i] for i in mm)
        for n in names:
            if mm is None:
                local = None
            else:
                local = [i - offs[n] for i in mm if offs[n] <= i < offs[n] + len(want_coq[n])]
            advance(n, local if local is not None else [])
    ctx.cov["timing_s"]["coq-evaluation"] = round(time.time() - t0, 1)
    if not only and not getattr(ctx, "_c16_compile_reported", False):
        ctx.require_kinds(["read/data-equals-heartbeat", "fc/has-stale-token", "fc/has-blocked", "fc/has-limit",
                           "fc/has-closed-while-blocked", "reg/has-delivered", "reg/has-dup", "reg/has-cancelled",
                           "lb/has-dup-refused", "wd/closed", "wd/open", "mat/from-secret-concrete-hkdf",
                           "hbq/closed+queue-timeout", "mw/k=1", "mw/k=2", "mw/k=4", "mw/k=8", "mw/has-contention",
                           "mw/has-held-back", "mw/has-stale-token", "mw/has-closed-while-blocked", "mw/has-limit",
                           "mw/stress/never", "mw/stress/fast", "mr/has-contention", "mr/has-handover", "mr/stress",
                           "rp/dialer-to-acceptor/max-accepted", "rp/acceptor-to-dialer/max-accepted", "rp/max-1-accepted",
                           "rp/over-max-refused", "rp/read=1", "rp/read=max-1", "rp/read=max", "rp/read>max"])
