"""C16 — DTLS sessions: same secret on both ends, right acceptor, faithful byte stream,
bounded buffering, heartbeat timeout (pkg/dtls)."""
import itertools

from lib import gN, gbool, glist, gopt, hexs, bspec_in, bspec_obs, lcg_bytes

HEADER = "From CJ Require Import Common.Base C16.Model C16.Run.\n"
DRV = {"zz_verif_common_test.go": "c16/common_driver_test.go"}

E_EOS, E_CLOSED, E_SHORT = 1, 2, 3
E_HANG, E_PANIC = 98, 97


# ------------------------------------------------------------------ (i)/(ii) reads
def msg(d, e=None, role="data"):
    return {"d": d, "e": e, "role": role}


def read_case(server, mx, hb, script, sizes):
    return {"server": server, "mx": mx, "hb": hb, "script": script, "sizes": sizes}


def drain_sizes(pattern, script, extra=2):
    """repeat a pattern of read sizes until every byte and message of the script is certainly consumed"""
    need = sum(len(m["d"]) for m in script) + len(script) + extra
    out = []
    i = 0
    while len(out) < need or len(out) < len(pattern):
        out.append(pattern[i % len(pattern)])
        i += 1
    return out


def gen_read_cases(ctx):
    rng = ctx.rng
    quick = ctx.tier == "quick"
    cases = []
    hb = bytes([0xAA, 0xBB])
    mx = 3
    # exhaustive over small alphabets: message sizes x error position x heartbeat position x read-size pattern
    alpha = [0, 1, 2, 3]
    patterns = [(1,), (2,), (3,), (4,), (1, 2), (2, 1), (1, 3), (3, 1), (2, 4), (4, 1), (1, 1, 3), (0, 1), (2, 0, 5)]
    allc = []
    for ln in (1, 2, 3):
        for szs in itertools.product(alpha, repeat=ln):
            for errpos in [None] + list(range(ln)):
                for hbpos in [None] + list(range(ln + 1)):
                    for server in (False, True):
                        if hbpos is not None and not server:
                            continue
                        allc.append((szs, errpos, hbpos, server))
    if quick:
        allc = rng.sample(allc, 260)
    for (szs, errpos, hbpos, server) in allc:
        script = []
        ctr = 1
        for k, n in enumerate(szs):
            d = bytes((ctr + j) % 250 + 1 for j in range(n))
            ctr += n
            script.append(msg(d, 10 + k if errpos == k else None))
        if hbpos is not None:
            # the keep-alive itself may arrive with an error attached
            script.insert(hbpos, msg(hb, None, role="hb"))
        pats = patterns if not quick else rng.sample(patterns, 3)
        for p in pats:
            cases.append(read_case(server, mx, hb, script, drain_sizes(p, script)))
    # random longer scripts, realistic and boundary sizes
    for _ in range(60 if quick else 1200):
        server = rng.random() < 0.6
        m = rng.choice([1, 2, 3, 4, 5, 8, 16, 64, 300])
        h = bytes(rng.getrandbits(8) for _ in range(rng.choice([1, 2, m]) if m < 32 else 32))
        script = []
        for _ in range(rng.randrange(1, 9)):
            r = rng.random()
            if server and r < 0.25:
                script.append(msg(h, rng.choice([None, None, None, 40]), role="hb"))
                continue
            n = rng.choice([0, 1, m - 1, m, m, rng.randrange(0, m + 1)])
            d = bytes(rng.getrandbits(8) for _ in range(max(0, n)))
            if d == h:
                continue
            script.append(msg(d, rng.choice([None] * 6 + [20, 21])))
        if not script:
            script.append(msg(b"\x01", None))
        szalpha = [1, 1, 2, 3, m - 1, m, m + 1, 2 * m + 1, 0]
        sizes = [max(0, rng.choice(szalpha)) for _ in range(sum(len(x["d"]) for x in script) + len(script) + 3)]
        cases.append(read_case(server, m, h, script, sizes))
    # the real maximum message size, reads beyond it (bypass) and just below it
    for server in (False, True):
        big = lcg_bytes(rng.randrange(1 << 30), 65535)
        mid = lcg_bytes(rng.randrange(1 << 30), 40000)
        h = b"6v3jyM521GkBo1lsMyVLcRyzdZ7FKEM3"
        script = [msg(big), msg(b"xyz"), msg(mid, 33)]
        if server:
            script.insert(1, msg(h, role="hb"))
        cases.append(read_case(server, 65535, h, script, [65534, 1, 70000, 65535, 5, 39999, 2, 1, 1]))
    # candidate 13(b): a peer data message equal to the heartbeat payload
    h = b"6v3jyM521GkBo1lsMyVLcRyzdZ7FKEM3"
    cases.append(read_case(True, 64, h, [msg(b"before"), msg(h, role="data"), msg(b"after", 50)], [64] * 6))
    cases.append(read_case(False, 64, h, [msg(b"before"), msg(h, role="data"), msg(b"after", 50)], [64] * 6))
    for c in (ctx.replay or {}).get("read_cases", []):
        c = dict(c)
        c["hb"] = bytes.fromhex(c["hb"])
        c["script"] = [msg(bytes.fromhex(m["d"]), m["e"], m.get("role", "data")) for m in c["script"]]
        cases.insert(0, c)
    return cases


def read_oracle(c, reads):
    """The property's own statement on the observed reads; returns None or (class, text).
    Expected stream: the data messages in order (keep-alives removed on the server side), every
    error reported by the read that hands out the last byte of the message it came with."""
    exp = [m for m in c["script"] if not (c["server"] and m["role"] == "hb")]
    if c["server"]:
        cut = next((i for i, m in enumerate(exp) if m["e"] is not None), None)
        if cut is not None:
            exp = exp[:cut + 1]
    # an empty message without an error carries nothing the caller could see
    had_empty = any(not m["d"] and m["e"] is None for m in exp)
    exp = [m for m in exp if m["d"] or m["e"] is not None]
    mi, off = 0, 0
    for n, (d, e) in zip(c["sizes"], reads):
        if e in (E_HANG, E_PANIC):
            return ("hang" if e == E_HANG else "panic", "read %s" % ("hung" if e == E_HANG else "panicked"))
        if mi >= len(exp):
            # nothing left: only an end-of-stream/closed error without data is acceptable
            if d:
                return ("extra-bytes", "bytes %s returned after the end of the stream" % d.hex()[:40])
            if c["server"]:
                return None
            continue
        m = exp[mi]
        if len(d) > n:
            return ("overlong", "read returned more than the buffer size")
        if d:
            if m["d"][off:off + len(d)] != d:
                if c["server"] and any(x["role"] == "hb" and x["d"] == d for x in c["script"]):
                    return ("hb-surfaced", "a keep-alive heartbeat was returned as data")
                return ("lost-or-reordered", "message %d offset %d: expected %s got %s"
                        % (mi, off, m["d"][off:off + len(d)].hex()[:40], d.hex()[:40]))
            off += len(d)
        if not d and e is None and (n == 0 or had_empty):
            continue      # nothing visible happened (a size-0 read, or an empty message without error was consumed)
        if off == len(m["d"]):
            if d or not m["d"]:
                # this read handed out the last byte (or found an empty message): the error belongs here
                if e != m["e"]:
                    if m["e"] is not None and e is None:
                        return ("error-deferred", "message %d: error %s not reported with its last byte" % (mi, m["e"]))
                    return ("wrong-error", "message %d: expected error %s got %s" % (mi, m["e"], e))
                mi, off = mi + 1, 0
                if c["server"] and e is not None:
                    return None
                continue
        if e is not None:
            return ("error-before-data", "error %s reported while %d byte(s) delivered with message %d were still unread"
                    % (e, len(m["d"]) - off, mi))
        if not d and n > 0 and not had_empty:
            return ("empty-read", "read of %d bytes returned nothing although message %d has data left" % (n, mi))
    return None


def run_reads(ctx):
    cases = gen_read_cases(ctx)
    js = []
    for c in cases:
        js.append({"server": c["server"], "mx": c["mx"], "hb": c["hb"].hex(), "sizes": c["sizes"],
                   "script": [({"seed": m["d"].seed, "n": len(m["d"]), "e": -1 if m["e"] is None else m["e"]}
                               if hasattr(m["d"], "seed") and len(m["d"]) > 64 else
                               {"d": m["d"].hex(), "e": -1 if m["e"] is None else m["e"]}) for m in c["script"]]})
    files = dict(DRV)
    files["zz_verif_read_test.go"] = "c16/read_driver_test.go"
    rc, out, res = ctx.go_inpkg(".", "pkg/dtls", files, "^TestVerifC16Read$", js, timeout=600)
    if res is None or len(res) != len(cases):
        ctx.broken("driver", "Go read driver did not produce results: %s" % out[-800:])
        return
    terms = []
    for c, r in zip(cases, res):
        reads = [(bytes.fromhex(x["d"] or ""), None if x["e"] < 0 else x["e"]) for x in (r.get("reads") or [])]
        nhb = sum(1 for m in c["script"] if m["role"] == "hb")
        nerr = sum(1 for m in c["script"] if m["e"] is not None)
        dup = any(m["role"] == "data" and m["d"] == c["hb"] for m in c["script"])
        kind = "read/%s/%s%s%s" % ("server" if c["server"] else "client", "hb" if nhb else "nohb",
                                   "+err" if nerr else "", "+bypass" if any(n >= c["mx"] for n in c["sizes"]) else "")
        ctx.count((c["server"], c["mx"], c["hb"], [(m["d"], m["e"], m["role"]) for m in c["script"]], c["sizes"]),
                  nontrivial=True, kind=kind)
        if dup:
            ctx.count(("dup", c["server"]), kind="read/data-equals-heartbeat")
        v = read_oracle(c, reads)
        if v is not None:
            cls, text = v
            key = "read/%s/%s" % ("server" if c["server"] else "client", cls)
            if dup and c["server"]:
                # does the failure disappear when the data messages equal to the heartbeat are not expected?
                c2 = dict(c)
                c2["script"] = [dict(m, role="hb") if m["d"] == c["hb"] else m for m in c["script"]]
                if read_oracle(c2, reads) is None:
                    key = "read/server/data-message-equals-heartbeat"
            ctx.fail(key, "SCTPConn.Read over the heartbeat %s: %s" % ("server" if c["server"] else "client", text),
                     {"read_cases": [{"server": c["server"], "mx": c["mx"], "hb": c["hb"].hex(), "sizes": c["sizes"],
                                      "script": [{"d": m["d"].hex()[:4000], "e": m["e"], "role": m["role"]} for m in c["script"]]}],
                      "observed": [(d.hex()[:200], e) for d, e in reads][:40]})
        terms.append("CRead %s %s %s %s %s %s" % (
            gbool(c["server"]), gN(c["mx"]), hexs(c["hb"]),
            glist(c["script"], lambda m: "(%s, %s)" % (bspec_in(m["d"]), gopt(m["e"], gN))),
            glist(c["sizes"], gN),
            glist(reads, lambda x: "(%s, %s)" % (bspec_obs(x[0]), gopt(x[1], gN)))))
    ctx.sample({"sub": "read", "case": js[0], "observed": res[0]})
    ctx.sample({"sub": "read", "case": {k: v for k, v in js[-1].items()}, "observed": res[-1]})
    mm = ctx.coq_mismatches("read", HEADER, terms, "chk", shard=150, need_vo=["C16/Run.vo"])
    if mm:
        ctx.cov["mismatches"] += len(mm)
        i = mm[0]
        c = cases[i]
        ctx.broken("correspondence", "read model (sctp_read over hb_filter) and SCTPConn.Read disagree on %d case(s); first: %s mx=%d"
                   % (len(mm), "server" if c["server"] else "client", c["mx"]),
                   {"read_cases": [js[i]], "observed": res[i]})


def run(ctx):
    ctx.assumptions += [
        "pion DTLS/SCTP, x509, ECDSA and real timers are outside the model",
        "the Go in-package drivers (scripted msgStream), the case generator and the JSON->Gallina emitter are trusted",
    ]
    ctx.cov["trusted_base"] = [
        "Coq 8.16.1 kernel (coqc; coqchk in the thorough tier); vm_compute used for evaluating the model on cases; no native_compute",
        "no axioms: every theorem prints 'Closed under the global context'",
        "hand-written model coq/C16/Model.v tied to pkg/dtls by the correspondence run (drivers + emitter trusted)",
    ]
    ctx.cov["rule"] = ("a case is one scripted stream x read-size sequence (or op sequence / schedule / secret set); "
                       "non-trivial if hash-distinct and it delivers at least one byte, error, heartbeat or registry event")
    ctx.coq_props()
    run_reads(ctx)
    ctx.require_kinds(["read/data-equals-heartbeat"])
